#!/bin/bash
# developer aid: which code of /repo do the behaviours replayed by a check reach?
#   tools/coverage.sh run  <check id>...    run the quick tier of the checks with an instrumented harness build (nightly)
#   tools/coverage.sh show <path regex> [binary]   per-file line coverage for the sources matching the regex
#   tools/coverage.sh lines <source file> [binary] annotated listing of one file (uncovered lines are marked)
COV=${VERIF_COVERAGE_DIR:-/tmp/cov}
LLVM=$(dirname $(rustup +nightly which rustc))/../lib/rustlib/x86_64-unknown-linux-gnu/bin
case "$1" in
 run) shift
   for c in "$@"; do
     VERIF_COVERAGE=$COV VERIF_EVIDENCE=$COV/evidence VERIF_REPLAYS=$COV/replays VERIF_WORK=$COV/work /verif/check $c > $COV/$c.log 2>&1
     echo "$c exit=$?"
   done ;;
 merge) $LLVM/llvm-profdata merge -sparse $COV/prof/*.profraw -o $COV/all.profdata ;;
 show) re=$2; bin=${3:-e2e}
   $LLVM/llvm-profdata merge -sparse $COV/prof/$bin-*.profraw -o $COV/$bin.profdata || exit 2
   $LLVM/llvm-cov report $COV/harness/target/debug/$bin -instr-profile=$COV/$bin.profdata --ignore-filename-regex='(\.cargo|rustc|/verif/|/tmp/)' 2>/dev/null | grep -E "$re|^Filename|^TOTAL" ;;
 lines) f=$2; bin=${3:-e2e}
   $LLVM/llvm-profdata merge -sparse $COV/prof/$bin-*.profraw -o $COV/$bin.profdata || exit 2
   $LLVM/llvm-cov show $COV/harness/target/debug/$bin -instr-profile=$COV/$bin.profdata --show-line-counts-or-regions=false "$f" 2>/dev/null ;;
esac

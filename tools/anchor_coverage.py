#!/usr/bin/env python3
"""Developer aid: for each property, which lines / functions of the files it is anchored in (properties.jsonl
"anchors".files) are reached by the behaviours its check replays on the real code?
   tools/anchor_coverage.py run  C01 C02 ...   run the quick tier with an instrumented (nightly) harness build
   tools/anchor_coverage.py show C01 C02 ...   report (union over the harness binaries the check ran)
Everything lives under /tmp/cov (VERIF_COVERAGE_DIR); nothing registered in MANIFEST.json depends on it."""
import glob, json, os, re, subprocess, sys

COV = os.environ.get("VERIF_COVERAGE_DIR", "/tmp/cov")
rustc = subprocess.run(["rustup", "+nightly", "which", "rustc"], stdout=subprocess.PIPE, text=True).stdout.strip()
LLVM = os.path.join(os.path.dirname(rustc), "..", "lib", "rustlib", "x86_64-unknown-linux-gnu", "bin")
PROPS = {json.loads(l)["id"]: json.loads(l) for l in open("/verif/properties.jsonl")}


def run(ids):
    for c in ids:
        prof = os.path.join(COV, "prof_" + c)
        subprocess.run(["rm", "-rf", prof])
        os.makedirs(prof, exist_ok=True)
        env = dict(os.environ, VERIF_COVERAGE=COV, VERIF_COVERAGE_PROF=prof, VERIF_EVIDENCE=COV + "/evidence",
                   VERIF_REPLAYS=COV + "/replays", VERIF_WORK=COV + "/work")
        with open(os.path.join(COV, c + ".log"), "w") as fh:
            rc = subprocess.run(["/verif/check", c], env=env, stdout=fh, stderr=subprocess.STDOUT).returncode
        print(c, "exit=%d" % rc, "profiles:", len(os.listdir(prof)), flush=True)


def anchor_files(c):
    out = []
    for f in PROPS[c]["anchors"]["files"]:
        p = os.path.join("/repo", f)
        if os.path.isdir(p):
            out += sorted(glob.glob(p + "/**/*.rs", recursive=True))
        elif os.path.exists(p) and p.endswith(".rs"):
            out.append(p)
    return out


def show(ids):
    for c in ids:
        prof = os.path.join(COV, "prof_" + c)
        bins = sorted({f.split("-")[0] for f in os.listdir(prof)}) if os.path.isdir(prof) else []
        files = anchor_files(c)
        lines = {f: {} for f in files}          # file -> line -> max count
        for b in bins:
            pd = os.path.join(COV, "%s_%s.profdata" % (c, b))
            subprocess.run([LLVM + "/llvm-profdata", "merge", "-sparse"] + glob.glob(os.path.join(prof, b + "-*.profraw")) + ["-o", pd], check=True)
            binp = os.path.join(COV, "harness", "target", "debug", b)
            for f in files:
                p = subprocess.run([LLVM + "/llvm-cov", "show", binp, "-instr-profile=" + pd, "--show-line-counts-or-regions=false", f],
                                   stdout=subprocess.PIPE, stderr=subprocess.DEVNULL, text=True)
                for ln in p.stdout.splitlines():
                    m = re.match(r"\s*(\d+)\|\s*([0-9.]+[kMG]?)\|", ln)
                    if m:
                        n = int(m.group(1))
                        cnt = 0 if m.group(2) == "0" else 1
                        lines[f][n] = max(lines[f].get(n, 0), cnt)
        print("== %s  (harness binaries: %s)" % (c, " ".join(bins)))
        for f in files:
            d = lines[f]
            if not d:
                print("   %-85s not compiled into any harness binary of this check" % f[6:])
                continue
            src = open(f).read().splitlines()
            # exclude #[cfg(test)] modules (everything after `mod tests` at file level is in tests.rs normally)
            cov = sum(1 for v in d.values() if v)
            unc = sorted(n for n, v in d.items() if not v)
            # uncovered functions: fn headers on uncovered lines
            fns = []
            for n in unc:
                if n - 1 < len(src):
                    m = re.search(r"\bfn\s+([A-Za-z0-9_]+)", src[n - 1])
                    if m:
                        fns.append("%s:%d" % (m.group(1), n))
            print("   %-85s %4d/%4d lines %5.1f%%   never entered: %s" % (f[6:], cov, len(d), 100.0 * cov / max(1, len(d)), " ".join(fns[:40])))


if __name__ == "__main__":
    if sys.argv[1] == "run":
        run(sys.argv[2:])
    else:
        show(sys.argv[2:])

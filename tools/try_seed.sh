#!/bin/bash
# usage: tools/try_seed.sh <patch.diff> <check id>...   - runs the checks against a scratch copy of /repo with the patch applied
set -u
PATCH=$1; shift
SCR=${VERIF_SCRATCH:-/tmp/scr_main}     # set VERIF_SCRATCH to a directory of your own when several sessions try seeds at once
S=$SCR/repo
mkdir -p $SCR
rsync -a --delete --exclude target --exclude .git /repo/ $S/ || exit 2
(cd $S && patch -p1 -s < "$PATCH") || { echo "patch failed"; exit 2; }
# rsync restores old mtimes: cargo would not notice that a file changed back. Touch every source file so that
# every crate is rebuilt from what is on disk now (no stale mutant from an earlier run can survive).
find $S -name "*.rs" -not -path "*/target/*" -exec touch {} +
for c in "$@"; do
  VERIF_REPO=$S VERIF_EVIDENCE=$SCR/evidence VERIF_REPLAYS=$SCR/replays VERIF_WORK=$SCR/work /verif/check $c --tier quick > $SCR/$c.log 2>&1
  rc=$?
  echo "== $c exit=$rc  violations=$(grep -c '^VIOLATION' $SCR/$c.log)"
  grep -v '^   \|^VIOLATION' $SCR/$c.log | tail -12
  grep -A1 '^VIOLATION' $SCR/$c.log | head -4 | cut -c1-600
done

#!/bin/bash
# usage: tools/try_seed.sh <patch.diff> <check id>...   - runs the checks against a scratch copy of /repo with the patch applied
set -u
PATCH=$1; shift
S=/tmp/scr_main/repo
mkdir -p /tmp/scr_main
rsync -a --delete --exclude target --exclude .git /repo/ $S/ || exit 2
(cd $S && patch -p1 -s < "$PATCH") || { echo "patch failed"; exit 2; }
# rsync restores old mtimes: cargo would not notice that a file changed back. Touch every source file so that
# every crate is rebuilt from what is on disk now (no stale mutant from an earlier run can survive).
find $S -name "*.rs" -not -path "*/target/*" -exec touch {} +
for c in "$@"; do
  VERIF_REPO=$S VERIF_EVIDENCE=/tmp/scr_main/evidence VERIF_REPLAYS=/tmp/scr_main/replays VERIF_WORK=/tmp/scr_main/work /verif/check $c --tier quick > /tmp/scr_main/$c.log 2>&1
  rc=$?
  echo "== $c exit=$rc  violations=$(grep -c '^VIOLATION' /tmp/scr_main/$c.log)"
  grep -v '^   \|^VIOLATION' /tmp/scr_main/$c.log | tail -12
  grep -A1 '^VIOLATION' /tmp/scr_main/$c.log | head -4 | cut -c1-600
done

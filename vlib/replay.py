"""B1: replay specification behaviours on the real code and compare.

A *case* is {"id", "cfg", "acts": [action records]}.  Each action record carries the inputs of
the call and the outputs the mechanism specification expects (every key not in `input_keys`).
The harness answers {"id", "obs": [observed outputs per action], "panic"?}.

Verdict per case:
  * observed == expected at every step  -> the execution is a behaviour of M, and TLC has shown
    M |= P, so it is accepted;
  * otherwise the recorded execution is given to the property specification P (trace
    validation): accepted -> MODEL-DRIFT note only; rejected -> VIOLATION (unless it is a
    listed known finding).
"""
import json, os, random
from . import core


def project(act, input_keys):
    return {k: v for k, v in act.items() if k not in input_keys}


def inputs(act, input_keys):
    return {k: v for k, v in act.items() if k in input_keys}


def first_diff(exp_acts, obs, input_keys, ignore_obs_keys=()):
    """index of the first step whose observation differs from the expectation, or None."""
    for i, a in enumerate(exp_acts):
        if i >= len(obs):
            return i
        e = project(a, input_keys)
        o = {k: v for k, v in obs[i].items() if k not in ignore_obs_keys}
        if e != o:
            return i
    return None


def run_cases(member, component, cases, wd, tag="cases", input_keys=None, strip=True, args=()):
    inp = os.path.join(wd, tag + ".in.ndjson")
    outp = os.path.join(wd, tag + ".out.ndjson")
    if strip and input_keys is not None:
        send = [{"id": c["id"], "cfg": c.get("cfg", {}),
                 "acts": [inputs(a, input_keys) for a in c["acts"]]} for c in cases]
    else:
        send = cases
    core.write_ndjson(inp, send)
    core.run_harness(member, [component] + list(args), stdin_path=inp, stdout_path=outp)
    res = core.read_ndjson(outp)
    if len(res) != len(cases):
        raise core.ToolError("harness %s/%s answered %d of %d cases" % (member, component, len(res), len(cases)))
    return res


def conformance(out, cases, results, input_keys, p_validate, what, ignore_obs_keys=(), max_validate=200):
    """Compare and triage.  p_validate(case, result) -> dict(accepted, detail, kf=[...]) or None
    if P has no opinion beyond equality (then a mismatch is a violation).  Returns stats dict."""
    st = {"cases": len(cases), "steps": 0, "conform": 0, "drift": 0, "rejected": 0, "panics": 0, "known": 0}
    validated = 0
    for c, r in zip(cases, results):
        st["steps"] += len(c["acts"])
        if "panic" in r and r["panic"] is not None:
            st["panics"] += 1
            d = 0
        else:
            d = first_diff(c["acts"], r.get("obs", []), input_keys, ignore_obs_keys)
            if d is None:
                st["conform"] += 1
                continue
        # divergence from M: ask P
        verdict = None
        if p_validate is not None and validated < max_validate:
            verdict = p_validate(c, r)
            validated += 1
        if verdict is not None and verdict.get("accepted"):
            if verdict.get("kf"):
                st["known"] += 1
                for k in verdict["kf"]:
                    out.known_finding(k)
            else:
                st["drift"] += 1
                if st["drift"] <= 3:
                    out.notes.append("MODEL-DRIFT %s: case %s step %s expected %s observed %s" % (
                        what, c["id"], d, json.dumps(c["acts"][d]) if d is not None and d < len(c["acts"]) else None,
                        json.dumps(r.get("obs", [None] * (d + 1))[d]) if d is not None and d < len(r.get("obs", [])) else r.get("panic")))
            continue
        st["rejected"] += 1
        detail = (verdict or {}).get("detail", "")
        exp = c["acts"][d] if d is not None and d < len(c["acts"]) else None
        got = r.get("obs", [])[d] if d is not None and d < len(r.get("obs", [])) else None
        msg = "%s: case %s diverges at step %s: expected %s, real code gave %s%s %s" % (
            what, c["id"], d, json.dumps(exp), json.dumps(got),
            (" PANIC " + str(r.get("panic"))) if r.get("panic") else "", detail)
        out.violation(msg, {"component": what, "case": c, "observed": r})
    return st

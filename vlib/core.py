"""Shared machinery for the swim-rust TLA+ verification checks.

 * run_tlc            - run TLC on a module with a generated cfg, parse statistics, coverage,
                        EDGE / REPLAY lines printed by the specification
 * Graph              - the state graph dumped by an MC_* module (EDGE lines), with
                        transition-covering path generation
 * trace_validate     - run a Trace_* specification over an ndjson trace file
 * build_harness      - cargo build of one member of /verif/harness against /repo's working tree
 * Evidence / Outcome - evidence file + exit code / VIOLATION / KNOWN-FINDING protocol
"""
import json, os, re, shutil, subprocess, sys, time, hashlib, collections

ROOT = os.path.dirname(os.path.dirname(os.path.abspath(__file__)))
SPECS = os.path.join(ROOT, "specs")
WORK = os.environ.get("VERIF_WORK", os.path.join(ROOT, "work"))
HARNESS = os.path.join(ROOT, "harness")
REPLAYS = os.environ.get("VERIF_REPLAYS", os.path.join(ROOT, "replays"))
EVIDENCE = os.environ.get("VERIF_EVIDENCE", os.path.join(ROOT, "evidence"))
REPO = os.environ.get("VERIF_REPO", "/repo")
JAR = "/opt/veriftools/tla/tla2tools.jar:/opt/veriftools/tla/CommunityModules-deps.jar"


class ToolError(Exception):
    """Our own machinery failed (TLC crash, build failure, timeout): exit 2, never a VIOLATION."""


def log(*a):
    print(*a, flush=True)


def workdir(name, clean=True):
    d = os.path.join(WORK, name)
    if clean and os.path.isdir(d):
        shutil.rmtree(d, ignore_errors=True)
    os.makedirs(d, exist_ok=True)
    return d


def seed():
    try:
        return int(os.environ.get("VERIF_SEED", "1"))
    except ValueError:
        return 1


# ----------------------------------------------------------------------------- TLC

def _unescape_tla_string(s):
    out = []
    i = 0
    while i < len(s):
        c = s[i]
        if c == "\\" and i + 1 < len(s):
            n = s[i + 1]
            out.append({"n": "\n", "t": "\t", '"': '"', "\\": "\\"}.get(n, "\\" + n))
            i += 2
        else:
            out.append(c)
            i += 1
    return "".join(out)


_TAGGED = re.compile(r'^<<"([A-Z_]+)", "(.*)">>$')


class TlcResult:
    def __init__(self):
        self.generated = 0
        self.distinct = 0
        self.depth = 0
        self.ok = False
        self.status = "unknown"      # ok | invariant | deadlock | property | postcondition | error
        self.violated = None
        self.tagged = collections.defaultdict(list)   # tag -> [decoded json]
        self.coverage = {}           # action name -> (distinct, total)
        self.stdout = ""
        self.wall = 0.0
        self.cmd = ""
        self.counterexample = ""
        self.traces = 0


def run_tlc(module, cfg_text, wd, workers=4, timeout=900, deadlock=False, depth_first=False,
            simulate=None, extra=(), env=None, xmx="4g", coverage=True, spec_dirs=(SPECS,),
            keep_tagged_raw=False):
    """Run TLC on specs/<module>.tla with the given cfg text.  Returns TlcResult.
    Raises ToolError on crashes / parse errors / timeouts."""
    os.makedirs(wd, exist_ok=True)
    # TLC resolves EXTENDS relative to the directory of the root module: copy the specs next to the cfg.
    for d in spec_dirs:
        for f in os.listdir(d):
            if f.endswith(".tla"):
                shutil.copy(os.path.join(d, f), os.path.join(wd, f))
    cfg = os.path.join(wd, module + ".cfg")
    with open(cfg, "w") as fh:
        fh.write(cfg_text)
    jopts = ["-XX:+UseParallelGC", "-Xss1g", "-Xmx" + xmx]
    if depth_first:
        jopts.append("-Dtlc2.tool.queue.IStateQueue=StateDeque")
    cmd = ["java"] + jopts + ["-cp", JAR, "tlc2.TLC", "-workers", str(workers),
                              "-metadir", os.path.join(wd, "states"), "-cleanup", "-noGenerateSpecTE"]
    if not deadlock:
        cmd += ["-deadlock"]          # -deadlock DISABLES deadlock checking
    if coverage:
        cmd += ["-coverage", "1"]
    if simulate:
        cmd += ["-simulate", simulate]
    cmd += list(extra) + ["-config", module + ".cfg", module + ".tla"]
    e = dict(os.environ)
    e.pop("JAVA_TOOL_OPTIONS", None)
    if env:
        e.update(env)
    res = TlcResult()
    res.cmd = " ".join(cmd)
    t0 = time.time()
    try:
        p = subprocess.run(cmd, cwd=wd, env=e, stdout=subprocess.PIPE, stderr=subprocess.STDOUT,
                           timeout=timeout, text=True, errors="replace")
    except subprocess.TimeoutExpired:
        raise ToolError("TLC timed out after %ss: %s" % (timeout, module))
    res.wall = time.time() - t0
    out = p.stdout
    res.stdout = out
    with open(os.path.join(wd, module + ".out"), "w") as fh:
        fh.write(out)
    for line in out.splitlines():
        m = _TAGGED.match(line)
        if m:
            raw = _unescape_tla_string(m.group(2))
            try:
                res.tagged[m.group(1)].append(raw if keep_tagged_raw else json.loads(raw))
            except ValueError:
                res.tagged[m.group(1)].append(raw)
            continue
        m = re.match(r"^(\d+) states generated, (\d+) distinct states found", line)
        if m:
            res.generated, res.distinct = int(m.group(1)), int(m.group(2))
        m = re.match(r"^The number of states generated: (\d+)", line)
        if m and res.generated == 0:
            res.generated = int(m.group(1))          # simulation mode
        m = re.match(r"^Progress: \d+ states checked, (\d+) traces generated", line)
        if m:
            res.traces = int(m.group(1))
        m = re.match(r"^The depth of the complete state graph search is (\d+)", line)
        if m:
            res.depth = int(m.group(1))
        m = re.match(r"^<(\w+) line \d+, col \d+ to line \d+, col \d+ of module (\w+)>: (\d+):(\d+)", line)
        if m:
            res.coverage[m.group(1)] = (int(m.group(3)), int(m.group(4)))
        m = re.match(r"^Error: Invariant (\S+) is violated", line)
        if m:
            res.status, res.violated = "invariant", m.group(1)
        if line.startswith("Error: Action property") or line.startswith("Error: Temporal properties were violated"):
            res.status = "property"
            m2 = re.match(r"^Error: Action property (\S+)", line)
            res.violated = m2.group(1) if m2 else "temporal"
        if line.startswith("Error: Deadlock reached"):
            res.status = "deadlock"
        if "Error: Postcondition" in line or "postcondition" in line.lower() and "violated" in line.lower():
            res.status = "postcondition"
    if "Model checking completed. No error has been found." in out or \
       (simulate and p.returncode == 0):
        if res.status == "unknown":
            res.status = "ok"
    res.ok = res.status == "ok"
    if res.status == "unknown":
        # parse / semantic / evaluation error, or JVM trouble
        tail = "\n".join(out.splitlines()[-40:])
        raise ToolError("TLC failed on %s (exit %s):\n%s" % (module, p.returncode, tail))
    if res.status in ("invariant", "property", "deadlock"):
        i = out.find("Error:")
        res.counterexample = out[i:i + 20000]
    return res


def cfg(spec=None, init=None, next_=None, constants=None, invariants=(), properties=(), view=None,
        constraints=(), action_constraints=(), postcondition=None, symmetry=None, check_deadlock=False):
    lines = []
    if spec:
        lines.append("SPECIFICATION %s" % spec)
    else:
        lines.append("INIT %s" % (init or "Init"))
        lines.append("NEXT %s" % (next_ or "Next"))
    if constants:
        lines.append("CONSTANTS")
        for k, v in constants.items():
            lines.append("  %s = %s" % (k, tla_value(v)))
    for i in invariants:
        lines.append("INVARIANT %s" % i)
    for i in properties:
        lines.append("PROPERTY %s" % i)
    if view:
        lines.append("VIEW %s" % view)
    for c in constraints:
        lines.append("CONSTRAINT %s" % c)
    for c in action_constraints:
        lines.append("ACTION_CONSTRAINT %s" % c)
    if postcondition:
        lines.append("POSTCONDITION %s" % postcondition)
    if symmetry:
        lines.append("SYMMETRY %s" % symmetry)
    lines.append("CHECK_DEADLOCK %s" % ("TRUE" if check_deadlock else "FALSE"))
    return "\n".join(lines) + "\n"


class Raw(str):
    """A TLA+ expression to be put into a cfg verbatim (model values, sets)."""


def tla_value(v):
    if isinstance(v, Raw):
        return str(v)
    if isinstance(v, bool):
        return "TRUE" if v else "FALSE"
    if isinstance(v, int):
        return str(v)
    if isinstance(v, str):
        return '"%s"' % v
    if isinstance(v, (set, frozenset)):
        return "{" + ", ".join(tla_value(x) for x in sorted(v, key=str)) + "}"
    if isinstance(v, (list, tuple)):
        return "<<" + ", ".join(tla_value(x) for x in v) + ">>"
    raise TypeError(v)


# ----------------------------------------------------------------------------- state graph

def canon(x):
    return json.dumps(x, sort_keys=True, separators=(",", ":"))


class Graph:
    """State graph reconstructed from EDGE lines: nodes are canonical JSON of the VIEW."""

    def __init__(self, edges, init_views=None):
        self.succ = collections.defaultdict(list)      # s -> [(act, t)]
        self.nodes = set()
        seen = set()
        self.n_edges = 0
        for e in edges:
            s, t, a = canon(e["s"]), canon(e["t"]), e["a"]
            key = (s, canon(a), t)
            if key in seen:
                continue
            seen.add(key)
            self.succ[s].append((a, t))
            self.nodes.add(s)
            self.nodes.add(t)
            self.n_edges += 1
        targets = {t for s in self.succ for (_, t) in self.succ[s]}
        if init_views is not None:
            self.inits = [canon(v) for v in init_views]
        else:
            self.inits = sorted(self.nodes - targets) or sorted(self.nodes)[:1]

    def shortest_paths(self):
        """BFS tree: node -> list of actions reaching it from an initial state."""
        parent = {}
        order = []
        dq = collections.deque()
        for i in self.inits:
            parent[i] = None
            dq.append(i)
        while dq:
            s = dq.popleft()
            order.append(s)
            for (a, t) in self.succ.get(s, ()):
                if t not in parent:
                    parent[t] = (s, a)
                    dq.append(t)
        self.parent = parent
        return parent

    def path_to(self, node):
        acts = []
        while self.parent[node] is not None:
            s, a = self.parent[node]
            acts.append(a)
            node = s
        acts.reverse()
        return acts

    def covering_paths(self, extend=0, rng=None, limit=None):
        """A set of action sequences covering every edge of the graph at least once.
        Greedy: walk depth-first from the initial state along uncovered edges; when stuck, start a new
        path by the shortest route to a state that still has uncovered out-edges.  `extend` appends up
        to that many further (already covered) steps, chosen by rng, to look behind the last edge."""
        self.shortest_paths()
        uncovered = {s: list(range(len(self.succ[s]))) for s in self.succ if s in self.parent}
        remaining = sum(len(v) for v in uncovered.values())
        paths = []
        pending_nodes = [s for s in self.parent if uncovered.get(s)]
        # order by BFS depth so prefixes are short
        depth = {}
        for s in self.parent:
            d, n = 0, s
            while self.parent[n] is not None:
                n = self.parent[n][0]
                d += 1
            depth[s] = d
        pending_nodes.sort(key=lambda s: depth[s])
        idx = 0
        while remaining > 0:
            while idx < len(pending_nodes) and not uncovered.get(pending_nodes[idx]):
                idx += 1
            if idx >= len(pending_nodes):
                break
            start = pending_nodes[idx]
            acts = list(self.path_to(start))
            cur = start
            steps = 0
            while uncovered.get(cur) and steps < 64:
                i = uncovered[cur].pop()
                remaining -= 1
                a, t = self.succ[cur][i]
                acts.append(a)
                cur = t
                steps += 1
            for _ in range(extend):
                nxt = self.succ.get(cur)
                if not nxt:
                    break
                a, t = nxt[rng.randrange(len(nxt))] if rng else nxt[0]
                acts.append(a)
                cur = t
            paths.append(acts)
            if limit and len(paths) >= limit:
                break
        return paths

    def all_paths(self, depth, keep=None, limit=2000000):
        """every path of exactly `depth` steps (or shorter if it dead-ends) from the initial states along the
        edges whose action satisfies keep(action): exhaustive call sequences over a reduced alphabet, for
        behaviour that depends on history the model abstracts from (allocation state, internal buffers)"""
        out = []
        stack = [(i, []) for i in self.inits]
        while stack:
            cur, acts = stack.pop()
            if len(acts) == depth:
                out.append(acts)
                if len(out) >= limit:
                    break
                continue
            nxt = [(a, t) for (a, t) in self.succ.get(cur, ()) if keep is None or keep(a)]
            if not nxt:
                if acts:
                    out.append(acts)
                continue
            for a, t in nxt:
                stack.append((t, acts + [a]))
        return out

    def random_walks(self, n, depth, rng):
        out = []
        for _ in range(n):
            cur = self.inits[rng.randrange(len(self.inits))]
            acts = []
            for _ in range(depth):
                nxt = self.succ.get(cur)
                if not nxt:
                    break
                a, cur = nxt[rng.randrange(len(nxt))]
                acts.append(a)
            out.append(acts)
        return out


# ----------------------------------------------------------------------------- harness

_built = set()


COVERAGE = os.environ.get("VERIF_COVERAGE")     # developer aid (tools/coverage.sh): instrumented harness build in this directory


def cargo_env():
    e = dict(os.environ)
    e["CARGO_NET_OFFLINE"] = "true"
    e.pop("RUSTFLAGS", None)
    if COVERAGE:
        e["RUSTFLAGS"] = "--cfg swimos_verif --check-cfg cfg(swimos_verif) -C instrument-coverage"
    return e


def _relocate_harness():
    """VERIF_REPO=<scratch copy of the repository> (used only to try the checks against mutants
    without touching /repo): work on a copy of the harness whose path dependencies point there."""
    global HARNESS
    if (REPO == "/repo" and not COVERAGE) or getattr(_relocate_harness, "done", False):
        return
    dst = os.path.join(os.path.dirname(os.path.abspath(REPO)), "harness_for_" + os.path.basename(os.path.abspath(REPO)))
    if COVERAGE:
        dst = os.path.join(COVERAGE, "harness")
    src = os.path.join(ROOT, "harness")
    for base, dirs, files in os.walk(src):
        dirs[:] = [d for d in dirs if d != "target"]
        rel = os.path.relpath(base, src)
        os.makedirs(os.path.join(dst, rel), exist_ok=True)
        for f in files:
            if f == "Cargo.lock":
                continue
            sp, dp = os.path.join(base, f), os.path.join(dst, rel, f)
            data = open(sp, "rb").read()
            if f == "Cargo.toml":
                data = data.replace(b'"/repo/', ('"' + os.path.abspath(REPO) + '/').encode())
            if not os.path.exists(dp) or open(dp, "rb").read() != data:
                open(dp, "wb").write(data)
    HARNESS = dst
    _relocate_harness.done = True


def ensure_lockfile():
    _relocate_harness()
    src = os.path.join(REPO, "Cargo.lock")
    dst = os.path.join(HARNESS, "Cargo.lock")
    if not os.path.exists(dst):
        shutil.copy(src, dst)


def build_harness(member, bin=None, timeout=3600):
    """cargo build -p <member> [--bin <bin>] in /verif/harness (path deps on /repo => always the current tree)."""
    key = (member, bin)
    if key in _built or (member, None) in _built:
        return
    ensure_lockfile()
    t0 = time.time()
    cmd = ["cargo"] + (["+nightly"] if COVERAGE else []) + ["build", "--offline", "-p", member] + (["--bin", bin] if bin else [])
    p = subprocess.run(cmd, cwd=HARNESS, env=cargo_env(),
                       stdout=subprocess.PIPE, stderr=subprocess.STDOUT, text=True, timeout=timeout)
    if p.returncode != 0:
        raise ToolError("cargo build -p %s failed:\n%s" % (member, "\n".join(p.stdout.splitlines()[-60:])))
    log("[build] %s %s ok in %.1fs" % (member, bin or "", time.time() - t0))
    _built.add(key)


def coverage_env(e, component):
    """developer aid: direct the profile of an instrumented harness binary (VERIF_COVERAGE) to the profile directory"""
    if COVERAGE:
        e["LLVM_PROFILE_FILE"] = os.path.join(os.environ.get("VERIF_COVERAGE_PROF", os.path.join(COVERAGE, "prof")), component + "-%p-%8m.profraw")
    return e


def harness_bin(component):
    return os.path.join(HARNESS, "target", "debug", component)


def run_harness(member, args, stdin_path=None, stdout_path=None, timeout=3600, env=None):
    """args[0] is the component = the binary name (harness/<member>/src/bin/<component>.rs)."""
    build_harness(member, args[0])
    e = dict(os.environ)
    e.setdefault("RUST_BACKTRACE", "0")
    if COVERAGE:
        e["LLVM_PROFILE_FILE"] = os.path.join(os.environ.get("VERIF_COVERAGE_PROF", os.path.join(COVERAGE, "prof")), args[0] + "-%p-%8m.profraw")
    if env:
        e.update(env)
    fin = open(stdin_path) if stdin_path else subprocess.DEVNULL
    fout = open(stdout_path, "w") if stdout_path else subprocess.PIPE
    try:
        p = subprocess.run([harness_bin(args[0])] + list(args[1:]), stdin=fin, stdout=fout,
                           stderr=subprocess.PIPE, text=True, timeout=timeout, env=e)
    except subprocess.TimeoutExpired:
        raise ToolError("harness %s %s timed out" % (member, args))
    finally:
        if stdin_path:
            fin.close()
        if stdout_path:
            fout.close()
    if p.returncode != 0:
        raise ToolError("harness %s %s exited %s:\n%s" % (member, args, p.returncode, p.stderr[-4000:]))
    return p.stdout if not stdout_path else None


def write_ndjson(path, items):
    with open(path, "w") as fh:
        for it in items:
            fh.write(json.dumps(it, separators=(",", ":")) + "\n")


def read_ndjson(path):
    out = []
    with open(path) as fh:
        for line in fh:
            line = line.strip()
            if line:
                out.append(json.loads(line))
    return out


# ----------------------------------------------------------------------------- trace validation

def trace_validate(module, trace_events, wd, constants=None, timeout=600, extra_cfg="", spec="TraceSpec",
                   invariants=(), xmx="2g"):
    """Validate one ndjson trace (list of event dicts) with specs/<module>.tla.
    The module must define TraceSpec, TraceAccepted (POSTCONDITION) and print
    <<"TRACE_RESULT", ToJson([accepted |-> .., matched |-> .., total |-> .., kf |-> ..])>>.
    Returns dict(accepted, matched, total, kf, raw)."""
    os.makedirs(wd, exist_ok=True)
    tp = os.path.join(wd, "trace.ndjson")
    write_ndjson(tp, trace_events)
    c = cfg(spec=spec, constants=constants, invariants=invariants, postcondition="TraceAccepted")
    c += extra_cfg
    try:
        r = run_tlc(module, c, wd, workers=1, timeout=timeout, depth_first=True, env={"TRACE": tp},
                    xmx=xmx, coverage=False)
    except ToolError as ex:
        # POSTCONDITION failure makes TLC exit non-zero with no "Invariant" line: look at the output
        out = open(os.path.join(wd, module + ".out")).read() if os.path.exists(os.path.join(wd, module + ".out")) else ""
        m = [l for l in out.splitlines() if l.startswith('<<"TRACE_RESULT"')]
        if not m:
            raise
        raw = json.loads(_unescape_tla_string(_TAGGED.match(m[-1]).group(2)))
        raw["status"] = "postcondition"
        return raw
    if r.status == "invariant":
        return {"accepted": False, "matched": -1, "total": len(trace_events), "kf": [],
                "status": "invariant:" + str(r.violated), "counterexample": r.counterexample}
    res = r.tagged.get("TRACE_RESULT")
    if not res:
        raise ToolError("trace spec %s printed no TRACE_RESULT\n%s" % (module, r.stdout[-3000:]))
    out = res[-1]
    out["status"] = r.status
    out["states"] = r.distinct
    out["generated"] = r.generated
    return out


# ----------------------------------------------------------------------------- findings, evidence, outcome

def known_findings():
    """All entries of /verif/known_findings/*.json (committed; never written at run time).
    Entry: {"id", "property" ("C01" or "C01,C03"), "status": "open"|"fixed", "commit"?, "signature", "what"}"""
    d = os.path.join(ROOT, "known_findings")
    out = []
    if os.path.isdir(d):
        for f in sorted(os.listdir(d)):
            if f.endswith(".json"):
                out += json.load(open(os.path.join(d, f)))["findings"]
    return out


def open_findings(prop):
    return [f for f in known_findings() if prop in f["property"].split(",") and f["status"] == "open"]


class Outcome:
    """Collects what a check saw; writes the evidence file; turns it into the exit protocol."""

    def __init__(self, prop, level, tier):
        self.prop, self.level, self.tier = prop, level, tier
        self.t0 = time.time()
        self.violations = []        # (what, replay_path)
        self.known = []             # strings
        self.cov = {"samples": []}
        self.assumptions = []
        self.notes = []

    def violation(self, what, replay_obj):
        os.makedirs(os.path.join(REPLAYS, self.prop), exist_ok=True)
        h = hashlib.sha1(canon(replay_obj).encode()).hexdigest()[:12]
        path = os.path.join(REPLAYS, self.prop, "%s.json" % h)
        with open(path, "w") as fh:
            json.dump({"property": self.prop, "what": what, "replay": replay_obj}, fh, indent=1)
        self.violations.append((what, path))
        return path

    def known_finding(self, text):
        if text not in self.known:
            self.known.append(text)

    def sample(self, s, cap=6):
        if len(self.cov["samples"]) < cap:
            self.cov["samples"].append(s)

    def add(self, **kw):
        for k, v in kw.items():
            if isinstance(v, int) and not isinstance(v, bool) and isinstance(self.cov.get(k), int):
                self.cov[k] += v
            else:
                self.cov[k] = v

    def finish(self):
        os.makedirs(EVIDENCE, exist_ok=True)
        ev = {
            "property_id": self.prop, "tier": self.tier, "seed": seed(), "level": self.level,
            "coverage": self.cov, "assumptions": self.assumptions,
            "wall_s": round(time.time() - self.t0, 2), "violations": len(self.violations),
        }
        if self.known:
            ev["coverage"]["known_findings_hit"] = self.known
        if self.notes:
            ev["coverage"]["notes"] = self.notes
        if not ev["coverage"]["samples"]:
            ev["coverage"]["samples"] = ["(none)"]
        with open(os.path.join(EVIDENCE, "%s.json" % self.prop), "w") as fh:
            json.dump(ev, fh, indent=1, sort_keys=True)
        for k in self.known:
            log("KNOWN-FINDING: property=%s %s" % (self.prop, k))
        for what, path in self.violations[:20]:
            log("VIOLATION property=%s replay=%s" % (self.prop, path))
            log("   " + what[:400])
        if self.violations:
            return 1
        log("OK property=%s tier=%s wall=%.1fs" % (self.prop, self.tier, time.time() - self.t0))
        return 0

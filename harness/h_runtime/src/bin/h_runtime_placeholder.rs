fn main() {}

//! Replays call sequences generated from specs/CommandOutput.tla on the real `CommandOutput`
//! (runtime/swimos_runtime/src/agent/task/external_links/mod.rs) through the cfg-gated facade
//! `swimos_runtime::verif_hooks::CommandOutputHarness`.
//!
//! The write future returned by `write()` performs the real `write_all` into a real byte channel of
//! a small capacity; it is polled by hand (no runtime), the bytes are read from the other end
//! and decoded with `RawRequestMessageDecoder`.  A command <<t, n>> of the model is concretised to a
//! (node, lane) pair and a body from boundary pools; a decoded frame is mapped back to [t, n] only
//! if origin, node, lane and every byte of the body are exactly what was appended.
use bytes::BytesMut;
use h_common::count_waker;
use serde_json::{json, Value};
use std::num::NonZeroUsize;
use std::pin::Pin;
use std::task::{Context, Poll};
use swimos_messages::protocol::{Operation, RawRequestMessageDecoder};
use swimos_runtime::verif_hooks::{CommandOutputHarness, CommandWrite, CommandWriter};
use swimos_utilities::byte_channel::{byte_channel, ByteReader, ByteWriter};
use tokio::io::{AsyncRead, ReadBuf};
use tokio_util::codec::Decoder;
use uuid::Uuid;

const MAX_T: u64 = 8;
const NAMES: [(&str, &str); 4] = [
    ("/n", "l"),
    ("/n", "m"),
    ("/a/much/longer/node/uri/with/several/segments/0123456789", "lane_with_a_longer_name"),
    ("/\u{fc}n\u{ef}c\u{f8}de/\u{4e16}\u{754c}", "\u{3bb}"),
];
const BODY_LENS: [usize; 8] = [0, 0, 1, 2, 13, 64, 257, 1500];

fn mix(mut x: u64) -> u64 {
    x = x.wrapping_add(0x9E3779B97F4A7C15);
    x = (x ^ (x >> 30)).wrapping_mul(0xBF58476D1CE4E5B9);
    x = (x ^ (x >> 27)).wrapping_mul(0x94D049BB133111EB);
    x ^ (x >> 31)
}

fn target_names(t: u64, seed: u64) -> (String, String) {
    let (n, l) = NAMES[((t + seed) % NAMES.len() as u64) as usize];
    if t as usize <= NAMES.len() {
        (n.to_string(), l.to_string())
    } else {
        (format!("{}{}", n, t), l.to_string())
    }
}

fn body(t: u64, n: u64, seed: u64) -> Vec<u8> {
    let h = mix(seed ^ mix(t * 1000 + n));
    let len = BODY_LENS[(h % BODY_LENS.len() as u64) as usize];
    let mut b = format!("{}:{}:", t, n).into_bytes();
    let mut x = h;
    for _ in 0..len {
        x = mix(x);
        b.push((x >> 17) as u8);
    }
    b
}

struct Ctx {
    identity: Uuid,
    seed: u64,
    out: CommandOutputHarness,
    tx: Option<ByteWriter>,
    rx: ByteReader,
    fut: Option<CommandWrite>,
    returned: Option<CommandWriter>,
    acc: BytesMut,
}

impl Ctx {
    /// Read everything that is in the channel right now.
    fn drain(&mut self) -> usize {
        let (c, w) = count_waker();
        let mut cx = Context::from_waker(&w);
        let mut total = 0;
        let mut store = [0u8; 4096];
        loop {
            let mut buf = ReadBuf::new(&mut store);
            let woken = c.get();
            match Pin::new(&mut self.rx).poll_read(&mut cx, &mut buf) {
                Poll::Ready(Ok(())) => {
                    let got = buf.filled();
                    if got.is_empty() {
                        break;
                    }
                    total += got.len();
                    self.acc.extend_from_slice(got);
                }
                Poll::Ready(Err(_)) => break,
                Poll::Pending => {
                    // Pending with our own waker woken during the call is a cooperative yield of
                    // the byte channel (coop budget), not an empty channel: poll again.
                    if c.get() > woken {
                        continue;
                    }
                    break;
                }
            }
        }
        total
    }

    /// Decode the frames accumulated so far.
    fn frames(&mut self) -> (Vec<Value>, usize) {
        let mut dec = RawRequestMessageDecoder;
        let mut out = vec![];
        loop {
            match dec.decode(&mut self.acc) {
                Ok(Some(msg)) => {
                    let node = msg.path.node.as_str().to_string();
                    let lane = msg.path.lane.as_str().to_string();
                    let t = (1..=MAX_T).find(|t| target_names(*t, self.seed) == (node.clone(), lane.clone()));
                    let v = match (t, &msg.envelope) {
                        (Some(t), Operation::Command(b)) => {
                            let s = String::from_utf8_lossy(&b[..b.len().min(24)]).to_string();
                            let mut it = s.split(':');
                            let bt = it.next().and_then(|x| x.parse::<u64>().ok());
                            let bn = it.next().and_then(|x| x.parse::<u64>().ok());
                            match (bt, bn) {
                                (Some(bt), Some(bn)) if bt == t && b.as_ref() == body(t, bn, self.seed).as_slice() => {
                                    if msg.origin == self.identity {
                                        json!([t, bn])
                                    } else {
                                        json!([t, bn, "wrong origin"])
                                    }
                                }
                                _ => json!([t, 0, "body is not the body of a command appended for this target"]),
                            }
                        }
                        (Some(t), _) => json!([t, 0, "not a command envelope"]),
                        (None, _) => json!([0, 0, format!("unknown target {} {}", node, lane)]),
                    };
                    out.push(v);
                }
                Ok(None) => break,
                Err(e) => {
                    out.push(json!([0, 0, format!("decode error: {}", e)]));
                    self.acc.clear();
                    break;
                }
            }
        }
        let trail = self.acc.len();
        (out, trail)
    }

    /// One poll of the write future; true if it yielded cooperatively (Pending + self wake).
    fn poll_once(&mut self) -> bool {
        if let Some(f) = self.fut.as_mut() {
            let (c, w) = count_waker();
            let mut cx = Context::from_waker(&w);
            match f.as_mut().poll(&mut cx) {
                Poll::Ready(r) => {
                    self.fut = None;
                    match r {
                        Ok(w) => self.returned = Some(w),
                        Err(e) => panic!("the write to an open channel failed: {}", e),
                    }
                    false
                }
                Poll::Pending => c.get() > 0,
            }
        } else {
            false
        }
    }

    fn in_flight(&self) -> bool {
        self.fut.is_some() || self.returned.is_some()
    }

    /// Drive the write future to completion, reading from the channel as the target would.
    fn finish(&mut self) -> Option<CommandWriter> {
        let mut stalls = 0;
        let mut rounds = 0u64;
        while self.returned.is_none() {
            self.fut.as_ref()?;
            let yielded = self.poll_once();
            if self.returned.is_some() {
                break;
            }
            let n = self.drain();
            if yielded {
                stalls = 0;
            } else if n == 0 {
                stalls += 1;
                if stalls > 3 {
                    panic!("the write future stays pending although the channel is empty");
                }
            } else {
                stalls = 0;
            }
            rounds += 1;
            if rounds > 10_000_000 {
                panic!("the write future does not complete");
            }
        }
        self.drain();
        self.returned.take()
    }

    fn do_write(&mut self, o: &mut Value) {
        match self.out.write() {
            Some(f) => {
                if self.in_flight() {
                    panic!("write() returned a second future while one is in flight");
                }
                self.fut = Some(f);
                o["w"] = json!(true);
            }
            None => {
                o["w"] = json!(false);
            }
        }
    }
}

pub fn run_case(case: &Value) -> Value {
    let cap = case["cfg"]["cap"].as_u64().unwrap_or(64) as usize;
    let seed = case["cfg"]["seed"].as_u64().unwrap_or(0);
    let acts = case["acts"].as_array().unwrap();
    let identity = Uuid::from_u128(0x5eed_0000_0000_0000_0000_0000_0000_0000u128 + seed as u128);
    let (tx, rx) = byte_channel(NonZeroUsize::new(cap).unwrap());
    let mut c = Ctx {
        identity,
        seed,
        out: CommandOutputHarness::new(identity),
        tx: Some(tx),
        rx,
        fut: None,
        returned: None,
        acc: BytesMut::new(),
    };
    let mut obs: Vec<Value> = Vec::with_capacity(acts.len());
    for a in acts {
        let k = a["k"].as_str().unwrap();
        let wr = a["wr"].as_bool().unwrap_or(false);
        let mut o = json!({});
        match k {
            "connect" => {
                let tx = c.tx.take().expect("connect twice");
                c.out.set_channel(tx);
                if wr {
                    c.do_write(&mut o);
                }
            }
            "append" => {
                let t = a["t"].as_u64().unwrap();
                let n = a["n"].as_u64().unwrap();
                let ow = a["ow"].as_bool().unwrap();
                let (node, lane) = target_names(t, seed);
                c.out.append(&node, &lane, &body(t, n, seed), ow);
                if wr {
                    c.do_write(&mut o);
                }
            }
            "write" => c.do_write(&mut o),
            "poll" => {
                c.poll_once();
            }
            "complete" => {
                if !c.in_flight() {
                    o["err"] = json!("no write in flight");
                } else {
                    let w = c.finish().expect("writer");
                    let (fr, trail) = c.frames();
                    o["fr"] = json!(fr);
                    if trail > 0 {
                        o["trail"] = json!(trail);
                    }
                    c.out.replace_writer(w);
                    if wr {
                        c.do_write(&mut o);
                    }
                }
            }
            other => panic!("bad action {}", other),
        }
        o["hw"] = json!(c.out.has_writer());
        obs.push(o);
    }
    // Epilogue (P only, law L4): establish the channel, let every write complete, call write() until
    // it has nothing to do.
    let mut end_frames: Vec<Value> = vec![];
    let mut idle = false;
    if let Some(tx) = c.tx.take() {
        c.out.set_channel(tx);
    }
    for _ in 0..64 {
        if c.in_flight() {
            let w = c.finish().expect("writer");
            c.out.replace_writer(w);
        }
        let mut o = json!({});
        c.do_write(&mut o);
        if o["w"] == json!(false) {
            idle = c.out.has_writer() && !c.in_flight();
            break;
        }
    }
    c.drain();
    let (fr, trail) = c.frames();
    end_frames.extend(fr);
    let mut end = json!({"fr": end_frames, "idle": idle});
    if trail > 0 {
        end["trail"] = json!(trail);
    }
    json!({ "obs": obs, "end": end })
}

// ------------------------------------------------------------------------------------------------
// Supply lanes: `Uplinks` for one remote (supply branch of replace_and_pop, SupplyBackpressure),
// driven from specs/SupplyUplink.tla.

mod supply {
    use super::{body, mix};
    use bytes::{Bytes, BytesMut};
    use h_common::count_waker;
    use serde_json::{json, Value};
    use std::future::Future;
    use std::num::NonZeroUsize;
    use std::pin::Pin;
    use std::task::{Context, Poll};
    use swimos_api::agent::UplinkKind;
    use swimos_messages::protocol::{Notification, RawResponseMessageDecoder};
    use swimos_model::Text;
    use swimos_runtime::verif_hooks::{
        DisconnectionReason, LaneRegistry, SpecialAction, UplinkResponse, Uplinks, WriteResult, WriteTask,
    };
    use swimos_utilities::byte_channel::{byte_channel, ByteReader};
    use swimos_utilities::trigger::promise;
    use tokio::io::{AsyncRead, ReadBuf};
    use tokio_util::codec::Decoder;
    use uuid::Uuid;

    const LANES: [&str; 4] = ["s", "supply_lane_with_a_much_longer_name_0123456789", "\u{3bb}\u{4e16}", "v"];
    const NODE: &str = "/agent/node";

    fn lane_name(l: u64, seed: u64) -> String {
        let base = LANES[((l + seed) % LANES.len() as u64) as usize];
        if (l as usize) <= LANES.len() {
            base.to_string()
        } else {
            format!("{}{}", base, l)
        }
    }

    type Fut = Pin<Box<dyn Future<Output = WriteResult>>>;

    struct Ctx {
        identity: Uuid,
        seed: u64,
        nl: u64,
        uplinks: Uplinks,
        registry: LaneRegistry,
        ids: Vec<u64>,
        rx: ByteReader,
        fut: Option<Fut>,
        acc: BytesMut,
    }

    impl Ctx {
        fn drain(&mut self) -> usize {
            let (c, w) = count_waker();
            let mut cx = Context::from_waker(&w);
            let mut total = 0;
            let mut store = [0u8; 4096];
            loop {
                let mut buf = ReadBuf::new(&mut store);
                let woken = c.get();
                match Pin::new(&mut self.rx).poll_read(&mut cx, &mut buf) {
                    Poll::Ready(Ok(())) => {
                        let got = buf.filled();
                        if got.is_empty() {
                            break;
                        }
                        total += got.len();
                        self.acc.extend_from_slice(got);
                    }
                    Poll::Ready(Err(_)) => break,
                    Poll::Pending => {
                        if c.get() > woken {
                            continue; // cooperative yield of the byte channel
                        }
                        break;
                    }
                }
            }
            total
        }

        fn frames(&mut self) -> (Vec<Value>, usize) {
            let mut dec = RawResponseMessageDecoder;
            let mut out = vec![];
            loop {
                match dec.decode(&mut self.acc) {
                    Ok(Some(msg)) => {
                        let lane = msg.path.lane.as_str().to_string();
                        let l = (1..=self.nl).find(|l| lane_name(*l, self.seed) == lane);
                        let env_ok = msg.origin == self.identity && msg.path.node.as_str() == NODE;
                        let v = match (l, &msg.envelope) {
                            (None, _) => json!(["?", 0, 0, format!("unknown lane {}", lane)]),
                            (Some(l), _) if !env_ok => json!(["?", l, 0, "wrong origin or node"]),
                            (Some(l), Notification::Linked) => json!(["l", l, 0]),
                            (Some(l), Notification::Synced) => json!(["s", l, 0]),
                            (Some(l), Notification::Unlinked(_)) => json!(["u", l, 0]),
                            (Some(l), Notification::Event(b)) => {
                                let s = String::from_utf8_lossy(&b[..b.len().min(24)]).to_string();
                                let mut it = s.split(':');
                                let bl = it.next().and_then(|x| x.parse::<u64>().ok());
                                let bn = it.next().and_then(|x| x.parse::<u64>().ok());
                                match (bl, bn) {
                                    (Some(bl), Some(bn)) if bl == l && b.as_ref() == body(l, bn, self.seed).as_slice() => {
                                        json!(["e", l, bn])
                                    }
                                    _ => json!(["e", l, 0, "body is not the body of an item pushed to this lane"]),
                                }
                            }
                        };
                        out.push(v);
                    }
                    Ok(None) => break,
                    Err(e) => {
                        out.push(json!(["?", 0, 0, format!("decode error: {}", e)]));
                        self.acc.clear();
                        break;
                    }
                }
            }
            (out, self.acc.len())
        }

        /// Drive the write task in flight to completion, reading as the remote would.
        fn finish(&mut self) -> WriteResult {
            let mut fut = self.fut.take().expect("no write in flight");
            let mut stalls = 0;
            let mut rounds = 0u64;
            let res = loop {
                let (c, w) = count_waker();
                let mut cx = Context::from_waker(&w);
                match fut.as_mut().poll(&mut cx) {
                    Poll::Ready(r) => break r,
                    Poll::Pending => {
                        let n = self.drain();
                        if c.get() > 0 {
                            stalls = 0;
                        } else if n == 0 {
                            stalls += 1;
                            if stalls > 3 {
                                panic!("the write task stays pending although the channel is empty");
                            }
                        } else {
                            stalls = 0;
                        }
                    }
                }
                rounds += 1;
                if rounds > 10_000_000 {
                    panic!("the write task does not complete");
                }
            };
            self.drain();
            res
        }

        fn started(&mut self, t: Option<WriteTask>, o: &mut Value) {
            match t {
                Some(t) => {
                    if self.fut.is_some() {
                        panic!("a second write task was returned while one is in flight");
                    }
                    self.fut = Some(Box::pin(t.into_future()));
                    o["some"] = json!(true);
                }
                None => o["some"] = json!(false),
            }
        }

        fn complete(&mut self, o: &mut Value) {
            let (sender, buffer, result) = self.finish();
            if let Err(e) = result {
                panic!("the write to an open channel failed: {}", e);
            }
            let (fr, trail) = self.frames();
            o["fr"] = json!(fr);
            if trail > 0 {
                o["trail"] = json!(trail);
            }
            let next = self.uplinks.replace_and_pop(sender, buffer, &self.registry);
            self.started(next, o);
        }
    }

    pub fn run_case(case: &Value) -> Value {
        let cap = case["cfg"]["cap"].as_u64().unwrap_or(64) as usize;
        let seed = case["cfg"]["seed"].as_u64().unwrap_or(0);
        let ns = case["cfg"]["ns"].as_u64().unwrap_or(2);
        let acts = case["acts"].as_array().unwrap();
        let identity = Uuid::from_u128(0x5eed_0000_0000_0000_0000_0000_0000_0001u128 + seed as u128);
        let remote_id = Uuid::from_u128(0x0e307e00u128 + mix(seed) as u128);
        let (tx, rx) = byte_channel(NonZeroUsize::new(cap).unwrap());
        let (ptx, _prx) = promise::promise::<DisconnectionReason>();
        let mut registry = LaneRegistry::default();
        let nl = ns + 1;
        let mut ids = vec![0u64; (nl + 1) as usize];
        for l in 1..=nl {
            ids[l as usize] = registry.add_endpoint(Text::new(&lane_name(l, seed)));
        }
        let mut c = Ctx {
            identity,
            seed,
            nl,
            uplinks: Uplinks::new(Text::new(NODE), identity, remote_id, tx, ptx),
            registry,
            ids,
            rx,
            fut: None,
            acc: BytesMut::new(),
        };
        let mut obs: Vec<Value> = Vec::with_capacity(acts.len());
        for a in acts {
            let k = a["k"].as_str().unwrap();
            let l = a["l"].as_u64().unwrap_or(0);
            let n = a["n"].as_u64().unwrap_or(0);
            let id = c.ids.get(l as usize).copied().unwrap_or(0);
            let mut o = json!({});
            match k {
                "supply" => {
                    let ev = UplinkResponse::Supply(Bytes::from(body(l, n, seed)));
                    let t = c.uplinks.push(id, ev, &c.registry).expect("valid");
                    c.started(t, &mut o);
                }
                "value" => {
                    let ev = UplinkResponse::Value(Bytes::from(body(l, n, seed)));
                    let t = c.uplinks.push(id, ev, &c.registry).expect("valid");
                    c.started(t, &mut o);
                }
                "synced" => {
                    let t = c
                        .uplinks
                        .push(id, UplinkResponse::Synced(UplinkKind::Supply), &c.registry)
                        .expect("valid");
                    c.started(t, &mut o);
                }
                "linked" => {
                    let t = c.uplinks.push_special(SpecialAction::Linked(id), &c.registry);
                    c.started(t, &mut o);
                }
                "unlinked" => {
                    let t = c
                        .uplinks
                        .push_special(SpecialAction::unlinked(id, Text::new("gone")), &c.registry);
                    c.started(t, &mut o);
                }
                "complete" => {
                    if c.fut.is_none() {
                        o["err"] = json!("no write in flight");
                    } else {
                        c.complete(&mut o);
                    }
                }
                other => panic!("bad action {}", other),
            }
            obs.push(o);
        }
        // Epilogue (P only, law L4): let every write complete.
        let mut end_frames: Vec<Value> = vec![];
        let mut trail = 0;
        for _ in 0..4096 {
            if c.fut.is_none() {
                break;
            }
            let mut o = json!({});
            c.complete(&mut o);
            end_frames.extend(o["fr"].as_array().cloned().unwrap_or_default());
            trail = o["trail"].as_u64().unwrap_or(0);
        }
        let mut end = json!({"fr": end_frames, "idle": c.fut.is_none()});
        if trail > 0 {
            end["trail"] = json!(trail);
        }
        json!({ "obs": obs, "end": end })
    }
}

fn main() {
    let args: Vec<String> = std::env::args().collect();
    if args.get(1).map(|s| s.as_str()) == Some("supply") {
        h_common::drive(supply::run_case);
    } else {
        h_common::drive(run_case);
    }
}

//! C06: interprets handler programs generated from specs/Handlers.tla into real boxed event handlers
//! inside a generic lifecycle (built with the real `#[lifecycle]` / `#[derive(AgentLaneModel)]`
//! machinery) and runs them on a real `AgentModel` (configuration A: real agent, the harness plays
//! the runtime through a fake `AgentContext` with byte channels for the lanes; public API only).
//!
//! case   = {"id", "cfg": {"prog": {slot: {"c": style, "ops": [leaf]}}, "m0": [v1, v2], "buf": n,
//!           "drain": bool, "batch": bool}, "acts": [{"k", "l", "x", "y"}]}
//! result = {"obs": [{"ev": [[tag, values..]], "fin": "run|ok|err|init_err|panic"}]}
//!
//! Every lifecycle method logs its own entry line (tag + the arguments the framework passed) through a
//! `context.effect` closure that runs when the handler *runs*, then executes the body of its slot.
use bytes::BytesMut;
use futures::future::{ready, BoxFuture};
use futures::{FutureExt, SinkExt, StreamExt};
use h_common::drive;
use parking_lot::Mutex;
use serde_json::{json, Value};
use std::collections::HashMap;
use std::num::NonZeroUsize;
use std::panic::AssertUnwindSafe;
use std::sync::Arc;
use std::time::Duration;
use swimos::agent::agent_lifecycle::HandlerContext;
use swimos::agent::agent_model::AgentModel;
use swimos::agent::event_handler::{
    join, BoxEventHandler, EventHandler, EventHandlerError, HandlerActionExt, Sequentially, UnitHandler,
};
use swimos::agent::lanes::{CommandLane, MapLane, ValueLane};
use swimos::agent::{lifecycle, projections, AgentLaneModel};
use swimos_agent_protocol::encoding::lane::{MapLaneRequestEncoder, ValueLaneRequestEncoder};
use swimos_agent_protocol::encoding::store::{
    RawMapStoreInitEncoder, RawValueStoreInitEncoder, StoreInitializedCodec,
};
use swimos_agent_protocol::{LaneRequest, MapMessage, StoreInitMessage};
use swimos_api::agent::{
    Agent, AgentConfig, AgentContext, DownlinkKind, HttpLaneRequestChannel, LaneConfig, StoreKind,
    WarpLaneKind,
};
use swimos_api::error::{AgentRuntimeError, DownlinkRuntimeError, OpenStoreError};
use swimos_utilities::byte_channel::{byte_channel, ByteReader, ByteWriter};
use swimos_utilities::routing::RouteUri;
use tokio::io::AsyncReadExt;
use tokio::sync::oneshot;
use tokio_util::codec::{FramedRead, FramedWrite};
use uuid::Uuid;

const A0: i32 = 10;
const B0: i32 = 20;
const EVENT_BUDGET: usize = 20_000;

#[projections]
#[derive(AgentLaneModel)]
pub struct HAgent {
    a: ValueLane<i32>,
    b: ValueLane<i32>,
    c: CommandLane<i32>,
    m: MapLane<i32, i32>,
}

type H = BoxEventHandler<'static, HAgent>;

#[derive(Debug)]
struct HErr;
impl std::fmt::Display for HErr {
    fn fmt(&self, f: &mut std::fmt::Formatter<'_>) -> std::fmt::Result {
        write!(f, "generated failure")
    }
}
impl std::error::Error for HErr {}

#[derive(Clone, Debug)]
struct Leaf {
    op: String,
    l: String,
    x: i32,
    y: i32,
    p: Arc<Vec<Leaf>>,
}

#[derive(Clone, Debug)]
struct Body {
    c: String,
    ops: Arc<Vec<Leaf>>,
}

fn parse_leaves(v: &Value) -> Arc<Vec<Leaf>> {
    Arc::new(
        v.as_array()
            .map(|a| {
                a.iter()
                    .map(|o| Leaf {
                        op: o["op"].as_str().unwrap_or("").to_string(),
                        l: o["l"].as_str().unwrap_or("").to_string(),
                        x: o["x"].as_i64().unwrap_or(0) as i32,
                        y: o["y"].as_i64().unwrap_or(0) as i32,
                        p: parse_leaves(&o["p"]),
                    })
                    .collect()
            })
            .unwrap_or_default(),
    )
}

/// The interpreter shared by every lifecycle method of one agent instance.
#[derive(Clone)]
struct Interp {
    prog: Arc<HashMap<String, Body>>,
    log: Arc<Mutex<Vec<Value>>>,
    susp: Arc<Mutex<Vec<oneshot::Sender<()>>>>,
}

fn pairs(map: &HashMap<i32, i32>) -> Value {
    let mut v: Vec<(i32, i32)> = map.iter().map(|(k, v)| (*k, *v)).collect();
    v.sort();
    json!(v.into_iter().map(|(k, v)| json!([k, v])).collect::<Vec<_>>())
}

fn opt(v: Option<i32>) -> i32 {
    v.unwrap_or(-1)
}

impl Interp {
    fn push(&self, e: Value) {
        let mut g = self.log.lock();
        if g.len() > EVENT_BUDGET {
            drop(g);
            panic!("event budget exceeded (handlers do not terminate)");
        }
        g.push(e);
    }

    fn logger(&self, e: Value) -> H {
        let me = self.clone();
        HandlerContext::<HAgent>::default()
            .effect(move || me.push(e))
            .boxed()
    }

    /// One leaf of a program as a real handler.
    fn leaf(&self, slot: &str, leaf: &Leaf) -> H {
        let ctx: HandlerContext<HAgent> = HandlerContext::default();
        let me = self.clone();
        match leaf.op.as_str() {
            "eff" => self.logger(json!(["eff", slot, leaf.x])),
            "get" => {
                let l = leaf.l.clone();
                let proj = if l == "a" { HAgent::A } else { HAgent::B };
                ctx.get_value(proj)
                    .and_then(move |v: i32| {
                        HandlerContext::<HAgent>::default().effect(move || me.push(json!(["get", l, v])))
                    })
                    .boxed()
            }
            "snap" => ctx
                .get_value(HAgent::A)
                .and_then(move |a: i32| {
                    let ctx: HandlerContext<HAgent> = HandlerContext::default();
                    ctx.get_value(HAgent::B).and_then(move |b: i32| {
                        let ctx: HandlerContext<HAgent> = HandlerContext::default();
                        ctx.get_map(HAgent::M).and_then(move |m: HashMap<i32, i32>| {
                            HandlerContext::<HAgent>::default()
                                .effect(move || me.push(json!(["snap", a, b, pairs(&m)])))
                        })
                    })
                })
                .boxed(),
            "set" => {
                let proj = if leaf.l == "a" { HAgent::A } else { HAgent::B };
                ctx.set_value(proj, leaf.x).boxed()
            }
            "upd" => ctx.update(HAgent::M, leaf.x, leaf.y).boxed(),
            "rem" => ctx.remove(HAgent::M, leaf.x).boxed(),
            "clr" => ctx.clear(HAgent::M).boxed(),
            "xf" => {
                let f = leaf.y;
                ctx.transform_entry(HAgent::M, leaf.x, move |v: Option<&i32>| match (v, f) {
                    (Some(v), 1) => Some(*v + 1),
                    (None, 1) => Some(1),
                    _ => None,
                })
                .boxed()
            }
            "docmd" => ctx.command(HAgent::C, leaf.x).boxed(),
            "fail" => ctx.fail::<(), HErr>(HErr).boxed(),
            "stopi" => ctx.stop().boxed(),
            "susp" => {
                let p = leaf.p.clone();
                let slot = slot.to_string();
                let reg = self.clone();
                ctx.effect(move || {
                    // registered when the Suspend handler *runs*: the order of this list is the order of
                    // `pending` in the specification
                    let (tx, rx) = oneshot::channel::<()>();
                    reg.susp.lock().push(tx);
                    rx
                })
                .and_then(move |rx: oneshot::Receiver<()>| {
                    HandlerContext::<HAgent>::default().suspend(async move {
                        match rx.await {
                            Ok(()) => me.combine(&slot, "fbyR", &p),
                            Err(_) => UnitHandler::default().boxed(),
                        }
                    })
                })
                .boxed()
            }
            other => panic!("harness: unknown leaf {}", other),
        }
    }

    /// A body as a real handler tree, built with the requested combinator style.
    fn combine(&self, slot: &str, style: &str, ops: &Arc<Vec<Leaf>>) -> H {
        if ops.is_empty() {
            return UnitHandler::default().boxed();
        }
        match style {
            "fbyL" => {
                let mut acc = self.leaf(slot, &ops[0]);
                for o in ops.iter().skip(1) {
                    acc = acc.followed_by(self.leaf(slot, o)).boxed();
                }
                acc
            }
            "thenR" => self.then_r(slot.to_string(), ops.clone(), 0),
            "thenL" => {
                let mut acc = self.leaf(slot, &ops[0]);
                for o in ops.iter().skip(1) {
                    let me = self.clone();
                    let slot = slot.to_string();
                    let o = o.clone();
                    // the next handler is only created when the previous one has completed
                    acc = acc.and_then(move |_: ()| me.leaf(&slot, &o)).boxed();
                }
                acc
            }
            "seq" => {
                let hs: Vec<H> = ops.iter().map(|o| self.leaf(slot, o)).collect();
                Sequentially::new(hs).boxed()
            }
            "join" => {
                let mut acc: Option<H> = None;
                for o in ops.iter().rev() {
                    let h = self.leaf(slot, o);
                    acc = Some(match acc {
                        None => h,
                        Some(r) => join(h, r).map(|_: ((), ())| ()).boxed(),
                    });
                }
                acc.unwrap()
            }
            "ctx" | "try" => self.then_x(style == "try", slot.to_string(), ops.clone(), 0),
            _ => {
                // fbyR
                let mut acc: Option<H> = None;
                for o in ops.iter().rev() {
                    let h = self.leaf(slot, o);
                    acc = Some(match acc {
                        None => h,
                        Some(r) => h.followed_by(r).boxed(),
                    });
                }
                acc.unwrap()
            }
        }
    }

    fn then_x(&self, fallible: bool, slot: String, ops: Arc<Vec<Leaf>>, i: usize) -> H {
        let h = self.leaf(&slot, &ops[i]);
        if i + 1 == ops.len() {
            h
        } else {
            let me = self.clone();
            if fallible {
                h.and_then_try(move |_: ()| -> Result<H, EventHandlerError> {
                    Ok(me.then_x(fallible, slot, ops, i + 1))
                })
                .boxed()
            } else {
                h.and_then_contextual(move |_agent: &HAgent, _: ()| me.then_x(fallible, slot, ops, i + 1))
                    .boxed()
            }
        }
    }

    fn then_r(&self, slot: String, ops: Arc<Vec<Leaf>>, i: usize) -> H {
        let h = self.leaf(&slot, &ops[i]);
        if i + 1 == ops.len() {
            h
        } else {
            let me = self.clone();
            h.and_then(move |_: ()| me.then_r(slot, ops, i + 1)).boxed()
        }
    }

    /// What a lifecycle method returns: its entry line, then the body of its slot.
    fn slot(&self, slot: &str, entry: Value) -> H {
        let body = match self.prog.get(slot) {
            Some(b) => self.combine(slot, &b.c, &b.ops),
            None => UnitHandler::default().boxed(),
        };
        self.logger(entry).followed_by(body).boxed()
    }
}

#[derive(Clone)]
pub struct HLife(Interp);

#[lifecycle(HAgent)]
impl HLife {
    #[on_start]
    fn on_start(&self, _context: HandlerContext<HAgent>) -> impl EventHandler<HAgent> {
        self.0.slot("start", json!(["start"]))
    }

    #[on_stop]
    fn on_stop(&self, _context: HandlerContext<HAgent>) -> impl EventHandler<HAgent> {
        self.0.slot("stop", json!(["stop"]))
    }

    #[on_command(c)]
    fn on_cmd(&self, _context: HandlerContext<HAgent>, value: &i32) -> impl EventHandler<HAgent> {
        self.0.slot("cmd", json!(["cmd", *value]))
    }

    #[on_event(a)]
    fn ev_a(&self, _context: HandlerContext<HAgent>, value: &i32) -> impl EventHandler<HAgent> {
        self.0.slot("evA", json!(["evA", *value]))
    }

    #[on_set(a)]
    fn set_a(
        &self,
        _context: HandlerContext<HAgent>,
        new_value: &i32,
        prev: Option<i32>,
    ) -> impl EventHandler<HAgent> {
        self.0.slot("setA", json!(["setA", *new_value, opt(prev)]))
    }

    #[on_event(b)]
    fn ev_b(&self, _context: HandlerContext<HAgent>, value: &i32) -> impl EventHandler<HAgent> {
        self.0.slot("evB", json!(["evB", *value]))
    }

    #[on_set(b)]
    fn set_b(
        &self,
        _context: HandlerContext<HAgent>,
        new_value: &i32,
        prev: Option<i32>,
    ) -> impl EventHandler<HAgent> {
        self.0.slot("setB", json!(["setB", *new_value, opt(prev)]))
    }

    #[on_update(m)]
    fn upd(
        &self,
        _context: HandlerContext<HAgent>,
        map: &HashMap<i32, i32>,
        key: i32,
        prev: Option<i32>,
        new_value: &i32,
    ) -> impl EventHandler<HAgent> {
        self.0
            .slot("upd", json!(["upd", key, opt(prev), *new_value, pairs(map)]))
    }

    #[on_remove(m)]
    fn rem(
        &self,
        _context: HandlerContext<HAgent>,
        map: &HashMap<i32, i32>,
        key: i32,
        prev: i32,
    ) -> impl EventHandler<HAgent> {
        self.0.slot("rem", json!(["rem", key, prev, pairs(map)]))
    }

    #[on_clear(m)]
    fn clr(
        &self,
        _context: HandlerContext<HAgent>,
        prev: HashMap<i32, i32>,
    ) -> impl EventHandler<HAgent> {
        self.0.slot("clr", json!(["clr", pairs(&prev)]))
    }
}

// ------------------------------------------------------------------------------------------------
// The harness as the runtime.

type Io = (ByteWriter, ByteReader);

#[derive(Clone)]
struct Ctx {
    lanes: Arc<Mutex<HashMap<String, Io>>>,
    cmd_rx: Arc<Mutex<Option<ByteReader>>>,
    buf: NonZeroUsize,
}

impl AgentContext for Ctx {
    fn command_channel(&self) -> BoxFuture<'static, Result<ByteWriter, DownlinkRuntimeError>> {
        let (tx, rx) = byte_channel(NonZeroUsize::new(4096).unwrap());
        *self.cmd_rx.lock() = Some(rx);
        ready(Ok(tx)).boxed()
    }

    fn add_lane(
        &self,
        name: &str,
        _lane_kind: WarpLaneKind,
        _config: LaneConfig,
    ) -> BoxFuture<'static, Result<(ByteWriter, ByteReader), AgentRuntimeError>> {
        let (tx_in, rx_in) = byte_channel(self.buf);
        let (tx_out, rx_out) = byte_channel(self.buf);
        self.lanes.lock().insert(name.to_string(), (tx_in, rx_out));
        ready(Ok((tx_out, rx_in))).boxed()
    }

    fn add_http_lane(
        &self,
        _name: &str,
    ) -> BoxFuture<'static, Result<HttpLaneRequestChannel, AgentRuntimeError>> {
        ready(Err(AgentRuntimeError::Stopping)).boxed()
    }

    fn open_downlink(
        &self,
        _host: Option<&str>,
        _node: &str,
        _lane: &str,
        _kind: DownlinkKind,
    ) -> BoxFuture<'static, Result<(ByteWriter, ByteReader), DownlinkRuntimeError>> {
        futures::future::pending().boxed()
    }

    fn add_store(
        &self,
        _name: &str,
        _kind: StoreKind,
    ) -> BoxFuture<'static, Result<(ByteWriter, ByteReader), OpenStoreError>> {
        ready(Err(OpenStoreError::StoresNotSupported)).boxed()
    }
}

/// Exact quiescence barrier: the paused clock only advances when every task is idle.
async fn settle() {
    tokio::time::sleep(Duration::from_nanos(1)).await;
}

fn spawn_drain(mut rx: ByteReader) {
    tokio::spawn(async move {
        let mut buf = [0u8; 1024];
        loop {
            match rx.read(&mut buf).await {
                Ok(0) | Err(_) => break,
                Ok(_) => {}
            }
        }
    });
}

enum Sender {
    Value(FramedWrite<ByteWriter, ValueLaneRequestEncoder>),
    Map(FramedWrite<ByteWriter, MapLaneRequestEncoder>),
}

async fn run(case: &Value) -> Value {
    let cfg = &case["cfg"];
    let mut prog = HashMap::new();
    if let Some(p) = cfg["prog"].as_object() {
        for (slot, b) in p {
            prog.insert(
                slot.clone(),
                Body {
                    c: b["c"].as_str().unwrap_or("fbyR").to_string(),
                    ops: parse_leaves(&b["ops"]),
                },
            );
        }
    }
    let interp = Interp {
        prog: Arc::new(prog),
        log: Arc::new(Mutex::new(vec![])),
        susp: Arc::new(Mutex::new(vec![])),
    };
    let buf = NonZeroUsize::new(cfg["buf"].as_u64().unwrap_or(4096).max(16) as usize).unwrap();
    let drain = cfg["drain"].as_bool().unwrap_or(true);
    let batch = cfg["batch"].as_bool().unwrap_or(false);
    let m0: Vec<i32> = cfg["m0"]
        .as_array()
        .map(|a| a.iter().map(|v| v.as_i64().unwrap_or(0) as i32).collect())
        .unwrap_or_default();

    let ctx = Ctx {
        lanes: Arc::new(Mutex::new(HashMap::new())),
        cmd_rx: Arc::new(Mutex::new(None)),
        buf,
    };
    let stage: Arc<Mutex<&'static str>> = Arc::new(Mutex::new("init"));

    let model = AgentModel::new(HAgent::default, HLife(interp.clone()).into_lifecycle());
    let init = model.run(
        RouteUri::try_from("/node").unwrap(),
        HashMap::new(),
        AgentConfig::DEFAULT,
        Box::new(ctx.clone()),
    );
    let st = stage.clone();
    let agent = tokio::spawn(async move {
        let fut = async {
            match init.await {
                Err(_) => "init_err",
                Ok(task) => {
                    *st.lock() = "run";
                    match task.await {
                        Ok(()) => "ok",
                        Err(_) => "err",
                    }
                }
            }
        };
        let r = AssertUnwindSafe(fut).catch_unwind().await.unwrap_or("panic");
        *st.lock() = r;
    });

    let acts = case["acts"].as_array().cloned().unwrap_or_default();
    let mut obs: Vec<Value> = vec![];
    let mut senders: HashMap<String, Sender> = HashMap::new();
    let fin_of = |s: &str| -> &'static str {
        match s {
            "ok" => "ok",
            "err" => "err",
            "init_err" => "init_err",
            "panic" => "panic",
            _ => "run",
        }
    };

    let mut i = 0;
    while i < acts.len() {
        let a = &acts[i];
        let k = a["k"].as_str().unwrap_or("");
        let lane = a["l"].as_str().unwrap_or("").to_string();
        let x = a["x"].as_i64().unwrap_or(0) as i32;
        let y = a["y"].as_i64().unwrap_or(0) as i32;
        match k {
            "start" => {
                // lane initialisation phase: the runtime sends the stored state, then InitComplete, and waits for
                // Initialized; the agent then runs on_start.
                settle().await;
                let ios: Vec<(String, Io)> = ctx.lanes.lock().drain().collect();
                for (name, (tx, mut rx)) in ios {
                    let tx = match name.as_str() {
                        "a" | "b" => {
                            let mut w = FramedWrite::new(tx, RawValueStoreInitEncoder::default());
                            let v = if name == "a" { A0 } else { B0 };
                            let body = BytesMut::from(v.to_string().as_bytes());
                            let _ = w.send(StoreInitMessage::Command(body)).await;
                            let _ = w.send(StoreInitMessage::<BytesMut>::InitComplete).await;
                            let tx = w.into_inner();
                            let mut r = FramedRead::new(&mut rx, StoreInitializedCodec);
                            let _ = r.next().await;
                            tx
                        }
                        "m" => {
                            let mut w = FramedWrite::new(tx, RawMapStoreInitEncoder::default());
                            for (idx, v) in m0.iter().enumerate() {
                                if *v != 0 {
                                    let key = BytesMut::from((idx + 1).to_string().as_bytes());
                                    let value = BytesMut::from(v.to_string().as_bytes());
                                    let _ = w
                                        .send(StoreInitMessage::Command(MapMessage::Update { key, value }))
                                        .await;
                                }
                            }
                            let _ = w
                                .send(StoreInitMessage::<MapMessage<BytesMut, BytesMut>>::InitComplete)
                                .await;
                            let tx = w.into_inner();
                            let mut r = FramedRead::new(&mut rx, StoreInitializedCodec);
                            let _ = r.next().await;
                            tx
                        }
                        _ => tx,
                    };
                    if drain {
                        spawn_drain(rx);
                    } else {
                        // never read: the agent's lane writes back up behind a full buffer
                        std::mem::forget(rx);
                    }
                    let s = if name == "m" {
                        Sender::Map(FramedWrite::new(tx, MapLaneRequestEncoder::default()))
                    } else {
                        Sender::Value(FramedWrite::new(tx, ValueLaneRequestEncoder::default()))
                    };
                    senders.insert(name, s);
                }
                settle().await;
                if let Some(rx) = ctx.cmd_rx.lock().take() {
                    spawn_drain(rx);
                }
            }
            "stop" => {
                senders.clear();
                settle().await;
            }
            "resume" | "resume_stop" => {
                // "resume_stop": the suspended future completes and every lane input ends before the agent is polled
                // again (no quiescence in between): the event loop sees both at once and either runs the completed
                // handler and then stops, or stops at once (the future is dropped); on_stop is last either way
                let tx = {
                    let mut g = interp.susp.lock();
                    let idx = (x as usize).saturating_sub(1);
                    if idx < g.len() {
                        Some(g.remove(idx))
                    } else {
                        None
                    }
                };
                if let Some(tx) = tx {
                    let _ = tx.send(());
                }
                if k == "resume_stop" {
                    senders.clear();
                }
            }
            "sync" => match senders.get_mut(&lane) {
                Some(Sender::Value(w)) => {
                    let _ = w.send(LaneRequest::<i32>::Sync(Uuid::from_u128(7))).await;
                }
                Some(Sender::Map(w)) => {
                    let _ = w
                        .send(LaneRequest::<MapMessage<i32, i32>>::Sync(Uuid::from_u128(7)))
                        .await;
                }
                None => {}
            },
            "cmd" | "set" => {
                if let Some(Sender::Value(w)) = senders.get_mut(&lane) {
                    let _ = w.send(LaneRequest::Command(x)).await;
                }
            }
            "upd" | "rem" | "clr" | "take" | "drop" => {
                if let Some(Sender::Map(w)) = senders.get_mut(&lane) {
                    let msg: MapMessage<i32, i32> = match k {
                        "upd" => MapMessage::Update { key: x, value: y },
                        "rem" => MapMessage::Remove { key: x },
                        "clr" => MapMessage::Clear,
                        "take" => MapMessage::Take(x as u64),
                        _ => MapMessage::Drop(x as u64),
                    };
                    let _ = w.send(LaneRequest::Command(msg)).await;
                }
            }
            other => panic!("harness: unknown stimulus {}", other),
        }
        // batch schedule: consecutive commands to the same lane are written before the agent is polled again;
        // the events of the whole group are reported with its last member
        let grouped = batch
            && i + 1 < acts.len()
            && matches!(k, "cmd" | "set" | "upd" | "rem" | "clr" | "take" | "drop")
            && matches!(
                acts[i + 1]["k"].as_str().unwrap_or(""),
                "cmd" | "set" | "upd" | "rem" | "clr" | "take" | "drop"
            )
            && acts[i + 1]["l"].as_str().unwrap_or("") == lane;
        if grouped {
            obs.push(json!({"ev": [], "fin": "run"}));
        } else {
            settle().await;
            let ev: Vec<Value> = std::mem::take(&mut *interp.log.lock());
            let fin = fin_of(*stage.lock());
            obs.push(json!({"ev": ev, "fin": fin}));
        }
        i += 1;
    }
    drop(senders);
    agent.abort();
    json!({ "obs": obs })
}

fn main() {
    drive(|case| {
        let rt = tokio::runtime::Builder::new_current_thread()
            .enable_time()
            .start_paused(true)
            .build()
            .expect("runtime");
        rt.block_on(run(case))
    });
}

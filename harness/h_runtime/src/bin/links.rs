//! C20 - replays behaviours generated from specs/Links.tla on the real link registry and on the
//! real synchronous core of the agent runtime's write task, observing everything through the
//! public introspection reader (`UplinkReportReader::snapshot`).
//!
//! level "K": `swimos_runtime::verif_hooks::Links` is called directly, one call per action.  The
//!            harness keeps only the *reader* of every reporter it registers, so the registry is the
//!            sole owner of the reporter (a deleted entry shows up as a dead reader).
//! level "W": `swimos_runtime::verif_hooks::WriteTaskHarness` (= the private `WriteTaskState` the
//!            write task itself drives): lanes are registered with reporters, remotes are attached
//!            with real byte channels, every `WriteTask` handed back is run to completion on the
//!            channel and its result is given back through `write_done` exactly as the write task's
//!            loop does, so write failures call the real `remove_remote`.  The harness plays the
//!            read task as well: it keeps a clone of each lane reporter (as `LaneSender` does) and
//!            counts commands on it and on the aggregate reporter.  The frames each remote received
//!            are decoded and reported.
//!
//! Lanes and remotes are 1-based indices; sets are bit masks (element i = bit i-1).
//! After every action the readers selected by "sn" (bit l-1 = lane l, bit NL = aggregate; default all)
//! are snapshotted: [st, links, events, commands], st 0 = no reader registered, 1 = alive, 2 = dead.
//!
//! `links stress <seed> <runs> <iters>`: counters under real threads (see `stress`).
use bytes::{Bytes, BytesMut};
use futures::future::BoxFuture;
use futures::{FutureExt, SinkExt};
use parking_lot::Mutex;
use serde_json::{json, Value};
use std::collections::HashMap;
use std::future::Future;
use std::num::NonZeroUsize;
use std::pin::Pin;
use std::sync::atomic::{AtomicBool, AtomicU64, Ordering};
use std::sync::Arc;
use std::time::Duration;
use swimos_agent_protocol::encoding::lane::{RawValueLaneRequestDecoder, RawValueLaneResponseEncoder};
use swimos_agent_protocol::LaneResponse;
use swimos_api::address::RelativeAddress;
use swimos_api::agent::{Agent, AgentConfig, AgentContext, AgentInitResult, LaneConfig, WarpLaneKind};
use swimos_messages::protocol::{RawRequestMessageEncoder, RequestMessage};
use swimos_runtime::agent::{
    AgentAttachmentRequest, AgentRouteChannels, AgentRouteDescriptor, AgentRouteTask, AgentRuntimeConfig,
    CombinedAgentConfig, NodeReporting, UplinkReporterRegistration,
};
use swimos_utilities::byte_channel::ByteWriter;
use swimos_utilities::routing::RouteUri;
use swimos_utilities::trigger;
use tokio::sync::mpsc;
use tokio_util::codec::{FramedRead, FramedWrite};
use std::task::{Context, Poll};
use swimos_messages::protocol::{Notification, RawResponseMessageDecoder};
use swimos_runtime::agent::reporting::{UplinkReportReader, UplinkReporter};
use swimos_runtime::verif_hooks::{
    DisconnectionReason, Links, UplinkResponse, WriteTask, WriteTaskHarness,
};
use swimos_utilities::byte_channel::{byte_channel, ByteReader};
use swimos_utilities::trigger::promise;
use tokio::io::{AsyncRead, ReadBuf};
use tokio_util::codec::Decoder;
use uuid::Uuid;

const LANE_IDS: [u64; 6] = [7, 38, 999, 58349209, 0, u64::MAX];

fn rid(r: u64) -> Uuid {
    // distinct, not ordered like the indices
    Uuid::from_u128(0x9e3779b97f4a7c15u128.wrapping_mul(r as u128 + 11) ^ ((r as u128) << 96))
}

fn snap_one(reader: &Option<UplinkReportReader>) -> Value {
    match reader {
        None => json!([0, 0, 0, 0]),
        Some(rd) => match rd.snapshot() {
            None => json!([2, 0, 0, 0]),
            Some(s) => json!([1, s.link_count, s.event_count, s.command_count]),
        },
    }
}

fn snapshots(act: &Value, nl: usize, lane_readers: &[Option<UplinkReportReader>], agg: &Option<UplinkReportReader>) -> Value {
    let all = (1u64 << (nl + 1)) - 1;
    let sn = act.get("sn").and_then(|v| v.as_u64()).unwrap_or(all);
    let mut out = Vec::new();
    for l in 0..nl {
        if sn & (1 << l) != 0 {
            out.push(snap_one(&lane_readers[l]));
        }
    }
    if sn & (1 << nl) != 0 {
        out.push(snap_one(agg));
    }
    Value::Array(out)
}

fn geti(a: &Value, k: &str) -> u64 {
    a[k].as_u64().unwrap_or_else(|| panic!("harness: missing field {} in {}", k, a))
}

// ------------------------------------------------------------------------------------ level K

fn run_k(case: &Value) -> Value {
    let cfg = &case["cfg"];
    let nl = cfg["nl"].as_u64().unwrap_or(3) as usize;
    let nr = cfg["nr"].as_u64().unwrap_or(3) as usize;
    let with_agg = cfg["agg"].as_bool().unwrap_or(true);
    let agg_reporter = if with_agg { Some(UplinkReporter::default()) } else { None };
    let agg_reader = agg_reporter.as_ref().map(|r| r.reader());
    // the registry owns the aggregate reporter; nothing else holds it
    let mut links = Links::new(agg_reporter);
    let mut readers: Vec<Option<UplinkReportReader>> = vec![None; nl];
    let lid = |l: u64| LANE_IDS[(l - 1) as usize];
    let lidx = |id: u64| LANE_IDS.iter().position(|x| *x == id).unwrap() as u64 + 1;
    let ridx: HashMap<Uuid, u64> = (1..=nr as u64).map(|r| (rid(r), r)).collect();
    let mut obs = Vec::new();
    for a in case["acts"].as_array().unwrap() {
        let k = a["k"].as_str().unwrap();
        let mut o = json!({});
        match k {
            "reg" => {
                let l = geti(a, "l");
                let rep = UplinkReporter::default();
                readers[(l - 1) as usize] = Some(rep.reader());
                links.register_reporter(lid(l), rep);
            }
            "ins" => links.insert(lid(geti(a, "l")), rid(geti(a, "r"))),
            "rem" => {
                let tu = links.remove(lid(geti(a, "l")), rid(geti(a, "r")));
                o["tu"] = json!([ridx[&tu.remote_id], tu.schedule_prune as u8]);
            }
            "remr" => links.remove_remote(rid(geti(a, "r"))),
            "reml" => {
                // the call sites consume the (lazy) iterator completely
                let mut tus: Vec<(u64, u8)> = links
                    .remove_lane(lid(geti(a, "l")))
                    .map(|tu| (ridx[&tu.remote_id], tu.schedule_prune as u8))
                    .collect();
                tus.sort();
                o["tus"] = json!(tus);
            }
            "remall" => {
                let mut pairs: Vec<(u64, u64)> = links.remove_all_links().map(|(l, r)| (lidx(l), ridx[&r])).collect();
                pairs.sort();
                o["pairs"] = json!(pairs);
            }
            "cs" => links.count_single(lid(geti(a, "l"))),
            "cb" => links.count_broadcast(lid(geti(a, "l"))),
            "nop" => {}
            other => panic!("harness: bad K action {}", other),
        }
        // registry projection through its public queries
        let mut fw = Vec::new();
        for l in 1..=nl as u64 {
            let m = links.linked_from(lid(l)).map(|s| s.iter().fold(0u64, |m, r| m | 1 << (ridx[r] - 1))).unwrap_or(0);
            let mut m2 = 0u64;
            for r in 1..=nr as u64 {
                if links.is_linked(rid(r), lid(l)) {
                    m2 |= 1 << (r - 1);
                }
            }
            if m != m2 {
                o["incoherent"] = json!(format!("linked_from({}) = {:b} but is_linked gives {:b}", l, m, m2));
            }
            fw.push(m);
        }
        let mut bw = Vec::new();
        let mut bwh = Vec::new();
        for r in 1..=nr as u64 {
            let e = links.linked_to(rid(r));
            bwh.push(e.is_some() as u8);
            bw.push(e.map(|s| s.iter().fold(0u64, |m, l| m | 1 << (lidx(*l) - 1))).unwrap_or(0));
        }
        o["bwh"] = json!(bwh);
        o["fw"] = json!(fw);
        o["bw"] = json!(bw);
        o["s"] = snapshots(a, nl, &readers, &agg_reader);
        obs.push(o);
    }
    json!({ "obs": obs })
}

// ------------------------------------------------------------------------------------ level W

struct Remote {
    reader: Option<ByteReader>,
    buf: BytesMut,
    done: promise::Receiver<DisconnectionReason>,
}

fn noop_cx() -> Context<'static> {
    Context::from_waker(futures::task::noop_waker_ref())
}

/// Everything the remote end can read right now, decoded: [kind, lane index] per frame.
fn drain(rem: &mut Remote, lane_of: &dyn Fn(&str) -> i64, out: &mut Vec<Value>) {
    if let Some(rd) = rem.reader.as_mut() {
        let mut store = [0u8; 4096];
        // The channel yields cooperatively (Pending + wake) every 64th call on this thread: a single
        // Pending is not "empty", two in a row are (the budget is fresh after a yield).
        let mut pendings = 0;
        loop {
            let mut rb = ReadBuf::new(&mut store);
            match Pin::new(&mut *rd).poll_read(&mut noop_cx(), &mut rb) {
                Poll::Ready(Ok(())) if !rb.filled().is_empty() => {
                    pendings = 0;
                    rem.buf.extend_from_slice(rb.filled())
                }
                Poll::Pending if pendings == 0 => pendings = 1,
                _ => break,
            }
        }
        let mut dec = RawResponseMessageDecoder;
        while let Ok(Some(msg)) = dec.decode(&mut rem.buf) {
            let l = lane_of(msg.path.lane.as_str());
            let kind = match msg.envelope {
                Notification::Linked => "L",
                Notification::Synced => "S",
                Notification::Unlinked(_) => "U",
                Notification::Event(_) => "E",
            };
            out.push(json!([kind, l]));
        }
    }
}

fn reason_str(r: &DisconnectionReason) -> &'static str {
    match r {
        DisconnectionReason::AgentStoppedExternally => "stopped",
        DisconnectionReason::RemoteTimedOut => "timedout",
        DisconnectionReason::AgentTimedOut => "agent_timedout",
        DisconnectionReason::DuplicateRegistration(_) => "duplicate",
        DisconnectionReason::ChannelClosed => "closed",
        DisconnectionReason::Failed => "failed",
    }
}

fn run_w(case: &Value) -> Value {
    let cfg = &case["cfg"];
    let nl = cfg["nl"].as_u64().unwrap_or(3) as usize;
    let nr = cfg["nr"].as_u64().unwrap_or(3) as usize;
    let agg_reporter = UplinkReporter::default();
    let agg_reader = Some(agg_reporter.reader());
    // the read task holds the aggregate reporter too (it counts commands on it)
    let read_task_agg = agg_reporter.clone();
    let mut h = WriteTaskHarness::new(Uuid::from_u128(1), "/node", Some(agg_reporter));
    let mut readers: Vec<Option<UplinkReportReader>> = vec![None; nl];
    let mut read_task_lane: Vec<Option<UplinkReporter>> = vec![None; nl]; // LaneSender.reporter
    let mut lane_id: Vec<Option<u64>> = vec![None; nl];
    let mut remotes: HashMap<u64, Remote> = HashMap::new();
    let lane_name = |l: u64| format!("lane{}", l);
    let lane_of = |name: &str| -> i64 { name.strip_prefix("lane").and_then(|s| s.parse::<i64>().ok()).unwrap_or(0) };
    let mut obs = Vec::new();
    let mut seq = 0u64;

    for a in case["acts"].as_array().unwrap() {
        let k = a["k"].as_str().unwrap();
        let mut o = json!({});
        let mut writes: Vec<WriteTask> = Vec::new();
        let mut step_frames: HashMap<u64, Vec<Value>> = HashMap::new();
        match k {
            "lane" => {
                let l = geti(a, "l");
                let rep = UplinkReporter::default();
                readers[(l - 1) as usize] = Some(rep.reader());
                read_task_lane[(l - 1) as usize] = Some(rep.clone());
                lane_id[(l - 1) as usize] = Some(h.register_lane(&lane_name(l), Some(rep)));
            }
            "att" => {
                let r = geti(a, "r");
                let (tx, rx) = byte_channel(NonZeroUsize::new(1 << 16).unwrap());
                let (ptx, prx) = promise::promise();
                remotes.insert(r, Remote { reader: Some(rx), buf: BytesMut::new(), done: prx });
                let s = h.attach_remote(rid(r), tx, ptx);
                writes.extend(s.writes);
            }
            "link" => writes.extend(h.link(rid(geti(a, "r")), &lane_name(geti(a, "l"))).writes),
            "unlink" => writes.extend(h.unlink(rid(geti(a, "r")), &lane_name(geti(a, "l"))).writes),
            "unk" => writes.extend(h.unknown_lane(rid(geti(a, "r")), "/node", "nosuchlane").writes),
            "ev" => {
                let l = geti(a, "l");
                let t = geti(a, "t");
                let id = lane_id[(l - 1) as usize].expect("harness: event on a lane that was never registered");
                seq += 1;
                let body = Bytes::from(format!("{}", seq));
                let target = if t == 0 { None } else { Some(rid(t)) };
                writes.extend(h.lane_event(id, target, UplinkResponse::Value(body)));
            }
            "cmd" => {
                // what the read task does for a command envelope: aggregate, then LaneSender::feed_frame
                let l = geti(a, "l");
                read_task_agg.count_commands(1);
                if let Some(rep) = &read_task_lane[(l - 1) as usize] {
                    rep.count_commands(1);
                }
            }
            "close" => {
                if let Some(rem) = remotes.get_mut(&geti(a, "r")) {
                    rem.reader = None;
                }
            }
            "fail" => {
                let l = geti(a, "l");
                let id = lane_id[(l - 1) as usize].expect("harness: failure of a lane that was never registered");
                // the lane's stream ends with the failure; the read task drops its LaneSender when
                // it next fails to reach the lane - irrelevant to the property (P is silent on failed lanes)
                writes.extend(h.lane_failed(id).writes);
            }
            "prune" => h.prune_remote(rid(geti(a, "r"))),
            "stop" => writes.extend(h.unlink_all()),
            "nop" => {}
            other => panic!("harness: bad W action {}", other),
        }
        // the write task's loop: run every scheduled write, hand the result back, run what that yields
        let mut budget = 10_000;
        while let Some(w) = writes.pop() {
            budget -= 1;
            if budget == 0 {
                panic!("write loop does not terminate");
            }
            let mut fut = Box::pin(w.into_future());
            let mut polls = 0;
            let res = loop {
                match fut.as_mut().poll(&mut noop_cx()) {
                    Poll::Ready(r) => break r,
                    Poll::Pending => {
                        polls += 1;
                        if polls > 1000 {
                            panic!("harness: a write to a drained 64k channel stays pending");
                        }
                        for (r, rem) in remotes.iter_mut() {
                            drain(rem, &lane_of, step_frames.entry(*r).or_default());
                        }
                    }
                }
            };
            if k == "stop" && res.2.is_err() {
                // the shutdown loop of the write task ignores failed writes
                continue;
            }
            if let Some(next) = h.write_done(res) {
                writes.push(next);
            }
        }
        // observations
        let mut rx = Vec::new();
        let mut att = 0u64;
        let mut dc = Vec::new();
        for r in 1..=nr as u64 {
            let mut frames = step_frames.remove(&r).unwrap_or_default();
            if let Some(rem) = remotes.get_mut(&r) {
                drain(rem, &lane_of, &mut frames);
            }
            rx.push(Value::Array(frames));
            if h.has_remote(rid(r)) {
                att |= 1 << (r - 1);
            } else if let Some(rem) = remotes.get_mut(&r) {
                if let Some(Ok(reason)) = (&mut rem.done).now_or_never() {
                    dc.push(json!([r, reason_str(&reason)]));
                }
                remotes.remove(&r);
            }
        }
        let mut lk = Vec::new();
        for l in 1..=nl as u64 {
            let mut m = 0u64;
            if let Some(id) = lane_id[(l - 1) as usize] {
                for r in 1..=nr as u64 {
                    if h.is_linked(rid(r), id) {
                        m |= 1 << (r - 1);
                    }
                }
            }
            lk.push(m);
        }
        o["rx"] = json!(rx);
        o["att"] = json!(att);
        o["dc"] = json!(dc);
        o["lk"] = json!(lk);
        o["s"] = snapshots(a, nl, &readers, &agg_reader);
        obs.push(o);
    }
    json!({ "obs": obs })
}


// ------------------------------------------------------------------------------------ level R

/// Level "R": the whole agent runtime (`AgentRouteTask::run_agent`: attachment, read and write tasks
/// on a paused single-threaded tokio runtime) with real `NodeReporting`, a fake agent that only owns the
/// lane channels, and remotes that speak the real envelope protocol.  `sleep(1ns)` under the paused
/// clock is an exact quiescence barrier, taken after every action.  Nothing of the registry is visible
/// here: the observations are the snapshots of the introspection readers and which remotes the runtime
/// still holds (their completion promise is unresolved).
struct FakeAgent {
    nl: usize,
    lanes: Arc<Mutex<Vec<Option<(ByteWriter, ByteReader)>>>>,
    done: Arc<Mutex<Option<trigger::Receiver>>>,
}

impl Agent for FakeAgent {
    fn run(
        &self,
        _route: RouteUri,
        _route_params: HashMap<String, String>,
        _config: AgentConfig,
        context: Box<dyn AgentContext + Send>,
    ) -> BoxFuture<'static, AgentInitResult> {
        let nl = self.nl;
        let lanes = self.lanes.clone();
        let done = self.done.lock().take().expect("harness: the fake agent is started once");
        async move {
            for l in 1..=nl {
                let config = LaneConfig { transient: true, ..Default::default() };
                let io = context
                    .add_lane(&format!("lane{}", l), WarpLaneKind::Value, config)
                    .await
                    .expect("harness: registering a lane failed");
                lanes.lock().push(Some(io));
            }
            let task: BoxFuture<'static, Result<(), swimos_api::error::AgentTaskError>> = async move {
                let _context = context; // dropping the context would stop the agent
                let _ = done.await; // the agent ends when the harness says so (after the runtime was told to stop)
                Ok(())
            }
            .boxed();
            Ok(task)
        }
        .boxed()
    }
}

struct RRemote {
    tx: Option<FramedWrite<ByteWriter, RawRequestMessageEncoder>>,
    rem: Remote,
    attached: bool,
}

async fn settle() {
    tokio::time::sleep(Duration::from_nanos(1)).await;
}

async fn run_r_async(case: Value) -> Value {
    let cfg = &case["cfg"];
    let nl = cfg["nl"].as_u64().unwrap_or(3) as usize;
    let nr = cfg["nr"].as_u64().unwrap_or(3) as usize;
    let hours = Duration::from_secs(3600 * 24);
    let prune = Duration::from_secs(60);
    let runtime_config = AgentRuntimeConfig {
        inactive_timeout: hours,
        prune_remote_delay: prune,
        shutdown_timeout: Duration::from_secs(5),
        item_init_timeout: Duration::from_secs(5),
        ..Default::default()
    };
    let config = CombinedAgentConfig { agent_config: AgentConfig::default(), runtime_config };
    let lanes_io = Arc::new(Mutex::new(Vec::new()));
    let (agent_done_tx, agent_done_rx) = trigger::trigger();
    let mut agent_done_tx = Some(agent_done_tx);
    let agent = FakeAgent { nl, lanes: lanes_io.clone(), done: Arc::new(Mutex::new(Some(agent_done_rx))) };
    let (att_tx, att_rx) = mpsc::channel(16);
    let (_http_tx, http_rx) = mpsc::channel(16);
    let (link_tx, _link_rx) = mpsc::channel(16);
    let (stop_tx, stop_rx) = trigger::trigger();
    let mut stop_tx = Some(stop_tx);
    let agg = UplinkReporter::default();
    let agg_reader = Some(agg.reader());
    let (reg_tx, mut reg_rx) = mpsc::channel::<UplinkReporterRegistration>(16);
    let reporting = NodeReporting::new(Uuid::from_u128(1), agg, reg_tx);
    let task = AgentRouteTask::new(
        &agent,
        AgentRouteDescriptor { identity: Uuid::from_u128(1), route: "/node".parse().unwrap(), route_params: HashMap::new() },
        AgentRouteChannels::new(att_rx, http_rx, link_tx),
        stop_rx,
        config,
        Some(reporting),
    );
    let handle = tokio::spawn(task.run_agent().map(|r| r.map_err(|e| e.to_string())));
    // the introspection side: collect the lane registrations (each lane registers while it is added)
    let mut readers: Vec<Option<UplinkReportReader>> = vec![None; nl];
    let lane_of = |name: &str| -> i64 { name.strip_prefix("lane").and_then(|s| s.parse::<i64>().ok()).unwrap_or(0) };
    for _ in 0..(2 * nl + 4) {
        settle().await;
        while let Ok(reg) = reg_rx.try_recv() {
            let l = lane_of(reg.lane_name.as_str());
            if l >= 1 && (l as usize) <= nl {
                readers[l as usize - 1] = Some(reg.reader);
            }
        }
    }
    if readers.iter().any(|r| r.is_none()) || lanes_io.lock().len() != nl {
        panic!("harness: the fake agent did not come up ({} lanes, {} readers)", lanes_io.lock().len(), readers.iter().filter(|r| r.is_some()).count());
    }
    let mut lane_tx: Vec<FramedWrite<ByteWriter, RawValueLaneResponseEncoder>> = Vec::new();
    let mut lane_rx: Vec<FramedRead<ByteReader, RawValueLaneRequestDecoder>> = Vec::new();
    for io in lanes_io.lock().iter_mut() {
        let (tx, rx) = io.take().unwrap();
        lane_tx.push(FramedWrite::new(tx, RawValueLaneResponseEncoder::default()));
        lane_rx.push(FramedRead::new(rx, RawValueLaneRequestDecoder::default()));
    }
    let mut remotes: HashMap<u64, RRemote> = HashMap::new();
    let mut obs = Vec::new();
    let mut seq = 0u64;
    let mut stopped = false;

    // first observation: the state after start-up (reported as one step per lane by the driver)
    for a in case["acts"].as_array().unwrap() {
        let k = a["k"].as_str().unwrap();
        let mut o = json!({});
        match k {
            "lane" | "nop" => {} // every lane is registered at start-up
            "att" => {
                let r = geti(a, "r");
                let (req_tx, req_rx) = byte_channel(NonZeroUsize::new(1 << 16).unwrap());
                let (resp_tx, resp_rx) = byte_channel(NonZeroUsize::new(1 << 16).unwrap());
                let (ptx, prx) = promise::promise();
                let (on_tx, on_rx) = trigger::trigger();
                let _ = att_tx.send(AgentAttachmentRequest::with_confirmation(rid(r), (resp_tx, req_rx), ptx, on_tx)).await;
                settle().await;
                let attached = on_rx.now_or_never().map(|r| r.is_ok()).unwrap_or(false);
                remotes.insert(r, RRemote {
                    tx: Some(FramedWrite::new(req_tx, RawRequestMessageEncoder)),
                    rem: Remote { reader: Some(resp_rx), buf: BytesMut::new(), done: prx },
                    attached,
                });
            }
            "link" | "unlink" | "sync" | "cmd" | "unk" => {
                let r = geti(a, "r");
                let lane = if k == "unk" { "nosuchlane".to_string() } else { format!("lane{}", geti(a, "l")) };
                if let Some(tx) = remotes.get_mut(&r).and_then(|x| x.tx.as_mut()) {
                    let path = RelativeAddress::new("/node", lane.as_str());
                    seq += 1;
                    let body = format!("{}", seq);
                    let msg: RequestMessage<&str, &[u8]> = match k {
                        "link" | "unk" => RequestMessage::link(rid(r), path),
                        "sync" => RequestMessage::sync(rid(r), path),
                        "unlink" => RequestMessage::unlink(rid(r), path),
                        _ => RequestMessage::command(rid(r), path, body.as_bytes()),
                    };
                    let mut fut = Box::pin(tx.send(msg));
                    let mut done = false;
                    for _ in 0..4 {
                        if futures::poll!(fut.as_mut()).is_ready() {
                            done = true;
                            break;
                        }
                    }
                    if !done {
                        panic!("harness: a request could not be written to a 64k channel");
                    }
                } else {
                    o["skipped"] = json!(true);
                }
            }
            "ev" => {
                let l = geti(a, "l") as usize;
                let t = geti(a, "t");
                seq += 1;
                let body = format!("{}", seq);
                let msg: LaneResponse<&[u8]> = if t == 0 {
                    LaneResponse::StandardEvent(body.as_bytes())
                } else {
                    LaneResponse::SyncEvent(rid(t), body.as_bytes())
                };
                let mut fut = Box::pin(lane_tx[l - 1].send(msg));
                let mut done = false;
                for _ in 0..4 {
                    if futures::poll!(fut.as_mut()).is_ready() {
                        done = true;
                        break;
                    }
                }
                if !done {
                    panic!("harness: a lane response could not be written");
                }
            }
            "close" => {
                if let Some(rem) = remotes.get_mut(&geti(a, "r")) {
                    rem.rem.reader = None;
                }
            }
            "tick" => {
                // past the prune delay: every remote without links is pruned
                tokio::time::sleep(prune + Duration::from_secs(1)).await;
            }
            "stop" => {
                if let Some(tx) = stop_tx.take() {
                    tx.trigger();
                }
                stopped = true;
            }
            other => panic!("harness: bad R action {}", other),
        }
        settle().await;
        settle().await;
        // the fake agent consumes whatever the runtime sent to its lanes
        for rx in lane_rx.iter_mut() {
            use futures::StreamExt;
            for _ in 0..64 {
                match futures::poll!(rx.next()) {
                    Poll::Ready(Some(_)) => {}
                    _ => break,
                }
            }
        }
        let mut rxs = Vec::new();
        let mut att = 0u64;
        let mut dc = Vec::new();
        for r in 1..=nr as u64 {
            let mut frames = Vec::new();
            let mut gone = false;
            if let Some(rr) = remotes.get_mut(&r) {
                drain(&mut rr.rem, &lane_of, &mut frames);
                match (&mut rr.rem.done).now_or_never() {
                    Some(Ok(reason)) => {
                        dc.push(json!([r, reason_str(&reason)]));
                        gone = true;
                    }
                    Some(Err(_)) => gone = true,
                    None => {
                        if rr.attached {
                            att |= 1 << (r - 1);
                        }
                    }
                }
            }
            if gone {
                remotes.remove(&r);
            }
            rxs.push(Value::Array(frames));
        }
        o["rx"] = json!(rxs);
        o["att"] = json!(att);
        o["dc"] = json!(dc);
        o["s"] = snapshots(a, nl, &readers, &agg_reader);
        obs.push(o);
    }
    if !stopped {
        if let Some(tx) = stop_tx.take() {
            tx.trigger();
        }
    }
    settle().await;
    if let Some(tx) = agent_done_tx.take() {
        tx.trigger();
    }
    drop(lane_tx);
    drop(lane_rx);
    drop(att_tx);
    let res = tokio::time::timeout(Duration::from_secs(60), handle).await;
    let end = match res {
        Ok(Ok(Ok(()))) => "ok".to_string(),
        Ok(Ok(Err(e))) => format!("agent runtime failed: {}", e),
        Ok(Err(e)) => format!("agent runtime panicked: {}", e),
        Err(_) => "agent runtime did not stop".to_string(),
    };
    json!({ "obs": obs, "end": end })
}

fn run_r(case: &Value) -> Value {
    let rt = tokio::runtime::Builder::new_current_thread().enable_time().start_paused(true).build().unwrap();
    rt.block_on(run_r_async(case.clone()))
}

pub fn run_case(case: &Value) -> Value {
    match case["cfg"]["level"].as_str().unwrap_or("K") {
        "K" => run_k(case),
        "W" => run_w(case),
        "R" => run_r(case),
        other => panic!("harness: bad level {}", other),
    }
}

// ------------------------------------------------------------------------------------ stress

/// Counters on real threads.  Per run: one registry with an aggregate and two lane reporters,
/// `nc` counting threads (the write task's role: `count_single` / `count_broadcast` through a shared
/// `&Links`; the read task's role: `count_commands` on reporter clones), `ns` snapshot threads per
/// reader (introspection).  Law (Counters.tla): for each reader, the sum of all snapshots taken plus
/// the final residue equals the sum of the increments; a snapshot never reports a link count that
/// was never stored.
fn stress(args: &[String]) {
    let seed: u64 = args.first().and_then(|s| s.parse().ok()).unwrap_or(1);
    let runs: u64 = args.get(1).and_then(|s| s.parse().ok()).unwrap_or(20);
    let iters: u64 = args.get(2).and_then(|s| s.parse().ok()).unwrap_or(20_000);
    let mut x = seed.wrapping_mul(0x9e3779b97f4a7c15) | 1;
    let mut next = move || {
        x ^= x << 13;
        x ^= x >> 7;
        x ^= x << 17;
        x
    };
    for run in 0..runs {
        let nc = 1 + (next() % 3) as usize;
        let ns = 1 + (next() % 2) as usize;
        let fan = 1 + next() % 3; // remotes linked to lane 1 (broadcast adds `fan` per call)
        let agg = UplinkReporter::default();
        let agg_rd = agg.reader();
        let agg_clone = agg.clone();
        let mut links = Links::new(Some(agg));
        let rep1 = UplinkReporter::default();
        let rd1 = rep1.reader();
        let rep1_clone = rep1.clone();
        let rep2 = UplinkReporter::default();
        let rd2 = rep2.reader();
        links.register_reporter(LANE_IDS[0], rep1);
        links.register_reporter(LANE_IDS[1], rep2);
        for r in 1..=fan {
            links.insert(LANE_IDS[0], rid(r));
        }
        links.insert(LANE_IDS[1], rid(1));
        let total_links = fan + 1;
        let stop = AtomicBool::new(false);
        let sums: Vec<[AtomicU64; 2]> = (0..3).map(|_| [AtomicU64::new(0), AtomicU64::new(0)]).collect();
        let bad_links = AtomicU64::new(0);
        let snaps_taken = AtomicU64::new(0);
        let links_ref = &links;
        std::thread::scope(|sc| {
            let mut counters = Vec::new();
            for t in 0..nc {
                counters.push(sc.spawn(move || {
                    for i in 0..iters {
                        match (i + t as u64) % 3 {
                            0 => links_ref.count_broadcast(LANE_IDS[0]),
                            1 => links_ref.count_single(LANE_IDS[0]),
                            _ => links_ref.count_single(LANE_IDS[1]),
                        }
                    }
                }));
            }
            let ac = &agg_clone;
            let r1c = &rep1_clone;
            counters.push(sc.spawn(move || {
                for _ in 0..iters {
                    ac.count_commands(1);
                    r1c.count_commands(1);
                }
            }));
            for _ in 0..ns {
                for (ix, rd, want) in [(0usize, &agg_rd, total_links), (1, &rd1, fan), (2, &rd2, 1)] {
                    let stop = &stop;
                    let sums = &sums;
                    let bad_links = &bad_links;
                    let snaps_taken = &snaps_taken;
                    sc.spawn(move || {
                        while !stop.load(Ordering::Acquire) {
                            if let Some(s) = rd.snapshot() {
                                sums[ix][0].fetch_add(s.event_count, Ordering::Relaxed);
                                sums[ix][1].fetch_add(s.command_count, Ordering::Relaxed);
                                snaps_taken.fetch_add(1, Ordering::Relaxed);
                                if s.link_count != want {
                                    bad_links.fetch_add(1, Ordering::Relaxed);
                                }
                            } else {
                                bad_links.fetch_add(1 << 32, Ordering::Relaxed);
                            }
                            std::hint::spin_loop();
                        }
                    });
                }
            }
            for c in counters {
                c.join().unwrap();
            }
            stop.store(true, Ordering::Release);
        });
        // residue
        let mut got = Vec::new();
        for (ix, rd) in [(0usize, &agg_rd), (1, &rd1), (2, &rd2)] {
            let s = rd.snapshot().expect("reader alive");
            got.push((
                sums[ix][0].load(Ordering::Relaxed) + s.event_count,
                sums[ix][1].load(Ordering::Relaxed) + s.command_count,
            ));
        }
        // expected increments
        let mut e1 = 0u64;
        let mut e2 = 0u64;
        for t in 0..nc as u64 {
            for i in 0..iters {
                match (i + t) % 3 {
                    0 => e1 += fan,
                    1 => e1 += 1,
                    _ => e2 += 1,
                }
            }
        }
        let want = vec![(e1 + e2, iters), (e1, iters), (e2, 0)];
        let ok = got == want && bad_links.load(Ordering::Relaxed) == 0;
        println!(
            "{}",
            json!({"run": run, "ok": ok, "counting_threads": nc + 1, "snapshot_threads": ns * 3, "fan": fan,
                   "snapshots": snaps_taken.load(Ordering::Relaxed), "increments": (nc as u64 + 2) * iters,
                   "got": got, "want": want, "bad_links": bad_links.load(Ordering::Relaxed),
                   "what": if ok { "".to_string() } else { format!("sum of snapshots + residue {:?} != sum of increments {:?} (agg, lane1, lane2: events, commands); bad link counts {}", got, want, bad_links.load(Ordering::Relaxed)) }})
        );
    }
}

fn main() {
    let args: Vec<String> = std::env::args().collect();
    if args.get(1).map(|s| s.as_str()) == Some("stress") {
        stress(&args[2..]);
    } else {
        h_common::drive(run_case);
    }
}

//! C08: replays input sequences generated from specs/DownlinkState.tla on the real downlinks and
//! reports, per input, the lifecycle callbacks (with their arguments) and whether the downlink has
//! terminated.
//!
//!  * impl = "client": swimos_downlink `DownlinkTask` (value / map / event) spawned on a paused
//!    current-thread runtime, fed through byte channels with the runtime's notification encoding,
//!    with a recording lifecycle built with the public `Basic*DownlinkLifecycle` builders.
//!  * impl = "hosted": the agent-hosted downlinks, obtained exactly as an agent obtains them
//!    (`Open*DownlinkAction` stepped with an `ActionContext` whose `LinkSpawner` captures the
//!    channel factory), then driven the way `AgentModel`'s task drives a `HostedDownlink`:
//!    `await_ready` -> `next_event` -> run the handler to completion.
//!
//! Quiescence: time is paused, so `sleep(1ns)` / `timeout(1ns, ..)` completes exactly when every
//! task is idle; one input is therefore fully processed before the next is sent.
//!
//! Environment inputs: "drop_handles" drops every handle through which the downlink can be written
//! to (client: the action / set senders, so run_io falls into its read-only mode; hosted: the
//! Map/Value/EventDownlinkHandle, so the write stream terminates), "out_fail" drops the reader of
//! the downlink's output channel (client: the next flush fails; hosted: the reader is dropped and,
//! because a failed write makes the *agent* reconnect the downlink - outside this model - the
//! harness issues no further own writes).  With cfg.env_settle = false they are not followed by a
//! quiescence barrier, so the task sees them together with the next input ("while notifications
//! are still queued").
//!
//! "link_lost" (how = "write": an own write is made after out_fail and fails; how = "read": the input
//! channel is closed): the hosted downlink is then handled as AgentModel's task handles it - reconnect
//! (`can_restart`, `flush`, `connect` with fresh channels; no `next_event` on that path) or drop; a client
//! task cannot re-attach itself, its runtime (the harness) runs a fresh task on fresh channels.
//!
//! Abstract symbols (keys 1..3, values 1..3) are concretised from `cfg.pool` and mapped back.
use bytes::BytesMut;
use futures::SinkExt;
use h_common::drive;
use parking_lot::Mutex;
use serde_json::{json, Value};
use std::cell::RefCell;
use std::collections::{BTreeMap, HashMap};
use std::num::NonZeroUsize;
use std::sync::Arc;
use std::time::Duration;
use swimos_agent::agent_model::downlink::{
    BoxDownlinkChannel, BoxDownlinkChannelFactory, DownlinkChannelError, DownlinkChannelEvent,
    OpenEventDownlinkAction, OpenMapDownlinkAction, OpenValueDownlinkAction,
};
use swimos_agent::config::{MapDownlinkConfig, SimpleDownlinkConfig};
use swimos_agent::agent_lifecycle::HandlerContext;
use swimos_agent::downlink_lifecycle::{
    MapDownlinkLifecycle, StatelessMapDownlinkLifecycle, StatelessMapLifecycle,
    OnConsumeEvent, OnDownlinkEvent, OnDownlinkSet, OnFailed, OnLinked, OnSynced, OnUnlinked,
};
use swimos_agent::event_handler::{
    ActionContext, DownlinkSpawnOnDone, EventHandler, HandlerAction, HandlerActionExt, HandlerFuture,
    LaneSpawnOnDone, LaneSpawner, LinkSpawner, LocalBoxEventHandler, SideEffect, Spawner,
    StepResult,
};
use swimos_agent::AgentMetadata;
use swimos_agent_protocol::encoding::downlink::DownlinkNotificationEncoder;
use swimos_agent_protocol::encoding::map::MapMessageEncoder;
use swimos_agent_protocol::{DownlinkNotification, MapMessage, MapOperation};
use swimos_api::address::Address;
use swimos_api::agent::{AgentConfig, WarpLaneKind};
use swimos_api::error::{CommanderRegistrationError, DynamicRegistrationError};
use swimos_client_api::{Downlink, DownlinkConfig};
use swimos_downlink::lifecycle::{
    BasicEventDownlinkLifecycle, BasicMapDownlinkLifecycle, BasicValueDownlinkLifecycle,
};
use swimos_downlink::{
    DownlinkTask, EventDownlinkModel, MapDownlinkModel, ValueDownlinkModel, ValueDownlinkSet,
};
use swimos_model::Text;
use swimos_recon::print_recon_compact;
use swimos_utilities::byte_channel::{byte_channel, ByteReader, ByteWriter};
use swimos_utilities::routing::RouteUri;
use tokio::sync::mpsc;
use tokio::time::Instant;
use tokio_util::codec::{Encoder, FramedWrite};

const BUF: usize = 1 << 16;

// ------------------------------------------------------------------------------------ pools

struct Pool {
    keys: Vec<i32>,
    vals: Vec<String>,
}

fn pool(ix: u64) -> Arc<Pool> {
    let (keys, vals): (Vec<i32>, Vec<&str>) = match ix % 3 {
        0 => (vec![1, 2, 3], vec!["a", "b", "c"]),
        1 => (
            vec![i32::MIN, 0, i32::MAX],
            vec!["", "two words", "\"q\" \u{e9}\n@x{1}"],
        ),
        _ => (vec![-1, 7, 1000], vec!["0", "null", "true"]),
    };
    Arc::new(Pool {
        keys,
        vals: vals.into_iter().map(|s| s.to_string()).collect(),
    })
}

impl Pool {
    fn key(&self, a: &Value) -> i32 {
        self.keys[(a.as_u64().expect("abstract key") - 1) as usize]
    }
    fn val(&self, a: &Value) -> String {
        self.vals[(a.as_u64().expect("abstract value") - 1) as usize].clone()
    }
    fn akey(&self, k: &i32) -> i64 {
        self.keys.iter().position(|x| x == k).map(|p| p as i64 + 1).unwrap_or(-1)
    }
    fn aval(&self, v: &str) -> i64 {
        self.vals.iter().position(|x| x == v).map(|p| p as i64 + 1).unwrap_or(-1)
    }
    fn amap<'a, I: Iterator<Item = (&'a i32, &'a String)>>(&self, it: I) -> Value {
        let mut pairs: Vec<(i64, i64)> = it.map(|(k, v)| (self.akey(k), self.aval(v))).collect();
        pairs.sort();
        Value::Array(pairs.into_iter().map(|(k, v)| json!([k, v])).collect())
    }
}

// -------------------------------------------------------------------------------- recording

#[derive(Clone)]
struct Rec {
    log: Arc<Mutex<Vec<Value>>>,
    pool: Arc<Pool>,
}

fn cb(name: &str, key: i64, old: i64, new: i64, map: Value) -> Value {
    json!({"cb": name, "key": key, "old": old, "new": new, "map": map})
}

impl Rec {
    fn new(pool: Arc<Pool>) -> Self {
        Rec { log: Default::default(), pool }
    }
    fn push(&self, v: Value) {
        self.log.lock().push(v);
    }
    fn take(&self) -> Vec<Value> {
        std::mem::take(&mut *self.log.lock())
    }
    fn simple(&self, name: &str) {
        self.push(cb(name, 0, 0, 0, json!([])));
    }
}

async fn settle() {
    tokio::time::sleep(Duration::from_nanos(1)).await;
}

fn addr() -> Address<Text> {
    Address::text(None, "/node", "lane")
}

fn map_message(a: &Value, pool: &Pool) -> Option<MapMessage<i32, String>> {
    Some(match a["k"].as_str().unwrap() {
        "update" => MapMessage::Update { key: pool.key(&a["key"]), value: pool.val(&a["val"]) },
        "remove" => MapMessage::Remove { key: pool.key(&a["key"]) },
        "clear" => MapMessage::Clear,
        "take" => MapMessage::Take(a["n"].as_u64().unwrap()),
        "drop" => MapMessage::Drop(a["n"].as_u64().unwrap()),
        _ => return None,
    })
}

fn map_operation(a: &Value, pool: &Pool) -> Option<MapOperation<i32, String>> {
    Some(match a["k"].as_str().unwrap() {
        "w_update" => MapOperation::Update { key: pool.key(&a["key"]), value: pool.val(&a["val"]) },
        "w_remove" => MapOperation::Remove { key: pool.key(&a["key"]) },
        "w_clear" => MapOperation::Clear,
        _ => return None,
    })
}

/// The frame the downlink runtime would deliver for this input (None: not a notification).
fn notification(kind: &str, a: &Value, pool: &Pool) -> Option<DownlinkNotification<BytesMut>> {
    Some(match a["k"].as_str().unwrap() {
        "linked" => DownlinkNotification::Linked,
        "synced" => DownlinkNotification::Synced,
        "unlinked" => DownlinkNotification::Unlinked,
        "event" => {
            let v = pool.val(&a["val"]);
            let body = format!("{}", print_recon_compact(&v));
            DownlinkNotification::Event { body: BytesMut::from(body.as_bytes()) }
        }
        _ if kind == "map" => {
            let msg = map_message(a, pool)?;
            let mut buf = BytesMut::new();
            MapMessageEncoder::default().encode(msg, &mut buf).expect("encode map message");
            DownlinkNotification::Event { body: buf }
        }
        _ => return None,
    })
}

type NotifWriter = FramedWrite<ByteWriter, DownlinkNotificationEncoder>;

fn channels() -> (NotifWriter, ByteReader, ByteWriter, ByteReader) {
    let (in_tx, in_rx) = byte_channel(NonZeroUsize::new(BUF).unwrap());
    let (out_tx, out_rx) = byte_channel(NonZeroUsize::new(BUF).unwrap());
    (FramedWrite::new(in_tx, DownlinkNotificationEncoder), in_rx, out_tx, out_rx)
}

// ----------------------------------------------------------------------------------- client

enum ClientWrites {
    Map(mpsc::Sender<MapOperation<i32, String>>),
    Value(mpsc::Sender<ValueDownlinkSet<String>>),
    None,
}

fn is_env(a: &Value) -> bool {
    matches!(a["k"].as_str(), Some("drop_handles") | Some("out_fail"))
}

/// The own write a `link_lost` input with how = "write" attempts.
fn lost_write(kind: &str, a: &Value) -> Value {
    if kind == "map" {
        json!({"k": "w_update", "key": a["key"], "val": a["val"]})
    } else {
        json!({"k": "w_set", "val": a["val"]})
    }
}

type ClientTask = tokio::task::JoinHandle<Result<(), swimos_api::error::DownlinkTaskError>>;

/// One run of a client downlink task, attached to its own channels.
struct ClientInst {
    task: ClientTask,
    writes: ClientWrites,
    writer: Option<NotifWriter>,
    out_rx: Option<ByteReader>,
}

fn spawn_client(kind: &str, config: DownlinkConfig, rec: &Rec) -> ClientInst {
    let (writer, in_rx, out_tx, out_rx) = channels();
    let (task, writes) = match kind {
        "map" => {
            let lc = BasicMapDownlinkLifecycle::<i32, String>::default()
                .with(rec.clone())
                .on_linked_blocking(|r| r.simple("linked"))
                .on_synced_blocking(|r, map| {
                    let m = r.pool.amap(map.iter());
                    r.push(cb("synced", 0, 0, 0, m));
                })
                .on_update_blocking(|r, key, map, old, new| {
                    let m = r.pool.amap(map.iter());
                    let o = old.map(|o| r.pool.aval(&o)).unwrap_or(0);
                    r.push(cb("update", r.pool.akey(&key), o, r.pool.aval(new), m));
                })
                .on_removed_blocking(|r, key, map, old| {
                    let m = r.pool.amap(map.iter());
                    r.push(cb("remove", r.pool.akey(&key), r.pool.aval(&old), 0, m));
                })
                .on_clear_blocking(|r, old: BTreeMap<i32, String>| {
                    let m = r.pool.amap(old.iter());
                    r.push(cb("clear", 0, 0, 0, m));
                })
                .on_unlink_blocking(|r| r.simple("unlinked"));
            let (tx, rx) = mpsc::channel(64);
            let model = MapDownlinkModel::new(rx, lc);
            let fut = DownlinkTask::new(model).run(addr(), config, in_rx, out_tx);
            (tokio::spawn(fut), ClientWrites::Map(tx))
        }
        "value" => {
            let lc = BasicValueDownlinkLifecycle::<String>::default()
                .with(rec.clone())
                .on_linked_blocking(|r| r.simple("linked"))
                .on_synced_blocking(|r, v| r.push(cb("synced", 0, 0, r.pool.aval(v), json!([]))))
                .on_event_blocking(|r, v| r.push(cb("event", 0, 0, r.pool.aval(v), json!([]))))
                .on_set_blocking(|r, old, new| {
                    let o = old.map(|o| r.pool.aval(o)).unwrap_or(0);
                    r.push(cb("set", 0, o, r.pool.aval(new), json!([])));
                })
                .on_unlinked_blocking(|r| r.simple("unlinked"));
            let (tx, rx) = mpsc::channel(64);
            let model = ValueDownlinkModel::new(rx, lc);
            let fut = DownlinkTask::new(model).run(addr(), config, in_rx, out_tx);
            (tokio::spawn(fut), ClientWrites::Value(tx))
        }
        _ => {
            let lc = BasicEventDownlinkLifecycle::<String>::default()
                .with(rec.clone())
                .on_linked_blocking(|r| r.simple("linked"))
                .on_event_blocking(|r, v| r.push(cb("event", 0, 0, r.pool.aval(v), json!([]))))
                .on_unlinked_blocking(|r| r.simple("unlinked"));
            let model = EventDownlinkModel::<String, _>::new(lc);
            let fut = DownlinkTask::new(model).run(addr(), config, in_rx, out_tx);
            (tokio::spawn(fut), ClientWrites::None)
        }
    };
    ClientInst { task, writes, writer: Some(writer), out_rx: Some(out_rx) }
}

async fn client_write(writes: &ClientWrites, a: &Value, pool: &Pool) {
    match (writes, a["k"].as_str().unwrap()) {
        (ClientWrites::Map(tx), _) => {
            if let Some(op) = map_operation(a, pool) {
                let _ = tx.send(op).await;
            }
        }
        (ClientWrites::Value(tx), "w_set") => {
            let _ = tx.send(ValueDownlinkSet { to: pool.val(&a["val"]) }).await;
        }
        _ => {}
    }
}

/// Ok(description of how the task ended) or Err(panic message).
async fn finish_client(task: ClientTask) -> Result<String, String> {
    if task.is_finished() {
        match task.await {
            Ok(Ok(())) => Ok("ok".to_string()),
            Ok(Err(e)) => Ok(format!("err: {}", e)),
            Err(e) if e.is_panic() => {
                let p = e.into_panic();
                let msg = p
                    .downcast_ref::<String>()
                    .cloned()
                    .or_else(|| p.downcast_ref::<&str>().map(|s| s.to_string()))
                    .unwrap_or_else(|| "panic".to_string());
                Err(format!("downlink task panicked: {}", msg))
            }
            Err(e) => Ok(format!("join: {}", e)),
        }
    } else {
        task.abort();
        let _ = task.await;
        Ok("running".to_string())
    }
}

async fn run_client(kind: &str, ewns: bool, tou: bool, env_settle: bool, pool: Arc<Pool>, acts: &[Value]) -> Value {
    let rec = Rec::new(pool.clone());
    let config = DownlinkConfig { events_when_not_synced: ewns, terminate_on_unlinked: tou, ..Default::default() };
    let mut inst = spawn_client(kind, config, &rec);
    let mut handles_alive = true;
    settle().await;
    let mut obs = Vec::with_capacity(acts.len());
    for a in acts {
        if let Some(n) = notification(kind, a, &pool) {
            // a terminated task has dropped its reader: the frame is then simply undeliverable
            if let Some(w) = inst.writer.as_mut() {
                let _ = w.send(n).await;
            }
        } else if is_env(a) {
            if a["k"] == "drop_handles" {
                inst.writes = ClientWrites::None;
                handles_alive = false;
            } else {
                inst.out_rx = None;
            }
            if !env_settle {
                obs.push(json!({"cbs": rec.take(), "done": inst.task.is_finished()}));
                continue;
            }
        } else if a["k"] == "link_lost" {
            // The link goes away underneath the downlink: either an own write fails ("write": the
            // output reader is already gone) or the input channel ends ("read").  A stand-alone
            // downlink task cannot re-attach itself: its runtime runs a new task on fresh channels
            // (when the model says the link is re-established: not terminate_on_unlinked, handles alive).
            if a["how"] == "write" {
                client_write(&inst.writes, &lost_write(kind, a), &pool).await;
                settle().await;
            }
            inst.writer = None;
            inst.out_rx = None;
            settle().await;
            if !tou && handles_alive {
                let old = std::mem::replace(&mut inst, spawn_client(kind, config, &rec));
                if let Err(p) = finish_client(old.task).await {
                    return json!({"panic": p, "obs": obs});
                }
            }
        } else {
            client_write(&inst.writes, a, &pool).await;
        }
        settle().await;
        obs.push(json!({"cbs": rec.take(), "done": inst.task.is_finished()}));
    }
    inst.out_rx = None;
    match finish_client(inst.task).await {
        Ok(result) => json!({"obs": obs, "result": result}),
        Err(p) => json!({"panic": p, "obs": obs}),
    }
}

// ----------------------------------------------------------------------------------- hosted

struct FakeAgent;

#[derive(Default)]
struct Capture {
    factory: RefCell<Option<BoxDownlinkChannelFactory<FakeAgent>>>,
}

impl Spawner<FakeAgent> for Capture {
    fn spawn_suspend(&self, _fut: HandlerFuture<FakeAgent>) {
        panic!("harness: unexpected suspended future");
    }
    fn schedule_timer(&self, _at: Instant, _id: u64) {
        panic!("harness: unexpected timer");
    }
}

impl LinkSpawner<FakeAgent> for Capture {
    fn spawn_downlink(
        &self,
        _path: Address<Text>,
        make_channel: BoxDownlinkChannelFactory<FakeAgent>,
        _on_done: DownlinkSpawnOnDone<FakeAgent>,
    ) {
        *self.factory.borrow_mut() = Some(make_channel);
    }
    fn register_commander(&self, _path: Address<Text>) -> Result<u16, CommanderRegistrationError> {
        Err(CommanderRegistrationError::CommanderIdOverflow)
    }
}

impl LaneSpawner<FakeAgent> for Capture {
    fn spawn_warp_lane(
        &self,
        _name: &str,
        _kind: WarpLaneKind,
        _on_done: LaneSpawnOnDone<FakeAgent>,
    ) -> Result<(), DynamicRegistrationError> {
        Err(DynamicRegistrationError::DynamicRegistrationsNotSupported)
    }
}

/// Runs a handler to completion the way the agent task does (step until Complete).
fn run_action<H: HandlerAction<FakeAgent>>(mut handler: H, cap: &Capture, agent: &FakeAgent) -> H::Completion {
    let uri = RouteUri::try_from("/node").expect("uri");
    let params = HashMap::new();
    let config = AgentConfig::DEFAULT;
    let meta = AgentMetadata::new(&uri, &params, &config);
    let mut join_lane_init = HashMap::new();
    let mut command_buffer = BytesMut::new();
    let mut ctx = ActionContext::new(cap, cap, cap, &mut join_lane_init, &mut command_buffer);
    let mut steps = 0usize;
    loop {
        steps += 1;
        if steps > 100_000 {
            panic!("event handler did not complete within 100000 steps");
        }
        match handler.step(&mut ctx, meta, agent) {
            StepResult::Continue { .. } => {}
            StepResult::Fail(err) => panic!("event handler failed: {}", err),
            StepResult::Complete { result, .. } => break result,
        }
    }
}

struct HostedLc(Rec);

type Hnd<'a> = LocalBoxEventHandler<'a, FakeAgent>;

impl HostedLc {
    fn later<'a>(&'a self, v: Value) -> Hnd<'a> {
        // arguments are captured when the downlink creates the handler; the callback "fires"
        // when the agent runs it
        SideEffect::from(move || self.0.push(v)).boxed_local()
    }
}

impl OnLinked<FakeAgent> for HostedLc {
    type OnLinkedHandler<'a> = Hnd<'a> where Self: 'a;
    fn on_linked(&self) -> Self::OnLinkedHandler<'_> {
        self.later(cb("linked", 0, 0, 0, json!([])))
    }
}
impl OnUnlinked<FakeAgent> for HostedLc {
    type OnUnlinkedHandler<'a> = Hnd<'a> where Self: 'a;
    fn on_unlinked(&self) -> Self::OnUnlinkedHandler<'_> {
        self.later(cb("unlinked", 0, 0, 0, json!([])))
    }
}
impl OnFailed<FakeAgent> for HostedLc {
    type OnFailedHandler<'a> = Hnd<'a> where Self: 'a;
    fn on_failed(&self) -> Self::OnFailedHandler<'_> {
        self.later(cb("failed", 0, 0, 0, json!([])))
    }
}
impl OnSynced<String, FakeAgent> for HostedLc {
    type OnSyncedHandler<'a> = Hnd<'a> where Self: 'a;
    fn on_synced<'a>(&'a self, value: &String) -> Self::OnSyncedHandler<'a> {
        self.later(cb("synced", 0, 0, self.0.pool.aval(value), json!([])))
    }
}
impl OnDownlinkEvent<String, FakeAgent> for HostedLc {
    type OnEventHandler<'a> = Hnd<'a> where Self: 'a;
    fn on_event(&self, value: &String) -> Self::OnEventHandler<'_> {
        self.later(cb("event", 0, 0, self.0.pool.aval(value), json!([])))
    }
}
impl OnDownlinkSet<String, FakeAgent> for HostedLc {
    type OnSetHandler<'a> = Hnd<'a> where Self: 'a;
    fn on_set<'a>(&'a self, previous: Option<String>, new_value: &String) -> Self::OnSetHandler<'a> {
        let p = &self.0.pool;
        let o = previous.map(|o| p.aval(&o)).unwrap_or(0);
        self.later(cb("set", 0, o, p.aval(new_value), json!([])))
    }
}
impl OnSynced<(), FakeAgent> for HostedLc {
    type OnSyncedHandler<'a> = Hnd<'a> where Self: 'a;
    fn on_synced<'a>(&'a self, _value: &()) -> Self::OnSyncedHandler<'a> {
        self.later(cb("synced", 0, 0, 0, json!([])))
    }
}
impl OnConsumeEvent<String, FakeAgent> for HostedLc {
    type OnEventHandler<'a> = Hnd<'a> where Self: 'a;
    fn on_event(&self, value: String) -> Self::OnEventHandler<'_> {
        self.later(cb("event", 0, 0, self.0.pool.aval(&value), json!([])))
    }
}

type HMap = HashMap<i32, String>;
type HCtx = HandlerContext<FakeAgent>;

fn map_lifecycle(rec: &Rec) -> impl MapDownlinkLifecycle<i32, String, HMap, FakeAgent> + Send + 'static {
    let (r1, r2, r3, r4, r5, r6, r7) = (rec.clone(), rec.clone(), rec.clone(), rec.clone(), rec.clone(), rec.clone(), rec.clone());
    // arguments are captured when the downlink creates the handler, the callback "fires" when it runs
    fn later(ctx: HCtx, r: &Rec, v: Value) -> impl EventHandler<FakeAgent> + 'static {
        let r = r.clone();
        ctx.effect(move || r.push(v))
    }
    StatelessMapDownlinkLifecycle::<FakeAgent, i32, String, HMap>::default()
        .on_linked(move |ctx: HCtx| later(ctx, &r1, cb("linked", 0, 0, 0, json!([]))))
        .on_unlinked(move |ctx: HCtx| later(ctx, &r2, cb("unlinked", 0, 0, 0, json!([]))))
        .on_failed(move |ctx: HCtx| later(ctx, &r3, cb("failed", 0, 0, 0, json!([]))))
        .on_synced(move |ctx: HCtx, map: &HMap| later(ctx, &r4, cb("synced", 0, 0, 0, r4.pool.amap(map.iter()))))
        .on_update(move |ctx: HCtx, key: i32, map: &HMap, previous: Option<String>, new_value: &String| {
            let p = &r5.pool;
            let o = previous.map(|o| p.aval(&o)).unwrap_or(0);
            later(ctx, &r5, cb("update", p.akey(&key), o, p.aval(new_value), p.amap(map.iter())))
        })
        .on_remove(move |ctx: HCtx, key: i32, map: &HMap, removed: String| {
            let p = &r6.pool;
            later(ctx, &r6, cb("remove", p.akey(&key), p.aval(&removed), 0, p.amap(map.iter())))
        })
        .on_clear(move |ctx: HCtx, map: HMap| later(ctx, &r7, cb("clear", 0, 0, 0, r7.pool.amap(map.iter()))))
}

enum HostedWrites {
    Map(swimos_agent::agent_model::downlink::MapDownlinkHandle<i32, String>),
    Value(swimos_agent::agent_model::downlink::ValueDownlinkHandle<String>),
    Event(#[allow(dead_code)] swimos_agent::agent_model::downlink::EventDownlinkHandle),
}

enum Drive {
    Idle,
    Stopped,
    Failed,
}

/// One round of the agent task's downlink loop: wait for the channel, run the handlers it
/// produces, until it is idle, has stopped (await_ready gave None) or has failed (read / write).
async fn drive_hosted(chan: &mut BoxDownlinkChannel<FakeAgent>, cap: &Capture, agent: &FakeAgent) -> Drive {
    let mut rounds = 0usize;
    loop {
        rounds += 1;
        if rounds > 10_000 {
            panic!("hosted downlink did not become idle within 10000 rounds");
        }
        match tokio::time::timeout(Duration::from_nanos(1), chan.await_ready()).await {
            Err(_) => return Drive::Idle,
            Ok(None) => return Drive::Stopped,
            Ok(Some(Ok(DownlinkChannelEvent::HandlerReady))) => {
                if let Some(h) = chan.next_event(agent) {
                    run_action(h, cap, agent);
                }
            }
            Ok(Some(Ok(_))) => {}
            Ok(Some(Err(DownlinkChannelError::ReadFailed))) => {
                if let Some(h) = chan.next_event(agent) {
                    run_action(h, cap, agent);
                }
                return Drive::Failed;
            }
            Ok(Some(Err(DownlinkChannelError::WriteFailed(_)))) => return Drive::Failed,
        }
    }
}

/// The IO channels of the current attachment, as the harness (= the downlink runtime) holds them.
struct HostedIo {
    writer: Option<NotifWriter>,
    out_rx: Option<ByteReader>,
    kind: swimos_api::agent::DownlinkKind,
}

/// What AgentModel's task does with a hosted downlink until it is idle: drive it and, when it
/// stops or fails (HostedDownlinkEvent::{Stopped, WriterFailed, HandlerReady{failed}}), call
/// `reconnect`: if `can_restart()`, flush, obtain fresh channels from the runtime
/// (`AgentContext::open_downlink`) and `connect()` them (ReconnectDownlink::connect) - no
/// `next_event` runs on that path; otherwise the downlink is dropped.  Returns true once dropped.
async fn agent_round(chan: &mut BoxDownlinkChannel<FakeAgent>, cap: &Capture, agent: &FakeAgent, io: &mut HostedIo) -> bool {
    let mut reconnects = 0usize;
    loop {
        match drive_hosted(chan, cap, agent).await {
            Drive::Idle => return false,
            Drive::Stopped | Drive::Failed => {
                if !chan.can_restart() {
                    return true;
                }
                reconnects += 1;
                if reconnects > 16 {
                    panic!("hosted downlink keeps failing after reconnecting to fresh channels");
                }
                let _ = chan.flush().await;
                // the agent re-opens the downlink by the channel's own address and kind
                assert_eq!(chan.address(), &addr(), "hosted downlink reports a different address");
                assert_eq!(chan.kind(), io.kind, "hosted downlink reports a different kind");
                let (writer, in_rx, out_tx, out_rx) = channels();
                chan.connect(agent, out_tx, in_rx);
                io.writer = Some(writer);
                io.out_rx = Some(out_rx);
            }
        }
    }
}

fn hosted_write(writes: &mut HostedWrites, a: &Value, pool: &Pool) {
    match (writes, a["k"].as_str().unwrap()) {
        (HostedWrites::Map(h), "w_update") => {
            let _ = h.update(pool.key(&a["key"]), pool.val(&a["val"]));
        }
        (HostedWrites::Map(h), "w_remove") => {
            let _ = h.remove(pool.key(&a["key"]));
        }
        (HostedWrites::Map(h), "w_clear") => {
            let _ = h.clear();
        }
        (HostedWrites::Value(h), "w_set") => {
            let _ = h.set(pool.val(&a["val"]));
        }
        _ => {}
    }
}

async fn run_hosted(kind: &str, ewns: bool, tou: bool, env_settle: bool, pool: Arc<Pool>, acts: &[Value]) -> Value {
    let rec = Rec::new(pool.clone());
    let agent = FakeAgent;
    let cap = Capture::default();
    let lc = HostedLc(rec.clone());
    let mut writes = Some(match kind {
        "map" => {
            let config = MapDownlinkConfig { events_when_not_synced: ewns, terminate_on_unlinked: tou };
            // the map lifecycle is built the way agent code builds it (downlink_lifecycle/map: the
            // stateless builder that forwards key / map / previous / new value to the closures)
            let open = OpenMapDownlinkAction::<i32, String, HashMap<i32, String>, _>::new(addr(), map_lifecycle(&rec), config);
            drop(lc);
            HostedWrites::Map(run_action(open, &cap, &agent))
        }
        "value" => {
            let config = SimpleDownlinkConfig { events_when_not_synced: ewns, terminate_on_unlinked: tou };
            let open = OpenValueDownlinkAction::<String, _>::new(addr(), lc, config);
            HostedWrites::Value(run_action(open, &cap, &agent))
        }
        _ => {
            let config = SimpleDownlinkConfig { events_when_not_synced: ewns, terminate_on_unlinked: tou };
            let open = OpenEventDownlinkAction::<String, _>::new(addr(), lc, config, false);
            HostedWrites::Event(run_action(open, &cap, &agent))
        }
    });
    let factory = cap.factory.borrow_mut().take().expect("the open action registered no downlink");
    let (writer, in_rx, out_tx, out_rx) = channels();
    let dl_kind = match kind {
        "map" => swimos_api::agent::DownlinkKind::Map,
        "value" => swimos_api::agent::DownlinkKind::Value,
        _ => swimos_api::agent::DownlinkKind::Event,
    };
    let mut io = HostedIo { writer: Some(writer), out_rx: Some(out_rx), kind: dl_kind };
    let mut chan = factory.create_box(&agent, out_tx, in_rx);
    let mut done = agent_round(&mut chan, &cap, &agent, &mut io).await;
    let mut obs = Vec::with_capacity(acts.len());
    for a in acts {
        if let Some(n) = notification(kind, a, &pool) {
            if let Some(w) = io.writer.as_mut() {
                let _ = w.send(n).await;
            }
        } else if is_env(a) {
            if a["k"] == "drop_handles" {
                writes = None;
            } else {
                io.out_rx = None;
            }
            if !env_settle {
                obs.push(json!({"cbs": rec.take(), "done": done}));
                continue;
            }
        } else if a["k"] == "link_lost" {
            // The link goes away underneath the downlink.  "write": the output reader is already gone
            // (out_fail) and an own write is made: the write stream fails with WriteFailed.  "read":
            // the runtime closes the downlink's input.  In both cases agent_round then does what the
            // agent task does (reconnect to fresh channels if can_restart(), else drop the downlink).
            if a["how"] == "write" {
                if let Some(w) = writes.as_mut() {
                    hosted_write(w, &lost_write(kind, a), &pool);
                }
            } else {
                io.writer = None;
            }
        } else if io.out_rx.is_none() {
            // an ordinary own write after out_fail is not issued on the hosted side (the input
            // link_lost/"write" is the modelled form of "an own write fails")
        } else if let Some(w) = writes.as_mut() {
            hosted_write(w, a, &pool);
        }
        if !done {
            done = agent_round(&mut chan, &cap, &agent, &mut io).await;
        }
        obs.push(json!({"cbs": rec.take(), "done": done}));
    }
    json!({"obs": obs, "result": if done { "stopped" } else { "running" }})
}

// ------------------------------------------------------------------------------------- main

fn run_case(case: &Value) -> Value {
    let cfg = &case["cfg"];
    let kind = cfg["kind"].as_str().expect("cfg.kind").to_string();
    let imp = cfg["impl"].as_str().expect("cfg.impl").to_string();
    let ewns = cfg["ewns"].as_bool().expect("cfg.ewns");
    let tou = cfg["tou"].as_bool().expect("cfg.tou");
    let env_settle = cfg["env_settle"].as_bool().unwrap_or(true);
    let pool = pool(cfg["pool"].as_u64().unwrap_or(0));
    let acts = case["acts"].as_array().expect("acts").clone();
    let rt = tokio::runtime::Builder::new_current_thread()
        .enable_time()
        .start_paused(true)
        .build()
        .expect("runtime");
    rt.block_on(async move {
        if imp == "client" {
            run_client(&kind, ewns, tou, env_settle, pool, &acts).await
        } else {
            run_hosted(&kind, ewns, tou, env_settle, pool, &acts).await
        }
    })
}

fn main() {
    drive(run_case);
}

//! C08: replays input sequences generated from specs/DownlinkState.tla on the real downlinks and
//! reports, per input, the lifecycle callbacks (with their arguments) and whether the downlink has
//! terminated.
//!
//!  * impl = "client": swimos_downlink `DownlinkTask` (value / map / event) spawned on a paused
//!    current-thread runtime, fed through byte channels with the runtime's notification encoding,
//!    with a recording lifecycle built with the public `Basic*DownlinkLifecycle` builders.
//!  * impl = "hosted": the agent-hosted downlinks, obtained exactly as an agent obtains them
//!    (`Open*DownlinkAction` stepped with an `ActionContext` whose `LinkSpawner` captures the
//!    channel factory), then driven the way `AgentModel`'s task drives a `HostedDownlink`:
//!    `await_ready` -> `next_event` -> run the handler to completion.
//!
//! Quiescence: time is paused, so `sleep(1ns)` / `timeout(1ns, ..)` completes exactly when every
//! task is idle; one input is therefore fully processed before the next is sent.
//!
//! Environment inputs: "drop_handles" drops every handle through which the downlink can be written
//! to (client: the action / set senders, so run_io falls into its read-only mode; hosted: the
//! Map/Value/EventDownlinkHandle, so the write stream terminates), "out_fail" drops the reader of
//! the downlink's output channel (client: the next flush fails; hosted: the reader is dropped and,
//! because a failed write makes the *agent* reconnect the downlink - outside this model - the
//! harness issues no further own writes).  With cfg.env_settle = false they are not followed by a
//! quiescence barrier, so the task sees them together with the next input ("while notifications
//! are still queued").
//!
//! Abstract symbols (keys 1..3, values 1..3) are concretised from `cfg.pool` and mapped back.
use bytes::BytesMut;
use futures::SinkExt;
use h_common::drive;
use parking_lot::Mutex;
use serde_json::{json, Value};
use std::cell::RefCell;
use std::collections::{BTreeMap, HashMap};
use std::num::NonZeroUsize;
use std::sync::Arc;
use std::time::Duration;
use swimos_agent::agent_model::downlink::{
    BoxDownlinkChannel, BoxDownlinkChannelFactory, DownlinkChannelError, DownlinkChannelEvent,
    OpenEventDownlinkAction, OpenMapDownlinkAction, OpenValueDownlinkAction,
};
use swimos_agent::config::{MapDownlinkConfig, SimpleDownlinkConfig};
use swimos_agent::downlink_lifecycle::{
    OnConsumeEvent, OnDownlinkClear, OnDownlinkEvent, OnDownlinkRemove, OnDownlinkSet,
    OnDownlinkUpdate, OnFailed, OnLinked, OnSynced, OnUnlinked,
};
use swimos_agent::event_handler::{
    ActionContext, DownlinkSpawnOnDone, HandlerAction, HandlerActionExt, HandlerFuture,
    LaneSpawnOnDone, LaneSpawner, LinkSpawner, LocalBoxEventHandler, SideEffect, Spawner,
    StepResult,
};
use swimos_agent::AgentMetadata;
use swimos_agent_protocol::encoding::downlink::DownlinkNotificationEncoder;
use swimos_agent_protocol::encoding::map::MapMessageEncoder;
use swimos_agent_protocol::{DownlinkNotification, MapMessage, MapOperation};
use swimos_api::address::Address;
use swimos_api::agent::{AgentConfig, WarpLaneKind};
use swimos_api::error::{CommanderRegistrationError, DynamicRegistrationError};
use swimos_client_api::{Downlink, DownlinkConfig};
use swimos_downlink::lifecycle::{
    BasicEventDownlinkLifecycle, BasicMapDownlinkLifecycle, BasicValueDownlinkLifecycle,
};
use swimos_downlink::{
    DownlinkTask, EventDownlinkModel, MapDownlinkModel, ValueDownlinkModel, ValueDownlinkSet,
};
use swimos_model::Text;
use swimos_recon::print_recon_compact;
use swimos_utilities::byte_channel::{byte_channel, ByteReader, ByteWriter};
use swimos_utilities::routing::RouteUri;
use tokio::sync::mpsc;
use tokio::time::Instant;
use tokio_util::codec::{Encoder, FramedWrite};

const BUF: usize = 1 << 16;

// ------------------------------------------------------------------------------------ pools

struct Pool {
    keys: Vec<i32>,
    vals: Vec<String>,
}

fn pool(ix: u64) -> Arc<Pool> {
    let (keys, vals): (Vec<i32>, Vec<&str>) = match ix % 3 {
        0 => (vec![1, 2, 3], vec!["a", "b", "c"]),
        1 => (
            vec![i32::MIN, 0, i32::MAX],
            vec!["", "two words", "\"q\" \u{e9}\n@x{1}"],
        ),
        _ => (vec![-1, 7, 1000], vec!["0", "null", "true"]),
    };
    Arc::new(Pool {
        keys,
        vals: vals.into_iter().map(|s| s.to_string()).collect(),
    })
}

impl Pool {
    fn key(&self, a: &Value) -> i32 {
        self.keys[(a.as_u64().expect("abstract key") - 1) as usize]
    }
    fn val(&self, a: &Value) -> String {
        self.vals[(a.as_u64().expect("abstract value") - 1) as usize].clone()
    }
    fn akey(&self, k: &i32) -> i64 {
        self.keys.iter().position(|x| x == k).map(|p| p as i64 + 1).unwrap_or(-1)
    }
    fn aval(&self, v: &str) -> i64 {
        self.vals.iter().position(|x| x == v).map(|p| p as i64 + 1).unwrap_or(-1)
    }
    fn amap<'a, I: Iterator<Item = (&'a i32, &'a String)>>(&self, it: I) -> Value {
        let mut pairs: Vec<(i64, i64)> = it.map(|(k, v)| (self.akey(k), self.aval(v))).collect();
        pairs.sort();
        Value::Array(pairs.into_iter().map(|(k, v)| json!([k, v])).collect())
    }
}

// -------------------------------------------------------------------------------- recording

#[derive(Clone)]
struct Rec {
    log: Arc<Mutex<Vec<Value>>>,
    pool: Arc<Pool>,
}

fn cb(name: &str, key: i64, old: i64, new: i64, map: Value) -> Value {
    json!({"cb": name, "key": key, "old": old, "new": new, "map": map})
}

impl Rec {
    fn new(pool: Arc<Pool>) -> Self {
        Rec { log: Default::default(), pool }
    }
    fn push(&self, v: Value) {
        self.log.lock().push(v);
    }
    fn take(&self) -> Vec<Value> {
        std::mem::take(&mut *self.log.lock())
    }
    fn simple(&self, name: &str) {
        self.push(cb(name, 0, 0, 0, json!([])));
    }
}

async fn settle() {
    tokio::time::sleep(Duration::from_nanos(1)).await;
}

fn addr() -> Address<Text> {
    Address::text(None, "/node", "lane")
}

fn map_message(a: &Value, pool: &Pool) -> Option<MapMessage<i32, String>> {
    Some(match a["k"].as_str().unwrap() {
        "update" => MapMessage::Update { key: pool.key(&a["key"]), value: pool.val(&a["val"]) },
        "remove" => MapMessage::Remove { key: pool.key(&a["key"]) },
        "clear" => MapMessage::Clear,
        "take" => MapMessage::Take(a["n"].as_u64().unwrap()),
        "drop" => MapMessage::Drop(a["n"].as_u64().unwrap()),
        _ => return None,
    })
}

fn map_operation(a: &Value, pool: &Pool) -> Option<MapOperation<i32, String>> {
    Some(match a["k"].as_str().unwrap() {
        "w_update" => MapOperation::Update { key: pool.key(&a["key"]), value: pool.val(&a["val"]) },
        "w_remove" => MapOperation::Remove { key: pool.key(&a["key"]) },
        "w_clear" => MapOperation::Clear,
        _ => return None,
    })
}

/// The frame the downlink runtime would deliver for this input (None: not a notification).
fn notification(kind: &str, a: &Value, pool: &Pool) -> Option<DownlinkNotification<BytesMut>> {
    Some(match a["k"].as_str().unwrap() {
        "linked" => DownlinkNotification::Linked,
        "synced" => DownlinkNotification::Synced,
        "unlinked" => DownlinkNotification::Unlinked,
        "event" => {
            let v = pool.val(&a["val"]);
            let body = format!("{}", print_recon_compact(&v));
            DownlinkNotification::Event { body: BytesMut::from(body.as_bytes()) }
        }
        _ if kind == "map" => {
            let msg = map_message(a, pool)?;
            let mut buf = BytesMut::new();
            MapMessageEncoder::default().encode(msg, &mut buf).expect("encode map message");
            DownlinkNotification::Event { body: buf }
        }
        _ => return None,
    })
}

type NotifWriter = FramedWrite<ByteWriter, DownlinkNotificationEncoder>;

fn channels() -> (NotifWriter, ByteReader, ByteWriter, ByteReader) {
    let (in_tx, in_rx) = byte_channel(NonZeroUsize::new(BUF).unwrap());
    let (out_tx, out_rx) = byte_channel(NonZeroUsize::new(BUF).unwrap());
    (FramedWrite::new(in_tx, DownlinkNotificationEncoder), in_rx, out_tx, out_rx)
}

// ----------------------------------------------------------------------------------- client

enum ClientWrites {
    Map(mpsc::Sender<MapOperation<i32, String>>),
    Value(mpsc::Sender<ValueDownlinkSet<String>>),
    None,
}

fn is_env(a: &Value) -> bool {
    matches!(a["k"].as_str(), Some("drop_handles") | Some("out_fail"))
}

async fn run_client(kind: &str, ewns: bool, tou: bool, env_settle: bool, pool: Arc<Pool>, acts: &[Value]) -> Value {
    let rec = Rec::new(pool.clone());
    let config = DownlinkConfig {
        events_when_not_synced: ewns,
        terminate_on_unlinked: tou,
        buffer_size: NonZeroUsize::new(1024).unwrap(),
    };
    let (mut writer, in_rx, out_tx, out_rx) = channels();
    let mut out_rx = Some(out_rx);
    let (task, mut writes) = match kind {
        "map" => {
            let lc = BasicMapDownlinkLifecycle::<i32, String>::default()
                .with(rec.clone())
                .on_linked_blocking(|r| r.simple("linked"))
                .on_synced_blocking(|r, map| {
                    let m = r.pool.amap(map.iter());
                    r.push(cb("synced", 0, 0, 0, m));
                })
                .on_update_blocking(|r, key, map, old, new| {
                    let m = r.pool.amap(map.iter());
                    let o = old.map(|o| r.pool.aval(&o)).unwrap_or(0);
                    r.push(cb("update", r.pool.akey(&key), o, r.pool.aval(new), m));
                })
                .on_removed_blocking(|r, key, map, old| {
                    let m = r.pool.amap(map.iter());
                    r.push(cb("remove", r.pool.akey(&key), r.pool.aval(&old), 0, m));
                })
                .on_clear_blocking(|r, old: BTreeMap<i32, String>| {
                    let m = r.pool.amap(old.iter());
                    r.push(cb("clear", 0, 0, 0, m));
                })
                .on_unlink_blocking(|r| r.simple("unlinked"));
            let (tx, rx) = mpsc::channel(64);
            let model = MapDownlinkModel::new(rx, lc);
            let fut = DownlinkTask::new(model).run(addr(), config, in_rx, out_tx);
            (tokio::spawn(fut), ClientWrites::Map(tx))
        }
        "value" => {
            let lc = BasicValueDownlinkLifecycle::<String>::default()
                .with(rec.clone())
                .on_linked_blocking(|r| r.simple("linked"))
                .on_synced_blocking(|r, v| r.push(cb("synced", 0, 0, r.pool.aval(v), json!([]))))
                .on_event_blocking(|r, v| r.push(cb("event", 0, 0, r.pool.aval(v), json!([]))))
                .on_set_blocking(|r, old, new| {
                    let o = old.map(|o| r.pool.aval(o)).unwrap_or(0);
                    r.push(cb("set", 0, o, r.pool.aval(new), json!([])));
                })
                .on_unlinked_blocking(|r| r.simple("unlinked"));
            let (tx, rx) = mpsc::channel(64);
            let model = ValueDownlinkModel::new(rx, lc);
            let fut = DownlinkTask::new(model).run(addr(), config, in_rx, out_tx);
            (tokio::spawn(fut), ClientWrites::Value(tx))
        }
        _ => {
            let lc = BasicEventDownlinkLifecycle::<String>::default()
                .with(rec.clone())
                .on_linked_blocking(|r| r.simple("linked"))
                .on_event_blocking(|r, v| r.push(cb("event", 0, 0, r.pool.aval(v), json!([]))))
                .on_unlinked_blocking(|r| r.simple("unlinked"));
            let model = EventDownlinkModel::<String, _>::new(lc);
            let fut = DownlinkTask::new(model).run(addr(), config, in_rx, out_tx);
            (tokio::spawn(fut), ClientWrites::None)
        }
    };
    settle().await;
    let mut obs = Vec::with_capacity(acts.len());
    for a in acts {
        if let Some(n) = notification(kind, a, &pool) {
            // a terminated task has dropped its reader: the frame is then simply undeliverable
            let _ = writer.send(n).await;
        } else if is_env(a) {
            if a["k"] == "drop_handles" {
                writes = ClientWrites::None;
            } else {
                out_rx = None;
            }
            if !env_settle {
                obs.push(json!({"cbs": rec.take(), "done": task.is_finished()}));
                continue;
            }
        } else {
            match (&writes, a["k"].as_str().unwrap()) {
                (ClientWrites::Map(tx), _) => {
                    if let Some(op) = map_operation(a, &pool) {
                        let _ = tx.send(op).await;
                    }
                }
                (ClientWrites::Value(tx), "w_set") => {
                    let _ = tx.send(ValueDownlinkSet { to: pool.val(&a["val"]) }).await;
                }
                _ => {}
            }
        }
        settle().await;
        obs.push(json!({"cbs": rec.take(), "done": task.is_finished()}));
    }
    drop(out_rx);
    let result = if task.is_finished() {
        match task.await {
            Ok(Ok(())) => "ok".to_string(),
            Ok(Err(e)) => format!("err: {}", e),
            Err(e) if e.is_panic() => {
                let p = e.into_panic();
                let msg = p
                    .downcast_ref::<String>()
                    .cloned()
                    .or_else(|| p.downcast_ref::<&str>().map(|s| s.to_string()))
                    .unwrap_or_else(|| "panic".to_string());
                return json!({"panic": format!("downlink task panicked: {}", msg), "obs": obs});
            }
            Err(e) => format!("join: {}", e),
        }
    } else {
        task.abort();
        let _ = task.await;
        "running".to_string()
    };
    json!({"obs": obs, "result": result})
}

// ----------------------------------------------------------------------------------- hosted

struct FakeAgent;

#[derive(Default)]
struct Capture {
    factory: RefCell<Option<BoxDownlinkChannelFactory<FakeAgent>>>,
}

impl Spawner<FakeAgent> for Capture {
    fn spawn_suspend(&self, _fut: HandlerFuture<FakeAgent>) {
        panic!("harness: unexpected suspended future");
    }
    fn schedule_timer(&self, _at: Instant, _id: u64) {
        panic!("harness: unexpected timer");
    }
}

impl LinkSpawner<FakeAgent> for Capture {
    fn spawn_downlink(
        &self,
        _path: Address<Text>,
        make_channel: BoxDownlinkChannelFactory<FakeAgent>,
        _on_done: DownlinkSpawnOnDone<FakeAgent>,
    ) {
        *self.factory.borrow_mut() = Some(make_channel);
    }
    fn register_commander(&self, _path: Address<Text>) -> Result<u16, CommanderRegistrationError> {
        Err(CommanderRegistrationError::CommanderIdOverflow)
    }
}

impl LaneSpawner<FakeAgent> for Capture {
    fn spawn_warp_lane(
        &self,
        _name: &str,
        _kind: WarpLaneKind,
        _on_done: LaneSpawnOnDone<FakeAgent>,
    ) -> Result<(), DynamicRegistrationError> {
        Err(DynamicRegistrationError::DynamicRegistrationsNotSupported)
    }
}

/// Runs a handler to completion the way the agent task does (step until Complete).
fn run_action<H: HandlerAction<FakeAgent>>(mut handler: H, cap: &Capture, agent: &FakeAgent) -> H::Completion {
    let uri = RouteUri::try_from("/node").expect("uri");
    let params = HashMap::new();
    let config = AgentConfig::DEFAULT;
    let meta = AgentMetadata::new(&uri, &params, &config);
    let mut join_lane_init = HashMap::new();
    let mut command_buffer = BytesMut::new();
    let mut ctx = ActionContext::new(cap, cap, cap, &mut join_lane_init, &mut command_buffer);
    let mut steps = 0usize;
    loop {
        steps += 1;
        if steps > 100_000 {
            panic!("event handler did not complete within 100000 steps");
        }
        match handler.step(&mut ctx, meta, agent) {
            StepResult::Continue { .. } => {}
            StepResult::Fail(err) => panic!("event handler failed: {}", err),
            StepResult::Complete { result, .. } => break result,
        }
    }
}

struct HostedLc(Rec);

type Hnd<'a> = LocalBoxEventHandler<'a, FakeAgent>;

impl HostedLc {
    fn later<'a>(&'a self, v: Value) -> Hnd<'a> {
        // arguments are captured when the downlink creates the handler; the callback "fires"
        // when the agent runs it
        SideEffect::from(move || self.0.push(v)).boxed_local()
    }
}

impl OnLinked<FakeAgent> for HostedLc {
    type OnLinkedHandler<'a> = Hnd<'a> where Self: 'a;
    fn on_linked(&self) -> Self::OnLinkedHandler<'_> {
        self.later(cb("linked", 0, 0, 0, json!([])))
    }
}
impl OnUnlinked<FakeAgent> for HostedLc {
    type OnUnlinkedHandler<'a> = Hnd<'a> where Self: 'a;
    fn on_unlinked(&self) -> Self::OnUnlinkedHandler<'_> {
        self.later(cb("unlinked", 0, 0, 0, json!([])))
    }
}
impl OnFailed<FakeAgent> for HostedLc {
    type OnFailedHandler<'a> = Hnd<'a> where Self: 'a;
    fn on_failed(&self) -> Self::OnFailedHandler<'_> {
        self.later(cb("failed", 0, 0, 0, json!([])))
    }
}
impl OnSynced<HashMap<i32, String>, FakeAgent> for HostedLc {
    type OnSyncedHandler<'a> = Hnd<'a> where Self: 'a;
    fn on_synced<'a>(&'a self, value: &HashMap<i32, String>) -> Self::OnSyncedHandler<'a> {
        self.later(cb("synced", 0, 0, 0, self.0.pool.amap(value.iter())))
    }
}
impl OnDownlinkUpdate<i32, String, HashMap<i32, String>, FakeAgent> for HostedLc {
    type OnUpdateHandler<'a> = Hnd<'a> where Self: 'a;
    fn on_update<'a>(
        &'a self,
        key: i32,
        map: &HashMap<i32, String>,
        previous: Option<String>,
        new_value: &String,
    ) -> Self::OnUpdateHandler<'a> {
        let p = &self.0.pool;
        let o = previous.map(|o| p.aval(&o)).unwrap_or(0);
        self.later(cb("update", p.akey(&key), o, p.aval(new_value), p.amap(map.iter())))
    }
}
impl OnDownlinkRemove<i32, String, HashMap<i32, String>, FakeAgent> for HostedLc {
    type OnRemoveHandler<'a> = Hnd<'a> where Self: 'a;
    fn on_remove<'a>(&'a self, key: i32, map: &HashMap<i32, String>, removed: String) -> Self::OnRemoveHandler<'a> {
        let p = &self.0.pool;
        self.later(cb("remove", p.akey(&key), p.aval(&removed), 0, p.amap(map.iter())))
    }
}
impl OnDownlinkClear<HashMap<i32, String>, FakeAgent> for HostedLc {
    type OnClearHandler<'a> = Hnd<'a> where Self: 'a;
    fn on_clear(&self, map: HashMap<i32, String>) -> Self::OnClearHandler<'_> {
        self.later(cb("clear", 0, 0, 0, self.0.pool.amap(map.iter())))
    }
}
impl OnSynced<String, FakeAgent> for HostedLc {
    type OnSyncedHandler<'a> = Hnd<'a> where Self: 'a;
    fn on_synced<'a>(&'a self, value: &String) -> Self::OnSyncedHandler<'a> {
        self.later(cb("synced", 0, 0, self.0.pool.aval(value), json!([])))
    }
}
impl OnDownlinkEvent<String, FakeAgent> for HostedLc {
    type OnEventHandler<'a> = Hnd<'a> where Self: 'a;
    fn on_event(&self, value: &String) -> Self::OnEventHandler<'_> {
        self.later(cb("event", 0, 0, self.0.pool.aval(value), json!([])))
    }
}
impl OnDownlinkSet<String, FakeAgent> for HostedLc {
    type OnSetHandler<'a> = Hnd<'a> where Self: 'a;
    fn on_set<'a>(&'a self, previous: Option<String>, new_value: &String) -> Self::OnSetHandler<'a> {
        let p = &self.0.pool;
        let o = previous.map(|o| p.aval(&o)).unwrap_or(0);
        self.later(cb("set", 0, o, p.aval(new_value), json!([])))
    }
}
impl OnSynced<(), FakeAgent> for HostedLc {
    type OnSyncedHandler<'a> = Hnd<'a> where Self: 'a;
    fn on_synced<'a>(&'a self, _value: &()) -> Self::OnSyncedHandler<'a> {
        self.later(cb("synced", 0, 0, 0, json!([])))
    }
}
impl OnConsumeEvent<String, FakeAgent> for HostedLc {
    type OnEventHandler<'a> = Hnd<'a> where Self: 'a;
    fn on_event(&self, value: String) -> Self::OnEventHandler<'_> {
        self.later(cb("event", 0, 0, self.0.pool.aval(&value), json!([])))
    }
}

enum HostedWrites {
    Map(swimos_agent::agent_model::downlink::MapDownlinkHandle<i32, String>),
    Value(swimos_agent::agent_model::downlink::ValueDownlinkHandle<String>),
    Event(#[allow(dead_code)] swimos_agent::agent_model::downlink::EventDownlinkHandle),
}

/// One round of the agent task's downlink loop: wait for the channel, run the handlers it
/// produces, until it is idle (returns false) or has stopped (returns true).
async fn drive_hosted(chan: &mut BoxDownlinkChannel<FakeAgent>, cap: &Capture, agent: &FakeAgent) -> bool {
    let mut rounds = 0usize;
    loop {
        rounds += 1;
        if rounds > 10_000 {
            panic!("hosted downlink did not become idle within 10000 rounds");
        }
        match tokio::time::timeout(Duration::from_nanos(1), chan.await_ready()).await {
            Err(_) => return false,
            Ok(None) => return true,
            Ok(Some(Ok(DownlinkChannelEvent::HandlerReady))) => {
                if let Some(h) = chan.next_event(agent) {
                    run_action(h, cap, agent);
                }
            }
            Ok(Some(Ok(_))) => {}
            Ok(Some(Err(DownlinkChannelError::ReadFailed))) => {
                if let Some(h) = chan.next_event(agent) {
                    run_action(h, cap, agent);
                }
                return true;
            }
            Ok(Some(Err(DownlinkChannelError::WriteFailed(_)))) => return true,
        }
    }
}

async fn run_hosted(kind: &str, ewns: bool, tou: bool, env_settle: bool, pool: Arc<Pool>, acts: &[Value]) -> Value {
    let rec = Rec::new(pool.clone());
    let agent = FakeAgent;
    let cap = Capture::default();
    let lc = HostedLc(rec.clone());
    let mut writes = Some(match kind {
        "map" => {
            let config = MapDownlinkConfig { events_when_not_synced: ewns, terminate_on_unlinked: tou };
            let open = OpenMapDownlinkAction::<i32, String, HashMap<i32, String>, _>::new(addr(), lc, config);
            HostedWrites::Map(run_action(open, &cap, &agent))
        }
        "value" => {
            let config = SimpleDownlinkConfig { events_when_not_synced: ewns, terminate_on_unlinked: tou };
            let open = OpenValueDownlinkAction::<String, _>::new(addr(), lc, config);
            HostedWrites::Value(run_action(open, &cap, &agent))
        }
        _ => {
            let config = SimpleDownlinkConfig { events_when_not_synced: ewns, terminate_on_unlinked: tou };
            let open = OpenEventDownlinkAction::<String, _>::new(addr(), lc, config, false);
            HostedWrites::Event(run_action(open, &cap, &agent))
        }
    });
    let factory = cap.factory.borrow_mut().take().expect("the open action registered no downlink");
    let (mut writer, in_rx, out_tx, out_rx) = channels();
    let mut out_rx = Some(out_rx);
    let mut chan = factory.create_box(&agent, out_tx, in_rx);
    let mut done = drive_hosted(&mut chan, &cap, &agent).await;
    let mut obs = Vec::with_capacity(acts.len());
    for a in acts {
        if let Some(n) = notification(kind, a, &pool) {
            let _ = writer.send(n).await;
        } else if is_env(a) {
            if a["k"] == "drop_handles" {
                writes = None;
            } else {
                out_rx = None;
            }
            if !env_settle {
                obs.push(json!({"cbs": rec.take(), "done": done}));
                continue;
            }
        } else if out_rx.is_none() {
            // a write into the failed output would make the agent reconnect the downlink: not modelled
        } else if let Some(writes) = writes.as_mut() {
            match (writes, a["k"].as_str().unwrap()) {
                (HostedWrites::Map(h), "w_update") => {
                    let _ = h.update(pool.key(&a["key"]), pool.val(&a["val"]));
                }
                (HostedWrites::Map(h), "w_remove") => {
                    let _ = h.remove(pool.key(&a["key"]));
                }
                (HostedWrites::Map(h), "w_clear") => {
                    let _ = h.clear();
                }
                (HostedWrites::Value(h), "w_set") => {
                    let _ = h.set(pool.val(&a["val"]));
                }
                _ => {}
            }
        }
        if !done {
            // once the channel reports that it has stopped the agent task drops it (or reconnects it)
            done = drive_hosted(&mut chan, &cap, &agent).await;
        }
        obs.push(json!({"cbs": rec.take(), "done": done}));
    }
    json!({"obs": obs, "result": if done { "stopped" } else { "running" }})
}

// ------------------------------------------------------------------------------------- main

fn run_case(case: &Value) -> Value {
    let cfg = &case["cfg"];
    let kind = cfg["kind"].as_str().expect("cfg.kind").to_string();
    let imp = cfg["impl"].as_str().expect("cfg.impl").to_string();
    let ewns = cfg["ewns"].as_bool().expect("cfg.ewns");
    let tou = cfg["tou"].as_bool().expect("cfg.tou");
    let env_settle = cfg["env_settle"].as_bool().unwrap_or(true);
    let pool = pool(cfg["pool"].as_u64().unwrap_or(0));
    let acts = case["acts"].as_array().expect("acts").clone();
    let rt = tokio::runtime::Builder::new_current_thread()
        .enable_time()
        .start_paused(true)
        .build()
        .expect("runtime");
    rt.block_on(async move {
        if imp == "client" {
            run_client(&kind, ewns, tou, env_settle, pool, &acts).await
        } else {
            run_hosted(&kind, ewns, tou, env_settle, pool, &acts).await
        }
    })
}

fn main() {
    drive(run_case);
}

//! C17 - binds specs/TimeoutCoord.tla (M) and specs/TimeoutCoordAbs.tla (P) to the real
//! swimos_runtime::timeout_coord::{Voter, Receiver}.
//!
//!  mode "seq"  : operation sequences (paths of the sequential state graph) called one after another on
//!                the real downlink_timeout_coordinator (n = 2) / agent_timeout_coordinator (n = 3).
//!  mode "conc" : interleavings of atomic steps (paths of the concurrent state graph) imposed on real OS
//!                threads: every party runs in its own thread, the cfg(swimos_verif) hook parks it in front
//!                of every atomic access and the controller grants one access at a time (baton passing).
//!  `stress`    : free-running threads, no scheduler; call / return / wake events stamped by one global
//!                SeqCst counter, to be validated against P (linearizability) by TLC.
//!
//! Every mode also returns the event history "ev" (call / ret / wake) in the format of
//! specs/Trace_TimeoutCoordAbs.tla.
use serde_json::{json, Value};
use std::cell::RefCell;
use std::future::Future;
use std::panic::{catch_unwind, AssertUnwindSafe};
use std::pin::Pin;
use std::sync::atomic::{AtomicU64, AtomicUsize, Ordering};
use std::sync::mpsc::{channel, Receiver as ChanRx, RecvTimeoutError, Sender};
use std::sync::{Arc, Mutex};
use std::task::{Context, Poll, Wake, Waker};
use std::thread;
use std::time::{Duration, Instant};
use swimos_runtime::verif_hooks::timeout_coord::{
    agent_timeout_coordinator, downlink_timeout_coordinator, verif_sched, Receiver, VoteResult, Voter,
};

// ------------------------------------------------------------------------------------- event log

/// One global stamp counter; every thread keeps its own buffer (merged by stamp afterwards), so that
/// logging adds no lock between the threads under test.
struct Log {
    seq: AtomicU64,
}

thread_local! {
    static BUF: RefCell<Vec<(u64, Value)>> = const { RefCell::new(Vec::new()) };
}

impl Log {
    fn new() -> Arc<Log> {
        Arc::new(Log { seq: AtomicU64::new(0) })
    }
    fn push(&self, ev: Value) {
        let s = self.seq.fetch_add(1, Ordering::SeqCst);
        BUF.with(|b| b.borrow_mut().push((s, ev)));
    }
}

fn take_buf() -> Vec<(u64, Value)> {
    BUF.with(|b| std::mem::take(&mut *b.borrow_mut()))
}

fn merge(mut parts: Vec<(u64, Value)>) -> Vec<Value> {
    parts.sort_by_key(|(s, _)| *s);
    parts.into_iter().map(|(_, v)| v).collect()
}

/// The receiver's waker: logs the wake-up at the moment it fires.
struct LogWaker {
    log: Arc<Log>,
    count: AtomicUsize,
    parked: Mutex<Option<thread::Thread>>,
}

impl Wake for LogWaker {
    fn wake(self: Arc<Self>) {
        self.wake_by_ref()
    }
    fn wake_by_ref(self: &Arc<Self>) {
        self.log.push(json!({"k": "wake"}));
        self.count.fetch_add(1, Ordering::SeqCst);
        if let Some(t) = &*self.parked.lock().unwrap() {
            t.unpark();
        }
    }
}

fn log_waker(log: &Arc<Log>) -> (Arc<LogWaker>, Waker) {
    let w = Arc::new(LogWaker { log: log.clone(), count: AtomicUsize::new(0), parked: Mutex::new(None) });
    (w.clone(), Waker::from(w))
}

// ------------------------------------------------------------------------------------- the real thing

fn make(n: usize) -> (Vec<Option<Voter>>, Receiver) {
    match n {
        2 => {
            let (a, b, r) = downlink_timeout_coordinator();
            (vec![Some(a), Some(b)], r)
        }
        3 => {
            let (a, b, c, r) = agent_timeout_coordinator();
            (vec![Some(a), Some(b), Some(c)], r)
        }
        _ => panic!("harness: unsupported party count {}", n),
    }
}

fn res_str(r: VoteResult) -> &'static str {
    match r {
        VoteResult::Unanimous => "U",
        VoteResult::UnanimityPending => "P",
    }
}

/// One operation of a voter on the calling thread, with call / ret events.
fn voter_op(log: &Log, t: usize, slot: &mut Option<Voter>, op: &str) -> &'static str {
    log.push(json!({"k": "call", "t": t, "op": op}));
    let r = match op {
        "vote" => res_str(slot.as_ref().expect("harness: voter gone").vote()),
        "rescind" => res_str(slot.as_ref().expect("harness: voter gone").rescind()),
        "drop" => {
            drop(slot.take().expect("harness: voter gone"));
            "dropped"
        }
        other => panic!("harness: bad op {}", other),
    };
    log.push(json!({"k": "ret", "t": t, "op": op, "r": r}));
    r
}

fn poll_op(log: &Log, t: usize, rx: &mut Receiver, waker: &Waker) -> &'static str {
    log.push(json!({"k": "call", "t": t, "op": "poll"}));
    let mut cx = Context::from_waker(waker);
    let r = match Pin::new(rx).poll(&mut cx) {
        Poll::Ready(()) => "ready",
        Poll::Pending => "pending",
    };
    log.push(json!({"k": "ret", "t": t, "op": "poll", "r": r}));
    r
}

// ------------------------------------------------------------------------------------- mode "seq"

fn run_seq(case: &Value) -> Value {
    let n = case["cfg"]["n"].as_u64().unwrap() as usize;
    let acts = case["acts"].as_array().unwrap();
    let log = Log::new();
    take_buf();
    let (mut voters, mut rx) = make(n);
    let (wc, waker) = log_waker(&log);
    let mut obs = Vec::with_capacity(acts.len());
    for a in acts {
        let t = a["t"].as_u64().unwrap() as usize;
        let op = a["op"].as_str().unwrap();
        let w0 = wc.count.load(Ordering::SeqCst);
        let r = if t == n { poll_op(&log, t, &mut rx, &waker) } else { voter_op(&log, t, &mut voters[t], op) };
        let woke = wc.count.load(Ordering::SeqCst) > w0;
        obs.push(json!({"r": r, "woke": woke}));
    }
    // The remaining voters are forgotten, not dropped: a drop is an operation and only happens when asked.
    for v in voters.into_iter().flatten() {
        std::mem::forget(v);
    }
    json!({"obs": obs, "ev": merge(take_buf())})
}

// ------------------------------------------------------------------------------------- mode "conc"

enum Cmd {
    Op(String),
    Go,
}

enum Report {
    At(&'static str),
    Ret(&'static str),
    Panic(String),
}

struct WorkerCtx {
    id: usize,
    report: Sender<(usize, Report)>,
    cmd: ChanRx<Cmd>,
}

thread_local! {
    static CTX: RefCell<Option<WorkerCtx>> = const { RefCell::new(None) };
}

/// The scheduler hook: runs in front of every atomic access of the code under test.
fn hook(name: &'static str) {
    CTX.with(|c| {
        let c = c.borrow();
        let c = c.as_ref().expect("harness: hook without context");
        let _ = c.report.send((c.id, Report::At(name)));
        loop {
            match c.cmd.recv() {
                Ok(Cmd::Go) => break,
                Ok(Cmd::Op(_)) => continue,
                // the controller has abandoned the case: stay parked for good (no CPU, dies with the process)
                Err(_) => loop {
                    thread::park();
                },
            }
        }
    })
}

enum Party {
    V(Option<Voter>),
    R(Receiver, Waker),
}

fn worker(id: usize, mut me: Party, log: Arc<Log>, cmd: ChanRx<Cmd>, report: Sender<(usize, Report)>) -> Vec<(u64, Value)> {
    CTX.with(|c| *c.borrow_mut() = Some(WorkerCtx { id, report: report.clone(), cmd }));
    verif_sched::set_verif_hook(Some(hook));
    loop {
        let next = CTX.with(|c| c.borrow().as_ref().unwrap().cmd.recv());
        match next {
            Ok(Cmd::Op(op)) => {
                let r = catch_unwind(AssertUnwindSafe(|| match &mut me {
                    Party::V(slot) => voter_op(&log, id, slot, &op),
                    Party::R(rx, waker) => poll_op(&log, id, rx, waker),
                }));
                let rep = match r {
                    Ok(r) => Report::Ret(r),
                    Err(e) => Report::Panic(
                        e.downcast_ref::<String>().cloned().or_else(|| e.downcast_ref::<&str>().map(|s| s.to_string())).unwrap_or_else(|| "panic".into()),
                    ),
                };
                let _ = report.send((id, rep));
            }
            Ok(Cmd::Go) => {}
            Err(_) => break,
        }
    }
    verif_sched::set_verif_hook(None);
    // forgetting instead of dropping: an unrequested drop would be an unlogged vote
    if let Party::V(Some(v)) = me {
        std::mem::forget(v);
    }
    take_buf()
}

#[derive(Clone, PartialEq)]
enum St {
    Idle,
    Parked(&'static str),
    Returned(&'static str),
    Dead,
}

/// A thread that does not reach its next interleaving point (or return) within this time is hung.  Generous,
/// because the machine may be heavily loaded; shortened after the first hang so a hanging mutant stays cheap.
static HANGS: AtomicUsize = AtomicUsize::new(0);
fn step_timeout() -> Duration {
    if HANGS.load(Ordering::SeqCst) == 0 {
        Duration::from_secs(45)
    } else {
        Duration::from_secs(3)
    }
}

fn run_conc(case: &Value) -> Value {
    let n = case["cfg"]["n"].as_u64().unwrap() as usize;
    let acts = case["acts"].as_array().unwrap();
    let log = Log::new();
    take_buf();
    let (voters, rx) = make(n);
    let (wc, waker) = log_waker(&log);
    let (rep_tx, rep_rx) = channel::<(usize, Report)>();
    let mut cmds: Vec<Sender<Cmd>> = Vec::new();
    let mut handles = Vec::new();
    let mut parties: Vec<Party> = voters.into_iter().map(Party::V).collect();
    parties.push(Party::R(rx, waker));
    for (id, p) in parties.into_iter().enumerate() {
        let (tx, crx) = channel::<Cmd>();
        cmds.push(tx);
        let (l, r) = (log.clone(), rep_tx.clone());
        handles.push(thread::spawn(move || worker(id, p, l, crx, r)));
    }
    let mut st = vec![St::Idle; n + 1];
    let mut hang: Option<String> = None;
    let mut panic_msg: Option<String> = None;
    let mut obs: Vec<Value> = Vec::with_capacity(acts.len());

    // wait until thread t is parked at its next access or has returned
    let wait = |t: usize, st: &mut Vec<St>, hang: &mut Option<String>, panic_msg: &mut Option<String>| -> Value {
        let patience = step_timeout();
        match rep_rx.recv_timeout(patience) {
            Ok((id, rep)) => {
                assert_eq!(id, t, "harness: report from a thread that was not running");
                match rep {
                    Report::At(name) => {
                        st[t] = St::Parked(name);
                        json!({"at": name})
                    }
                    Report::Ret(r) => {
                        st[t] = St::Returned(r);
                        json!({"at": "ret"})
                    }
                    Report::Panic(m) => {
                        st[t] = St::Dead;
                        *panic_msg = Some(m.clone());
                        json!({"at": "panic"})
                    }
                }
            }
            Err(RecvTimeoutError::Timeout) | Err(RecvTimeoutError::Disconnected) => {
                st[t] = St::Dead;
                HANGS.fetch_add(1, Ordering::SeqCst);
                *hang = Some(format!("thread {} made no progress for {:?} between two interleaving points", t, patience));
                json!({"at": "hang"})
            }
        }
    };

    for a in acts {
        if hang.is_some() || panic_msg.is_some() {
            break;
        }
        let k = a["k"].as_str().unwrap();
        let t = a["t"].as_u64().unwrap() as usize;
        let o = match k {
            "call" => {
                if st[t] != St::Idle {
                    json!({"err": "busy"})
                } else {
                    let _ = cmds[t].send(Cmd::Op(a["op"].as_str().unwrap().to_string()));
                    wait(t, &mut st, &mut hang, &mut panic_msg)
                }
            }
            "step" => {
                if let St::Parked(at) = st[t].clone() {
                    let w0 = wc.count.load(Ordering::SeqCst);
                    let _ = cmds[t].send(Cmd::Go);
                    let mut o = wait(t, &mut st, &mut hang, &mut panic_msg);
                    if at == "wake" {
                        o["woke"] = json!(wc.count.load(Ordering::SeqCst) > w0);
                    }
                    o
                } else {
                    json!({"err": "not parked"})
                }
            }
            "local" => json!({}),
            "ret" => {
                if let St::Returned(r) = st[t].clone() {
                    st[t] = St::Idle;
                    json!({"r": r})
                } else {
                    json!({"err": "not returned"})
                }
            }
            other => panic!("harness: bad act {}", other),
        };
        obs.push(o);
    }
    // let every thread that is inside an operation finish it (bounded), in thread order
    for t in 0..=n {
        let mut budget = 200;
        while let St::Parked(_) = st[t] {
            if budget == 0 {
                hang = Some(format!("thread {} did not finish its operation within 200 atomic steps running alone", t));
                break;
            }
            budget -= 1;
            let _ = cmds[t].send(Cmd::Go);
            wait(t, &mut st, &mut hang, &mut panic_msg);
        }
    }
    let abandoned = hang.is_some();
    drop(cmds);
    let mut parts = take_buf();
    for (t, h) in handles.into_iter().enumerate() {
        if abandoned && st[t] == St::Dead || matches!(st[t], St::Parked(_)) {
            continue; // leaked: parked for good
        }
        if let Ok(p) = h.join() {
            parts.extend(p);
        }
    }
    let mut out = json!({"obs": obs, "ev": merge(parts)});
    if let Some(h) = hang {
        out["hang"] = json!(h);
    }
    if let Some(p) = panic_msg {
        out["panic"] = json!(p);
    }
    out
}

pub fn run_case(case: &Value) -> Value {
    match case["cfg"]["mode"].as_str().unwrap_or("seq") {
        "seq" => run_seq(case),
        "conc" => run_conc(case),
        other => panic!("harness: bad mode {}", other),
    }
}

// ------------------------------------------------------------------------------------- stress

/// Spinning start gate: all threads leave it within a few nanoseconds of each other (a futex barrier
/// releases them microseconds apart, which is longer than a whole run).
struct Gate {
    arrived: AtomicUsize,
    n: usize,
}
impl Gate {
    fn new(n: usize) -> Gate {
        Gate { arrived: AtomicUsize::new(0), n }
    }
    fn wait(&self) {
        self.arrived.fetch_add(1, Ordering::SeqCst);
        let start = Instant::now();
        while self.arrived.load(Ordering::SeqCst) < self.n {
            if start.elapsed() > Duration::from_millis(2) {
                thread::yield_now();
            } else {
                std::hint::spin_loop();
            }
        }
    }
}

struct Rng(u64);
impl Rng {
    fn next(&mut self) -> u64 {
        // xorshift64*
        self.0 ^= self.0 >> 12;
        self.0 ^= self.0 << 25;
        self.0 ^= self.0 >> 27;
        self.0.wrapping_mul(0x2545F4914F6CDD1D)
    }
    fn below(&mut self, n: u64) -> u64 {
        self.next() % n
    }
}

fn jitter(rng: &mut Rng) {
    match rng.below(8) {
        0 => thread::yield_now(),
        1 => {
            for _ in 0..rng.below(200) {
                std::hint::spin_loop();
            }
        }
        _ => {}
    }
}

/// One free-running execution: n voter threads doing `ops` random vote / rescind calls each and then
/// dropping their voter, one receiver thread polling like an executor (initially, whenever woken, and
/// now and then spuriously).  Since every voter is dropped in the end the receiver must complete.  The
/// lost wake-up verdict does not depend on timing: the receiver gives up ("timeout" event, which P refuses)
/// only when it was told "pending", every voter thread has returned from its drop, and its waker still has
/// not fired - then nobody is left who could fire it.  `patience` only bounds a voter that never returns.
fn stress_run(n: usize, ops: usize, seed: u64, patience: Duration) -> Value {
    let log = Log::new();
    let (voters, mut rx) = make(n);
    let (wc, waker) = log_waker(&log);
    let barrier = Arc::new(Gate::new(n + 1));
    let finished = Arc::new(AtomicUsize::new(0));
    let mut handles = Vec::new();
    for (t, v) in voters.into_iter().enumerate() {
        let (log, barrier, finished) = (log.clone(), barrier.clone(), finished.clone());
        let mut rng = Rng(seed.wrapping_mul(31).wrapping_add(t as u64 * 7919 + 1) | 1);
        handles.push(thread::spawn(move || {
            let mut slot = v;
            barrier.wait();
            for _ in 0..ops {
                jitter(&mut rng);
                let op = if rng.below(5) < 3 { "vote" } else { "rescind" };
                voter_op(&log, t, &mut slot, op);
            }
            jitter(&mut rng);
            voter_op(&log, t, &mut slot, "drop");
            finished.fetch_add(1, Ordering::SeqCst);
            take_buf()
        }));
    }
    let rlog = log.clone();
    let rbar = barrier.clone();
    let mut rng = Rng(seed.wrapping_mul(131).wrapping_add(977) | 1);
    let rh = thread::spawn(move || {
        *wc.parked.lock().unwrap() = Some(thread::current());
        rbar.wait();
        loop {
            jitter(&mut rng);
            let w0 = wc.count.load(Ordering::SeqCst);
            if poll_op(&rlog, n, &mut rx, &waker) == "ready" {
                break;
            }
            // parked: wait for the waker (or poll again spuriously after a short while, sometimes)
            let spurious = rng.below(4) == 0;
            let start = Instant::now();
            let mut lost = false;
            while wc.count.load(Ordering::SeqCst) == w0 {
                if spurious && start.elapsed() > Duration::from_micros(20) {
                    break;
                }
                let all_gone = finished.load(Ordering::SeqCst) == n;
                if (all_gone && wc.count.load(Ordering::SeqCst) == w0) || start.elapsed() > patience {
                    lost = true;
                    break;
                }
                thread::park_timeout(Duration::from_micros(50));
            }
            if lost {
                rlog.push(json!({"k": "timeout"}));
                break;
            }
        }
        take_buf()
    });
    let mut parts = Vec::new();
    for h in handles {
        parts.extend(h.join().expect("voter thread panicked"));
    }
    parts.extend(rh.join().expect("receiver thread panicked"));
    json!({"n": n, "ev": merge(parts)})
}

fn stress(args: &[String]) {
    let seed: u64 = args.first().and_then(|s| s.parse().ok()).unwrap_or(1);
    let runs: usize = args.get(1).and_then(|s| s.parse().ok()).unwrap_or(100);
    let ops: usize = args.get(2).and_then(|s| s.parse().ok()).unwrap_or(6);
    let patience = Duration::from_millis(args.get(3).and_then(|s| s.parse().ok()).unwrap_or(60000));
    let stdout = std::io::stdout();
    let mut out = std::io::BufWriter::new(stdout.lock());
    use std::io::Write;
    for i in 0..runs {
        let n = 2 + (i % 2);
        let r = catch_unwind(AssertUnwindSafe(|| stress_run(n, ops, seed.wrapping_add(i as u64 * 1_000_003), patience)));
        let v = match r {
            Ok(v) => v,
            Err(_) => json!({"n": n, "panic": "panic in a stress thread"}),
        };
        serde_json::to_writer(&mut out, &v).unwrap();
        out.write_all(b"\n").unwrap();
    }
    out.flush().unwrap();
}

fn main() {
    let args: Vec<String> = std::env::args().collect();
    if args.get(1).map(|s| s.as_str()) == Some("stress") {
        std::panic::set_hook(Box::new(|_| {}));
        stress(&args[2..]);
    } else {
        h_common::drive(run_case);
    }
}

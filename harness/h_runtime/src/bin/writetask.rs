//! Replays behaviours of specs/WriteTask.tla on the real synchronous core of the agent runtime's
//! write task (swimos_runtime::verif_hooks::WriteTaskHarness = WriteTaskState + Links +
//! RemoteTracker/Uplinks).  Write tasks are held by the harness until the model lets them
//! complete; their frames are then really written to a byte channel and decoded again.
use bytes::{Bytes, BytesMut};
use futures::{FutureExt, StreamExt};
use serde_json::{json, Value};
use std::collections::HashMap;
use std::num::NonZeroUsize;
use swimos_agent_protocol::MapOperation;
use swimos_api::agent::UplinkKind;
use swimos_messages::protocol::{Notification, RawResponseMessageDecoder};
use swimos_runtime::verif_hooks::{DisconnectionReason, UplinkResponse, WriteTask, WriteTaskHarness};
use swimos_utilities::byte_channel::{byte_channel, ByteReader};
use swimos_utilities::trigger::promise;
use tokio_util::codec::FramedRead;
use uuid::Uuid;

fn rid(r: u64) -> Uuid {
    Uuid::from_u128(1000 + r as u128)
}

fn rnum(id: Uuid) -> u64 {
    (id.as_u128() - 1000) as u64
}

struct Remote {
    rx: FramedRead<ByteReader, RawResponseMessageDecoder>,
    _completion: promise::Receiver<DisconnectionReason>,
}

fn parse_body(kind: &str, body: &str) -> Value {
    if kind == "map" {
        let b = body.trim();
        if b == "@clear" {
            return json!({"m": "clr", "key": 0, "v": -1});
        }
        if let Some(rest) = b.strip_prefix("@update(key:") {
            if let Some((k, v)) = rest.split_once(')') {
                if let (Ok(k), Ok(v)) = (k.trim().parse::<i64>(), v.trim().parse::<i64>()) {
                    return json!({"m": "upd", "key": k, "v": v});
                }
            }
        }
        if let Some(rest) = b.strip_prefix("@remove(key:") {
            if let Some(k) = rest.strip_suffix(')') {
                if let Ok(k) = k.trim().parse::<i64>() {
                    return json!({"m": "rem", "key": k, "v": -1});
                }
            }
        }
        json!({"raw": body})
    } else if body.is_empty() {
        // the designated value that is written with an EMPTY body (a lane holding `None` / `()` serialises to nothing)
        json!(EMPTY_AS)
    } else {
        match body.trim().parse::<i64>() {
            Ok(n) => json!(n),
            Err(_) => json!({"raw": body}),
        }
    }
}

/// The value / supply item that the harness writes as an empty body (and reads back from one).
const EMPTY_AS: i64 = 2;

fn body_bytes(n: i64) -> Bytes {
    if n == EMPTY_AS {
        Bytes::new()
    } else {
        Bytes::from(n.to_string())
    }
}

fn read_frames(rem: &mut Remote, kinds: &HashMap<String, String>) -> Vec<Value> {
    let mut out = vec![];
    loop {
        let mut polled = rem.rx.next().now_or_never();
        for _ in 0..2 {
            if polled.is_some() {
                break;
            }
            polled = rem.rx.next().now_or_never();
        }
        match polled {
            Some(Some(Ok(msg))) => {
                let lane = msg.path.lane.to_string();
                let known = kinds.contains_key(&lane);
                let f = match msg.envelope {
                    Notification::Linked => json!({"f": "linked", "lane": lane}),
                    Notification::Synced => json!({"f": "synced", "lane": lane}),
                    Notification::Unlinked(b) => {
                        let body = b.map(|b| String::from_utf8_lossy(b.as_ref()).to_string()).unwrap_or_default();
                        let why = if body == "@laneNotFound" {
                            "notfound".to_string()
                        } else if body == "\"Link closed.\"" {
                            "closed".to_string()
                        } else {
                            body
                        };
                        json!({"f": "unlinked", "lane": if known { lane } else { "?".to_string() }, "why": why})
                    }
                    Notification::Event(b) => {
                        let body = String::from_utf8_lossy(b.as_ref()).to_string();
                        let kind = kinds.get(&lane).map(|s| s.as_str()).unwrap_or("value");
                        json!({"f": "event", "lane": lane, "body": parse_body(kind, &body)})
                    }
                };
                out.push(f);
            }
            _ => break,
        }
    }
    out
}

fn run_case(case: &Value) -> Value {
    let kinds: HashMap<String, String> = case["cfg"]["kinds"]
        .as_object()
        .unwrap()
        .iter()
        .map(|(k, v)| (k.clone(), v.as_str().unwrap().to_string()))
        .collect();
    let mut h = WriteTaskHarness::new(Uuid::from_u128(1), "/node", None);
    let mut lane_ids: HashMap<String, u64> = HashMap::new();
    let mut names: Vec<&String> = kinds.keys().collect();
    names.sort();
    for name in names {
        lane_ids.insert(name.clone(), h.register_lane(name, None));
    }
    let mut remotes: HashMap<u64, Remote> = HashMap::new();
    let mut pending: HashMap<u64, WriteTask> = HashMap::new();
    let mut obs = vec![];

    let mut stash = |pending: &mut HashMap<u64, WriteTask>, tasks: Vec<WriteTask>| -> Value {
        let mut sched = vec![];
        for t in tasks {
            let r = rnum(t.sender.remote_id());
            sched.push(r);
            if pending.insert(r, t).is_some() {
                panic!("two write tasks in flight for remote {}", r);
            }
        }
        sched.sort();
        json!(sched)
    };

    for a in case["acts"].as_array().unwrap() {
        let k = a["k"].as_str().unwrap();
        let r = a.get("r").and_then(|v| v.as_u64()).unwrap_or(0);
        let lane = a.get("lane").and_then(|v| v.as_str()).unwrap_or("");
        let o = match k {
            "attach" => {
                let (tx, rx) = byte_channel(NonZeroUsize::new(1 << 16).unwrap());
                let (ptx, prx) = promise::promise();
                let s = h.attach_remote(rid(r), tx, ptx);
                remotes.insert(r, Remote { rx: FramedRead::new(rx, RawResponseMessageDecoder), _completion: prx });
                json!({"sched": stash(&mut pending, s.writes)})
            }
            "link" => {
                let s = h.link(rid(r), lane);
                json!({"sched": stash(&mut pending, s.writes)})
            }
            "unlink" => {
                let s = h.unlink(rid(r), lane);
                json!({"sched": stash(&mut pending, s.writes)})
            }
            "unknown" => {
                let s = h.unknown_lane(rid(r), "/node", "nolane");
                json!({"sched": stash(&mut pending, s.writes)})
            }
            "event" => {
                let target = a["target"].as_u64().unwrap_or(0);
                let resp = &a["resp"];
                let kind = kinds[lane].as_str();
                let uk = match kind {
                    "value" => UplinkKind::Value,
                    "supply" => UplinkKind::Supply,
                    _ => UplinkKind::Map,
                };
                let response = match resp["t"].as_str().unwrap() {
                    "value" => UplinkResponse::Value(body_bytes(resp["body"].as_i64().unwrap())),
                    "supply" => UplinkResponse::Supply(body_bytes(resp["body"].as_i64().unwrap())),
                    "synced" => UplinkResponse::Synced(uk),
                    _ => {
                        let b = &resp["body"];
                        let key = BytesMut::from(b["key"].as_i64().unwrap().to_string().as_bytes());
                        match b["m"].as_str().unwrap() {
                            "upd" => UplinkResponse::Map(MapOperation::Update {
                                key,
                                value: BytesMut::from(b["v"].as_i64().unwrap().to_string().as_bytes()),
                            }),
                            "rem" => UplinkResponse::Map(MapOperation::Remove { key }),
                            _ => UplinkResponse::Map(MapOperation::Clear),
                        }
                    }
                };
                let t = if target == 0 { None } else { Some(rid(target)) };
                let writes = h.lane_event(lane_ids[lane], t, response);
                json!({"sched": stash(&mut pending, writes)})
            }
            "done" => {
                let task = pending.remove(&r).expect("model says a write is in flight");
                let result = futures::executor::block_on(task.into_future());
                let frames = match remotes.get_mut(&r) {
                    Some(rem) => read_frames(rem, &kinds),
                    None => vec![],
                };
                let next = h.write_done(result);
                json!({"frames": frames, "sched": stash(&mut pending, next.into_iter().collect())})
            }
            "fail" => {
                let task = pending.remove(&r).expect("model says a write is in flight");
                let WriteTask { sender, buffer, .. } = task;
                let err = std::io::Error::from(std::io::ErrorKind::BrokenPipe);
                let next = h.write_done((sender, buffer, Err(err)));
                remotes.remove(&r);
                json!({"sched": stash(&mut pending, next.into_iter().collect())})
            }
            "lanefail" => {
                let s = h.lane_failed(lane_ids[lane]);
                json!({"sched": stash(&mut pending, s.writes)})
            }
            "prune" => {
                h.prune_remote(rid(r));
                if !h.has_remote(rid(r)) {
                    remotes.remove(&r);
                }
                json!({"sched": []})
            }
            other => panic!("unknown action {}", other),
        };
        obs.push(o);
    }
    json!({ "obs": obs })
}

fn main() {
    h_common::drive(run_case);
}

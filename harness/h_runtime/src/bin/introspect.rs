//! C20, level I - the layer that *reports* the counts: the real introspection task
//! (`swimos_introspection::register_introspection`, as `swimos_server_app` wires it), the real node and
//! lane meta agents it registers (run, like any agent, by the real `AgentRouteTask`), an observed agent on
//! the real agent runtime whose `NodeReporting` comes from `IntrospectionResolver::register_agent`, and
//! observers that link / sync the meta agents' `pulse` and `lanes` lanes and decode the records published.
//!
//! Single-threaded tokio runtime with a paused clock: `sleep(1ns)` is an exact quiescence barrier, the pulse
//! timers fire only when the script lets the pulse interval pass (`tick`).  The introspection task itself is
//! NOT spawned: the harness polls it when the script says `ipoll` (one poll = it drains what is queued, as one
//! scheduling of the task would), so the order in which its two input channels are served is part of the
//! replayed schedule.
//!
//! actions (lanes 1..nl, remotes 1..nr, meta agent m: 0 = node meta agent, l = lane meta agent of lane l)
//!   reg | addlane l | att r | link r l | unlink r l | ev l | cmd l | fail l | stop        the observed agent
//!   ipoll                                                                                the introspection task
//!   mnode | mlane l | stopmeta m | tick | syncp m | synclanes                            meta agents / observers
//! observations per action
//!   px  pulses received by the observers: [m, "E" | "S", linkCount, eventRate, eventCount, commandRate, commandCount]
//!       (a rate of u64::MAX is written -1), sorted by m;  "S" = delivered in answer to a sync
//!   ls  the lanes listed by the node meta agent's `lanes` lane in answer to a sync (sorted), or null
//!   ms  per meta agent: 0 not running, 1 starting, 2 running (observer attached), 3 ended / failed to start
use bytes::BytesMut;
use futures::future::BoxFuture;
use futures::{FutureExt, SinkExt, StreamExt};
use parking_lot::Mutex;
use serde_json::{json, Value};
use std::collections::HashMap;
use std::future::Future;
use std::num::NonZeroUsize;
use std::pin::Pin;
use std::sync::Arc;
use std::task::{Context, Poll};
use std::time::Duration;
use swimos_agent_protocol::encoding::lane::{RawValueLaneRequestDecoder, RawValueLaneResponseEncoder};
use swimos_agent_protocol::LaneResponse;
use swimos_api::address::RelativeAddress;
use swimos_api::agent::{Agent, AgentConfig, AgentContext, AgentInitResult, BoxAgent, LaneConfig, WarpLaneKind};
use swimos_introspection::{register_introspection, AgentRegistration, IntrospectionConfig, IntrospectionResolver};
use swimos_messages::protocol::{
    Notification, RawRequestMessageEncoder, RawResponseMessageDecoder, RequestMessage,
};
use swimos_meta::{LanePulse, NodePulse, WarpUplinkPulse};
use swimos_model::Text;
use swimos_recon::parser::parse_recognize;
use swimos_runtime::agent::{
    AgentAttachmentRequest, AgentRouteChannels, AgentRouteDescriptor, AgentRouteTask, AgentRuntimeConfig,
    CombinedAgentConfig, DisconnectionReason, NodeReporting,
};
use swimos_utilities::byte_channel::{byte_channel, ByteReader, ByteWriter};
use swimos_utilities::routing::{RoutePattern, RouteUri};
use swimos_utilities::trigger::{self, promise};
use tokio::io::AsyncWriteExt;
use tokio::sync::mpsc;
use tokio_stream::StreamMap;
use tokio_util::codec::{FramedRead, FramedWrite};
use uuid::Uuid;

const NODE: &str = "/node";
const PULSE_MS: u64 = 500;

fn rid(r: u64) -> Uuid {
    Uuid::from_u128(0x9e3779b97f4a7c15u128.wrapping_mul(r as u128 + 11) ^ ((r as u128) << 96))
}

fn geti(a: &Value, k: &str) -> u64 {
    a[k].as_u64().unwrap_or_else(|| panic!("harness: missing field {} in {}", k, a))
}

fn meta_uri(m: u64) -> String {
    if m == 0 {
        "swimos:meta:node/%2Fnode".to_string()
    } else {
        format!("swimos:meta:node/%2Fnode/lane/lane{}", m)
    }
}

async fn settle() {
    tokio::time::sleep(Duration::from_nanos(1)).await;
}

// ------------------------------------------------------------------------------------ the observed agent

enum Ctl {
    AddLane(u64),
    Event(u64),
    Fail(u64),
    Stop,
}

/// An agent that only does what the script tells it: add a lane, emit an event on a lane, break a lane.
struct CtlAgent {
    ctl: Arc<Mutex<Option<mpsc::UnboundedReceiver<Ctl>>>>,
}

impl Agent for CtlAgent {
    fn run(
        &self,
        _route: RouteUri,
        _route_params: HashMap<String, String>,
        _config: AgentConfig,
        context: Box<dyn AgentContext + Send>,
    ) -> BoxFuture<'static, AgentInitResult> {
        let mut ctl = self.ctl.lock().take().expect("harness: the observed agent is started once");
        async move {
            let task: BoxFuture<'static, Result<(), swimos_api::error::AgentTaskError>> = async move {
                let mut tx: HashMap<u64, FramedWrite<ByteWriter, RawValueLaneResponseEncoder>> = HashMap::new();
                let mut rx: StreamMap<u64, FramedRead<ByteReader, RawValueLaneRequestDecoder>> = StreamMap::new();
                let mut broken: Vec<ByteWriter> = Vec::new();
                let mut seq = 0u64;
                loop {
                    tokio::select! {
                        biased;
                        c = ctl.recv() => match c {
                            None | Some(Ctl::Stop) => break,
                            Some(Ctl::AddLane(l)) => {
                                let config = LaneConfig { transient: true, ..Default::default() };
                                let (w, r) = context
                                    .add_lane(&format!("lane{}", l), WarpLaneKind::Value, config)
                                    .await
                                    .expect("harness: adding a lane failed");
                                tx.insert(l, FramedWrite::new(w, RawValueLaneResponseEncoder::default()));
                                rx.insert(l, FramedRead::new(r, RawValueLaneRequestDecoder::default()));
                            }
                            Some(Ctl::Event(l)) => {
                                seq += 1;
                                let body = format!("{}", seq);
                                if let Some(w) = tx.get_mut(&l) {
                                    let _ = w.send(LaneResponse::StandardEvent(body.as_bytes())).await;
                                }
                            }
                            Some(Ctl::Fail(l)) => {
                                // the lane breaks: what it writes is no lane response and it stops reading
                                if let Some(w) = tx.remove(&l) {
                                    let mut raw = w.into_inner();
                                    let _ = raw.write_all(&[0xffu8; 64]).await;
                                    let _ = raw.flush().await;
                                    broken.push(raw);
                                }
                                rx.remove(&l);
                            }
                        },
                        Some(_) = rx.next(), if !rx.is_empty() => {}
                    }
                }
                drop(context);
                Ok(())
            }
            .boxed();
            Ok(task)
        }
        .boxed()
    }
}

// ------------------------------------------------------------------------------------ runtimes and peers

struct Inst {
    att_tx: mpsc::Sender<AgentAttachmentRequest>,
    stop_tx: Option<trigger::Sender>,
    handle: tokio::task::JoinHandle<Result<(), String>>,
    _http_tx: mpsc::Sender<swimos_api::agent::HttpLaneRequest>,
    _link_rx: mpsc::Receiver<swimos_runtime::agent::LinkRequest>,
}

fn start_runtime<A: Agent + Send + 'static>(
    agent: &A,
    identity: Uuid,
    uri: &str,
    params: HashMap<String, String>,
    reporting: Option<NodeReporting>,
) -> Inst {
    let hours = Duration::from_secs(3600 * 24);
    let runtime_config = AgentRuntimeConfig {
        inactive_timeout: hours,
        prune_remote_delay: hours,
        shutdown_timeout: Duration::from_secs(5),
        item_init_timeout: Duration::from_secs(5),
        ..Default::default()
    };
    let config = CombinedAgentConfig { agent_config: AgentConfig::default(), runtime_config };
    let (att_tx, att_rx) = mpsc::channel(16);
    let (http_tx, http_rx) = mpsc::channel(16);
    let (link_tx, link_rx) = mpsc::channel(16);
    let (stop_tx, stop_rx) = trigger::trigger();
    let task = AgentRouteTask::new(
        agent,
        AgentRouteDescriptor { identity, route: uri.parse().expect("harness: route uri"), route_params: params },
        AgentRouteChannels::new(att_rx, http_rx, link_tx),
        stop_rx,
        config,
        reporting,
    );
    let handle = tokio::spawn(task.run_agent().map(|r| r.map_err(|e| e.to_string())));
    Inst { att_tx, stop_tx: Some(stop_tx), handle, _http_tx: http_tx, _link_rx: link_rx }
}

struct Peer {
    id: Uuid,
    node: String,
    tx: FramedWrite<ByteWriter, RawRequestMessageEncoder>,
    rx: FramedRead<ByteReader, RawResponseMessageDecoder>,
    _done: promise::Receiver<DisconnectionReason>,
    on: Option<trigger::Receiver>,
    attached: bool,
}

async fn attach(inst: &Inst, id: Uuid, node: &str) -> Peer {
    let (req_tx, req_rx) = byte_channel(NonZeroUsize::new(1 << 16).unwrap());
    let (resp_tx, resp_rx) = byte_channel(NonZeroUsize::new(1 << 16).unwrap());
    let (ptx, prx) = promise::promise();
    let (on_tx, on_rx) = trigger::trigger();
    let _ = inst.att_tx.send(AgentAttachmentRequest::with_confirmation(id, (resp_tx, req_rx), ptx, on_tx)).await;
    Peer {
        id,
        node: node.to_string(),
        tx: FramedWrite::new(req_tx, RawRequestMessageEncoder),
        rx: FramedRead::new(resp_rx, RawResponseMessageDecoder),
        _done: prx,
        on: Some(on_rx),
        attached: false,
    }
}

impl Peer {
    async fn request(&mut self, op: &str, lane: &str) {
        let path = RelativeAddress::new(self.node.as_str(), lane);
        let msg: RequestMessage<&str, &[u8]> = match op {
            "link" => RequestMessage::link(self.id, path),
            "sync" => RequestMessage::sync(self.id, path),
            "unlink" => RequestMessage::unlink(self.id, path),
            _ => RequestMessage::command(self.id, path, b"1"),
        };
        let mut fut = Box::pin(self.tx.send(msg));
        for _ in 0..4 {
            if futures::poll!(fut.as_mut()).is_ready() {
                return;
            }
        }
        panic!("harness: a request could not be written to a 64k channel");
    }

    fn check_attached(&mut self) -> bool {
        if let Some(on) = self.on.as_mut() {
            if let Some(r) = on.now_or_never() {
                self.attached = r.is_ok();
                self.on = None;
            }
        }
        self.attached
    }

    /// The frames that can be read now: (lane, kind, body).
    async fn frames(&mut self) -> Vec<(String, &'static str, String)> {
        let mut out = Vec::new();
        let mut pendings = 0;
        loop {
            match futures::poll!(self.rx.next()) {
                Poll::Ready(Some(Ok(msg))) => {
                    pendings = 0;
                    let lane = msg.path.lane.as_str().to_string();
                    match msg.envelope {
                        Notification::Linked => out.push((lane, "L", String::new())),
                        Notification::Synced => out.push((lane, "Y", String::new())),
                        Notification::Unlinked(_) => out.push((lane, "U", String::new())),
                        Notification::Event(b) => out.push((lane, "E", String::from_utf8_lossy(b.as_ref()).to_string())),
                    }
                }
                Poll::Pending if pendings == 0 => pendings = 1, // cooperative yield of the byte channel
                _ => break,
            }
        }
        out
    }
}

struct Routes(Vec<(RoutePattern, BoxAgent)>);

impl AgentRegistration for Routes {
    fn register<A: Agent + Send + 'static>(&mut self, pattern: RoutePattern, agent: A) {
        self.0.push((pattern, Box::new(agent)));
    }
}

fn rate(x: u64) -> i64 {
    if x == u64::MAX {
        -1
    } else {
        x as i64
    }
}

fn pulse_json(m: u64, kind: &str, p: &WarpUplinkPulse) -> Value {
    json!([m, kind, p.link_count, rate(p.event_rate), p.event_count, rate(p.command_rate), p.command_count])
}

struct Meta {
    inst: Inst,
    peer: Peer,
}

struct Observed {
    inst: Inst,
    ctl: mpsc::UnboundedSender<Ctl>,
    id: Uuid,
    peers: HashMap<u64, Peer>,
    helper: Peer,
}

async fn run_async(case: Value) -> Value {
    let cfg = &case["cfg"];
    let nl = cfg["nl"].as_u64().unwrap_or(2);
    let nr = cfg["nr"].as_u64().unwrap_or(1);
    let _ = nr;
    let pulse = Duration::from_millis(PULSE_MS);
    let config = IntrospectionConfig {
        node_pulse_interval: pulse,
        lane_pulse_interval: pulse,
        registration_channel_size: NonZeroUsize::new(8).unwrap(),
    };
    let (intro_stop_tx, intro_stop_rx) = trigger::trigger();
    let mut routes = Routes(Vec::new());
    let (resolver, task): (IntrospectionResolver, _) = register_introspection(intro_stop_rx, config, &mut routes);
    let mut intro_task: Pin<Box<dyn Future<Output = ()> + Send>> = Box::pin(task);
    let mut intro_done = false;
    // the routes as the server keeps them: mesh, node, lane - in the order they were registered
    let node_pat = swimos_introspection::node_pattern();
    let lane_pat = swimos_introspection::lane_pattern();
    let find = |routes: &Routes, m: u64| -> usize {
        let uri: RouteUri = meta_uri(m).parse().expect("harness: meta uri");
        let want = if m == 0 { &node_pat } else { &lane_pat };
        routes
            .0
            .iter()
            .position(|(p, _)| p == want && p.unapply_route_uri(&uri).is_ok())
            .expect("harness: the meta agent route is not registered")
    };

    let mut observed: Option<Observed> = None;
    let mut agent_ended = false;
    let mut metas: HashMap<u64, Meta> = HashMap::new();
    let mut ended: HashMap<u64, bool> = HashMap::new();
    let mut next_identity = 100u128;
    let mut obs = Vec::new();

    for a in case["acts"].as_array().unwrap() {
        let k = a["k"].as_str().unwrap();
        let mut o = json!({});
        let mut want_listing = false;
        match k {
            "reg" => {
                let id = Uuid::from_u128(7);
                let reporting = resolver
                    .register_agent(id, NODE.parse().unwrap(), Text::new("ObservedAgent"))
                    .expect("harness: the introspection task has stopped");
                let (ctl_tx, ctl_rx) = mpsc::unbounded_channel();
                let agent = CtlAgent { ctl: Arc::new(Mutex::new(Some(ctl_rx))) };
                let inst = start_runtime(&agent, id, NODE, HashMap::new(), Some(reporting));
                let helper = attach(&inst, rid(99), NODE).await;
                observed = Some(Observed { inst, ctl: ctl_tx, id, peers: HashMap::new(), helper });
            }
            "addlane" => {
                let _ = observed.as_ref().expect("harness: no agent").ctl.send(Ctl::AddLane(geti(a, "l")));
            }
            "att" => {
                let ob = observed.as_mut().expect("harness: no agent");
                let r = geti(a, "r");
                let p = attach(&ob.inst, rid(r), NODE).await;
                ob.peers.insert(r, p);
            }
            "link" | "unlink" => {
                let ob = observed.as_mut().expect("harness: no agent");
                if let Some(p) = ob.peers.get_mut(&geti(a, "r")) {
                    p.request(k, &format!("lane{}", geti(a, "l"))).await;
                }
            }
            "cmd" => {
                let ob = observed.as_mut().expect("harness: no agent");
                ob.helper.request("cmd", &format!("lane{}", geti(a, "l"))).await;
            }
            "ev" => {
                let _ = observed.as_ref().expect("harness: no agent").ctl.send(Ctl::Event(geti(a, "l")));
            }
            "fail" => {
                // the lane breaks on both sides; a command makes the read task notice that it has gone
                let ob = observed.as_mut().expect("harness: no agent");
                let l = geti(a, "l");
                let _ = ob.ctl.send(Ctl::Fail(l));
                settle().await;
                ob.helper.request("cmd", &format!("lane{}", l)).await;
            }
            "stop" => {
                let ob = observed.as_mut().expect("harness: no agent");
                if let Some(tx) = ob.inst.stop_tx.take() {
                    tx.trigger();
                }
                settle().await;
                let _ = ob.ctl.send(Ctl::Stop);
                for _ in 0..6 {
                    settle().await;
                }
                // what the server does when the agent's task has completed
                if ob.inst.handle.is_finished() {
                    agent_ended = true;
                    let _ = resolver.close_agent(ob.id);
                } else {
                    o["agent_did_not_stop"] = json!(true);
                }
            }
            "ipoll" => {
                if !intro_done {
                    let mut cx = Context::from_waker(futures::task::noop_waker_ref());
                    if intro_task.as_mut().poll(&mut cx).is_ready() {
                        intro_done = true;
                    }
                }
            }
            "mnode" | "mlane" => {
                let m = if k == "mnode" { 0 } else { geti(a, "l") };
                if let Some(old) = metas.remove(&m) {
                    if !old.inst.handle.is_finished() {
                        panic!("harness: meta agent {} is still running", m);
                    }
                }
                ended.remove(&m);
                let ix = find(&routes, m);
                let uri_s = meta_uri(m);
                let uri: RouteUri = uri_s.parse().unwrap();
                let params = routes.0[ix].0.unapply_route_uri(&uri).expect("harness: route parameters");
                next_identity += 1;
                let inst = start_runtime(&routes.0[ix].1, Uuid::from_u128(next_identity), &uri_s, params, None);
                let mut peer = attach(&inst, rid(200 + m), &uri_s).await;
                peer.request("link", "pulse").await;
                peer.request("sync", "pulse").await;
                if m == 0 {
                    peer.request("link", "lanes").await;
                }
                metas.insert(m, Meta { inst, peer });
            }
            "stopmeta" => {
                let m = geti(a, "m");
                if let Some(mt) = metas.get_mut(&m) {
                    if let Some(tx) = mt.inst.stop_tx.take() {
                        tx.trigger();
                    }
                }
            }
            "tick" => tokio::time::sleep(pulse).await,
            "syncp" => {
                if let Some(mt) = metas.get_mut(&geti(a, "m")) {
                    mt.peer.request("sync", "pulse").await;
                }
            }
            "synclanes" => {
                if let Some(mt) = metas.get_mut(&0) {
                    mt.peer.request("sync", "lanes").await;
                    want_listing = true;
                }
            }
            "nop" => {}
            other => panic!("harness: bad I action {}", other),
        }
        for _ in 0..4 {
            settle().await;
        }
        // the peers of the observed agent only need their channels drained
        if let Some(ob) = observed.as_mut() {
            for p in ob.peers.values_mut() {
                let _ = p.frames().await;
            }
            let _ = ob.helper.frames().await;
            if !agent_ended && ob.inst.handle.is_finished() && k != "stop" {
                o["agent_ended_unexpectedly"] = json!(true);
            }
        }
        // what the observers of the meta agents received
        let mut px: Vec<(u64, Value)> = Vec::new();
        let mut listing: Option<Vec<u64>> = None;
        let mut ms = Vec::new();
        let mut whys: Vec<Value> = Vec::new();
        for m in 0..=nl {
            let mut state = 0;
            if let Some(mt) = metas.get_mut(&m) {
                let frames = mt.peer.frames().await;
                let mut pending: Vec<WarpUplinkPulse> = Vec::new();
                let mut lanes: Vec<u64> = Vec::new();
                let mut lanes_synced = false;
                for (lane, kind, body) in frames {
                    if lane == "pulse" {
                        match kind {
                            "E" => {
                                let p = if m == 0 {
                                    parse_recognize::<NodePulse>(body.as_str(), false).map(|p| p.uplinks)
                                } else {
                                    parse_recognize::<LanePulse>(body.as_str(), false).map(|p| p.uplink_pulse)
                                };
                                match p {
                                    Ok(p) => pending.push(p),
                                    Err(e) => panic!("harness: pulse record {:?} is not a pulse: {}", body, e),
                                }
                            }
                            "Y" => {
                                for p in pending.drain(..) {
                                    px.push((m, pulse_json(m, "S", &p)));
                                }
                            }
                            _ => {}
                        }
                    } else if lane == "lanes" {
                        match kind {
                            "E" => {
                                // @update(key:laneN) @LaneInfo{laneUri:laneN,laneType:..}
                                if let Some(ix) = body.find("key:lane") {
                                    let digits: String = body[ix + 8..].chars().take_while(|c| c.is_ascii_digit()).collect();
                                    lanes.push(digits.parse().unwrap_or(0));
                                } else {
                                    panic!("harness: unexpected lanes record {:?}", body);
                                }
                            }
                            "Y" => lanes_synced = true,
                            _ => {}
                        }
                    }
                }
                for p in pending.drain(..) {
                    px.push((m, pulse_json(m, "E", &p)));
                }
                if lanes_synced {
                    lanes.sort();
                    listing = Some(lanes);
                }
                let fin = mt.inst.handle.is_finished();
                if fin && !ended.contains_key(&m) {
                    ended.insert(m, true);
                    // how it ended (information only)
                    if let Some(Ok(r)) = (&mut mt.inst.handle).now_or_never() {
                        whys.push(json!([m, match r { Ok(()) => "ok".to_string(), Err(e) => e }]));
                    }
                }
                state = if fin {
                    3
                } else if mt.peer.check_attached() {
                    2
                } else {
                    1
                };
                if fin && k == "stopmeta" && geti(a, "m") == m {
                    state = 0;
                }
            }
            if state == 0 || (state == 3 && k == "stopmeta" && geti(a, "m") == m) {
                if metas.get(&m).map(|mt| mt.inst.handle.is_finished()).unwrap_or(false) && state == 0 {
                    metas.remove(&m);
                }
            }
            ms.push(state);
        }
        px.sort_by(|x, y| x.0.cmp(&y.0));
        o["px"] = Value::Array(px.into_iter().map(|x| x.1).collect());
        o["ls"] = match (want_listing, listing) {
            (_, Some(l)) => json!(l),
            _ => Value::Null,
        };
        o["ms"] = json!(ms);
        if !whys.is_empty() {
            o["why"] = json!(whys);
        }
        obs.push(o);
    }
    // shut everything down
    intro_stop_tx.trigger();
    if let Some(ob) = observed.as_mut() {
        if let Some(tx) = ob.inst.stop_tx.take() {
            tx.trigger();
        }
        let _ = ob.ctl.send(Ctl::Stop);
    }
    for mt in metas.values_mut() {
        if let Some(tx) = mt.inst.stop_tx.take() {
            tx.trigger();
        }
    }
    for _ in 0..4 {
        settle().await;
    }
    json!({ "obs": obs })
}


// ------------------------------------------------------------------------------------ level G: the registry

const URIS: [&str; 5] = ["/a", "/a/b", "/a/b/c", "/b", "/a/d"];

fn map_key(body: &str) -> String {
    // @update(key:"/a/b") ..  or  @update(key:x) ..
    let ix = body.find("key:").unwrap_or_else(|| panic!("harness: no key in {:?}", body)) + 4;
    let rest = &body[ix..];
    let end = rest.find(')').unwrap_or(rest.len());
    rest[..end].trim().trim_matches('"').to_string()
}

/// Level "G": only the registry of agents - IntrospectionResolver::register_agent / close_agent /
/// resolve_agent against the real introspection task, and the real mesh meta agent (on the real agent
/// runtime) whose `nodes` and `nodes#/` lanes read the shared forest.
async fn run_g_async(case: Value) -> Value {
    let pulse = Duration::from_millis(PULSE_MS);
    let config = IntrospectionConfig {
        node_pulse_interval: pulse,
        lane_pulse_interval: pulse,
        registration_channel_size: NonZeroUsize::new(8).unwrap(),
    };
    let (intro_stop_tx, intro_stop_rx) = trigger::trigger();
    let mut routes = Routes(Vec::new());
    let (resolver, task): (IntrospectionResolver, _) = register_introspection(intro_stop_rx, config, &mut routes);
    let mut intro_task: Pin<Box<dyn Future<Output = ()> + Send>> = Box::pin(task);
    let mesh_pat = swimos_introspection::mesh_pattern();
    let ix = routes.0.iter().position(|(p, _)| p == &mesh_pat).expect("harness: no mesh route");
    let mesh_uri = "swimos:meta:mesh";
    let mut mesh = start_runtime(&routes.0[ix].1, Uuid::from_u128(500), mesh_uri, HashMap::new(), None);
    let mut peer = attach(&mesh, rid(300), mesh_uri).await;
    peer.request("link", "nodes").await;
    peer.request("link", "nodes#/").await;
    for _ in 0..4 {
        settle().await;
    }
    let _ = peer.frames().await;
    let mut held: HashMap<u64, NodeReporting> = HashMap::new();
    let mut obs = Vec::new();
    let poll_intro = |t: &mut Pin<Box<dyn Future<Output = ()> + Send>>| {
        let mut cx = Context::from_waker(futures::task::noop_waker_ref());
        let _ = t.as_mut().poll(&mut cx);
    };
    for a in case["acts"].as_array().unwrap() {
        let k = a["k"].as_str().unwrap();
        let mut o = json!({"res": "-", "nodes": [-1], "parts": []});
        match k {
            "greg" => {
                let ag = geti(a, "a");
                let uri = URIS[geti(a, "u") as usize - 1];
                let rep = resolver
                    .register_agent(Uuid::from_u128(1000 + ag as u128), uri.parse().unwrap(), Text::new(&format!("agent{}", ag)))
                    .expect("harness: the introspection task has stopped");
                held.insert(ag, rep);
            }
            "gdrop" => {
                held.remove(&geti(a, "a"));
            }
            "gclose" => {
                let _ = resolver.close_agent(Uuid::from_u128(1000 + geti(a, "a") as u128));
            }
            "ipoll" => poll_intro(&mut intro_task),
            "gresolve" => {
                let uri = URIS[geti(a, "u") as usize - 1];
                let mut fut = Box::pin(resolver.resolve_agent(Text::new(uri)));
                let first = futures::poll!(fut.as_mut());
                if first.is_ready() {
                    panic!("harness: resolve_agent answered before the introspection task ran");
                }
                poll_intro(&mut intro_task);
                match futures::poll!(fut.as_mut()) {
                    Poll::Ready(Ok(mut handle)) => {
                        o["res"] = json!(if handle.new_snapshot().is_some() { "live" } else { "dead" });
                    }
                    Poll::Ready(Err(_)) => o["res"] = json!("none"),
                    Poll::Pending => panic!("harness: resolve_agent was not answered by one poll of the introspection task"),
                }
            }
            "gnodes" | "gparts" => {
                let lane = if k == "gnodes" { "nodes" } else { "nodes#/" };
                peer.request("sync", lane).await;
                for _ in 0..4 {
                    settle().await;
                }
                let frames = peer.frames().await;
                let mut nodes: Vec<u64> = Vec::new();
                let mut parts: Vec<Value> = Vec::new();
                let mut synced = false;
                for (ln, kind, body) in frames {
                    if ln != lane {
                        continue;
                    }
                    match kind {
                        "E" => {
                            let key = map_key(&body);
                            if k == "gnodes" {
                                let u = URIS.iter().position(|x| *x == key).map(|x| x as u64 + 1).unwrap_or(0);
                                nodes.push(u);
                            } else if body.contains("childCount") {
                                let ix = body.find("childCount:").unwrap() + 11;
                                let digits: String = body[ix..].chars().take_while(|c| c.is_ascii_digit()).collect();
                                parts.push(json!([key, "J", digits.parse::<u64>().unwrap_or(0)]));
                            } else {
                                parts.push(json!([key, "L", 0]));
                            }
                        }
                        "Y" => synced = true,
                        _ => {}
                    }
                }
                if !synced {
                    panic!("harness: the mesh meta agent did not answer the sync of {}", lane);
                }
                if k == "gnodes" {
                    nodes.sort();
                    o["nodes"] = json!(nodes);
                } else {
                    parts.sort_by_key(|p| p[0].as_str().unwrap_or("").to_string());
                    o["parts"] = json!(parts);
                }
            }
            other => panic!("harness: bad G action {}", other),
        }
        obs.push(o);
    }
    intro_stop_tx.trigger();
    if let Some(tx) = mesh.stop_tx.take() {
        tx.trigger();
    }
    for _ in 0..4 {
        settle().await;
    }
    json!({ "obs": obs })
}

fn run_case(case: &Value) -> Value {
    let rt = tokio::runtime::Builder::new_current_thread().enable_time().start_paused(true).build().unwrap();
    if case["cfg"]["level"].as_str() == Some("G") {
        rt.block_on(run_g_async(case.clone()))
    } else {
        rt.block_on(run_async(case.clone()))
    }
}

fn main() {
    let _ = BytesMut::new();
    h_common::drive(run_case);
}

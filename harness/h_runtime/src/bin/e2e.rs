//! Configuration E: a real agent (derived lanes, real `AgentModel`) on the real agent runtime
//! (`AgentRouteTask`), optionally with a recording store, driven by a script of environment
//! actions on a paused, single-threaded tokio runtime.  Everything the properties talk about is
//! logged with one global order: requests (before they are written), frames (after the remote
//! decoded them), lane state changes (inside the lifecycle callbacks the agent invokes
//! synchronously), store calls (inside the store), commands sent by the agent and received on
//! the target channels.
//!
//! stdin: one case per line {"id", "cfg": {...}, "acts": [...]};  stdout: {"id", "log": [...]}.
use bytes::{Bytes, BytesMut};
use futures::future::BoxFuture;
use futures::{FutureExt, SinkExt, StreamExt};
use parking_lot::Mutex;
use serde_json::{json, Value};
use std::collections::{BTreeMap, HashMap, HashSet};
use std::num::NonZeroUsize;
use std::sync::Arc;
use std::time::Duration;
use swimos::agent::agent_lifecycle::HandlerContext;
use swimos::agent::agent_model::AgentModel;
use swimos::agent::event_handler::{BoxEventHandler, EventHandler, HandlerActionExt, Sequentially};
use swimos::agent::lanes::http::{HttpRequestContext, Response, UnitResponse};
use swimos::agent::lanes::{CommandLane, DemandLane, DemandMapLane, MapLane, SimpleHttpLane, SupplyLane, ValueLane};
use swimos::agent::lanes::{JoinMapLane, JoinValueLane, LinkClosedResponse};
use swimos::agent::lanes::join_map::lifecycle::JoinMapLaneLifecycle;
use swimos::agent::lanes::join_value::lifecycle::JoinValueLaneLifecycle;
use swimos::agent::agent_lifecycle::{JoinMapContext, JoinValueContext};
use swimos::agent::agent_model::downlink::{MapDownlinkHandle, ValueDownlinkHandle};
use swimos::agent::config::{MapDownlinkConfig, SimpleDownlinkConfig};
use swimos::agent::stores::{MapStore, ValueStore};
use swimos::agent::{lifecycle, projections, AgentLaneModel};
use swimos_api::address::RelativeAddress;
use swimos_api::agent::AgentConfig;
use swimos_api::error::StoreError;
use swimos_api::persistence::{KeyValue, NodePersistence, RangeConsumer};
use swimos_messages::protocol::{
    Notification, Operation, RawRequestMessageDecoder, RawRequestMessageEncoder,
    RawResponseMessageDecoder, RequestMessage,
};
use swimos_runtime::agent::{
    AgentAttachmentRequest, AgentRouteChannels, AgentRouteDescriptor, AgentRouteTask,
    AgentRuntimeConfig, CombinedAgentConfig, CommanderKey, DisconnectionReason, LinkRequest,
};
use swimos_agent_protocol::encoding::downlink::{DownlinkNotificationEncoder, DownlinkOperationDecoder};
use swimos_agent_protocol::encoding::map::{MapMessageEncoder, MapOperationDecoder};
use swimos_agent_protocol::{DownlinkNotification, MapMessage, MapOperation};
use swimos_api::agent::DownlinkKind;
use swimos_api::error::{DownlinkFailureReason, DownlinkRuntimeError};
use swimos_runtime::agent::DownlinkRequest;
use swimos_utilities::byte_channel::{byte_channel, ByteReader, ByteWriter};
use swimos_utilities::trigger::{self, promise};
use tokio_util::codec::Encoder;
use tokio::sync::mpsc;
use tokio_util::codec::{FramedRead, FramedWrite};
use uuid::Uuid;

static LOG: Mutex<Vec<Value>> = Mutex::new(Vec::new());
/// commanders registered by the running agent instance (target node -> commander)
/// The stop trigger of the running instance: normally fired by the script's stop / restart action, but the
/// instruction `trigstop` fires it from inside a handler, i.e. at an instant at which the agent is in the middle of
/// a cycle (a stop request that arrives while a handler runs and a lane response is about to be written).
static STOP_TX: Mutex<Option<trigger::Sender>> = Mutex::new(None);
static COMMANDERS: Mutex<Vec<(String, swimos_agent::commander::Commander<TestAgent>)>> = Mutex::new(Vec::new());

fn log(v: Value) {
    LOG.lock().push(v);
}

/// number of log entries other than the `settled` markers
fn log_activity() -> usize {
    LOG.lock().iter().filter(|e| e["e"] != "settled").count()
}

// ------------------------------------------------------------------------------------ agent

#[derive(AgentLaneModel)]
#[projections]
pub struct TestAgent {
    val: ValueLane<i32>,
    val2: ValueLane<i32>,
    #[item(transient)]
    tval: ValueLane<i32>,
    map: MapLane<i32, i32>,
    omap: MapLane<i32, i32, BTreeMap<i32, i32>>,
    #[item(transient)]
    tmap: MapLane<i32, i32>,
    sup: SupplyLane<i32>,
    cmd: CommandLane<String>,
    vstore: ValueStore<i32>,
    mstore: MapStore<i32, i32>,
    // stateless lanes (never persisted) and the HTTP lane; declared last so that the ids of the lanes above stay
    // what they were
    dem: DemandLane<i32>,
    dmap: DemandMapLane<i32, i32>,
    http: SimpleHttpLane<i32>,
    // join lanes (always transient); declared last for the same reason
    jv: JoinValueLane<i32, i32>,
    jm: JoinMapLane<i32, i32, i32>,
}

#[derive(Clone)]
pub struct TestLifecycle;

fn sorted<M: IntoIterator<Item = (i32, i32)>>(m: M) -> Vec<(i32, i32)> {
    let mut v: Vec<(i32, i32)> = m.into_iter().collect();
    v.sort();
    v
}

/// The instruction language of the `cmd` lane: instructions separated by ';'
///   set <lane> <n> | upd <lane> <k> <v> | rem <lane> <k> | clr <lane> | sup <n>
///   send <node> <lane> <n>        (overwritable ad hoc command)
///   get <lane>                    (logs the value read)
///   cue dem | cuek dmap <k>       (cue the demand lane / a key of the demand-map lane)
///   stop
fn instruction(context: HandlerContext<TestAgent>, ins: &str) -> Option<BoxEventHandler<'static, TestAgent>> {
    let parts: Vec<&str> = ins.split_whitespace().collect();
    let num = |i: usize| parts.get(i).and_then(|s| s.parse::<i32>().ok());
    let h: BoxEventHandler<'static, TestAgent> = match parts.first().copied()? {
        "set" => {
            let n = num(2)?;
            match parts.get(1).copied()? {
                "val" => context.set_value(TestAgent::VAL, n).boxed(),
                "val2" => context.set_value(TestAgent::VAL2, n).boxed(),
                "tval" => context.set_value(TestAgent::TVAL, n).boxed(),
                "vstore" => context.set_value(TestAgent::VSTORE, n).boxed(),
                _ => return None,
            }
        }
        "upd" => {
            let (k, v) = (num(2)?, num(3)?);
            match parts.get(1).copied()? {
                "map" => context.update(TestAgent::MAP, k, v).boxed(),
                "omap" => context.update(TestAgent::OMAP, k, v).boxed(),
                "tmap" => context.update(TestAgent::TMAP, k, v).boxed(),
                "mstore" => context.update(TestAgent::MSTORE, k, v).boxed(),
                _ => return None,
            }
        }
        "rem" => {
            let k = num(2)?;
            match parts.get(1).copied()? {
                "map" => context.remove(TestAgent::MAP, k).boxed(),
                "omap" => context.remove(TestAgent::OMAP, k).boxed(),
                "tmap" => context.remove(TestAgent::TMAP, k).boxed(),
                "mstore" => context.remove(TestAgent::MSTORE, k).boxed(),
                _ => return None,
            }
        }
        "clr" => match parts.get(1).copied()? {
            "map" => context.clear(TestAgent::MAP).boxed(),
            "omap" => context.clear(TestAgent::OMAP).boxed(),
            "tmap" => context.clear(TestAgent::TMAP).boxed(),
            "mstore" => context.clear(TestAgent::MSTORE).boxed(),
            _ => return None,
        },
        "sup" => {
            let n = num(1)?;
            context
                .effect(move || log(json!({"e": "supply", "lane": "sup", "v": n})))
                .followed_by(context.supply(TestAgent::SUP, n))
                .boxed()
        }
        "send" => {
            let node = parts.get(1)?.to_string();
            let lane = parts.get(2)?.to_string();
            let n = num(3)?;
            let (node2, lane2) = (node.clone(), lane.clone());
            context
                .effect(move || log(json!({"e": "sent", "node": node2, "lane": lane2, "v": n, "ow": true})))
                .followed_by(SendOwned { node, lane, n })
                .boxed()
        }
        "get" => match parts.get(1).copied()? {
            "val" => context
                .get_value(TestAgent::VAL)
                .and_then(move |v| context.effect(move || log(json!({"e": "get", "lane": "val", "v": v}))))
                .boxed(),
            _ => return None,
        },
        // other ways an agent's handlers change a lane (same observable effect as set / upd / rem, other code paths)
        "tv" => {
            let n = num(2)?;
            match parts.get(1).copied()? {
                "val" => context.transform_value(TestAgent::VAL, move |_| n).boxed(),
                "val2" => context.transform_value(TestAgent::VAL2, move |_| n).boxed(),
                "tval" => context.transform_value(TestAgent::TVAL, move |_| n).boxed(),
                _ => return None,
            }
        }
        "te" => {
            let (k, v) = (num(2)?, num(3)?);
            match parts.get(1).copied()? {
                "map" => context.transform_entry(TestAgent::MAP, k, move |_| Some(v)).boxed(),
                "omap" => context.transform_entry(TestAgent::OMAP, k, move |_| Some(v)).boxed(),
                "tmap" => context.transform_entry(TestAgent::TMAP, k, move |_| Some(v)).boxed(),
                _ => return None,
            }
        }
        "ter" => {
            let k = num(2)?;
            match parts.get(1).copied()? {
                "map" => context.transform_entry(TestAgent::MAP, k, move |_| None).boxed(),
                "omap" => context.transform_entry(TestAgent::OMAP, k, move |_| None).boxed(),
                "tmap" => context.transform_entry(TestAgent::TMAP, k, move |_| None).boxed(),
                _ => return None,
            }
        }
        "rmap" => {
            let (k, v) = (num(2)?, num(3)?);
            match parts.get(1).copied()? {
                "map" => context.replace_map(TestAgent::MAP, vec![(k, v)]).boxed(),
                "omap" => context.replace_map(TestAgent::OMAP, vec![(k, v)]).boxed(),
                "tmap" => context.replace_map(TestAgent::TMAP, vec![(k, v)]).boxed(),
                _ => return None,
            }
        }
        // later <ms> <instruction>: the instruction runs from a timer; susp <instruction>: from a suspended future
        "later" => {
            let ms = num(1)? as u64;
            let rest = parts[2..].join(" ");
            context.run_after(Duration::from_millis(ms), Deferred { text: rest, inner: None }).boxed()
        }
        "susp" => {
            let rest = parts[1..].join(" ");
            context.suspend(async move { Deferred { text: rest, inner: None } }).boxed()
        }
        // csend <node> <n> / cqueue <node> <n>: a command through a registered commander (overwritable / queued);
        // the commander is registered the first time the target is used
        op @ ("csend" | "cqueue") => {
            let node = parts.get(1)?.to_string();
            let n = num(2)?;
            let queued = op == "cqueue";
            let node2 = node.clone();
            context
                .effect(move || log(json!({"e": "sent", "node": node2, "lane": "in", "v": n, "ow": !queued, "via": "commander"})))
                .followed_by(ViaCommander { node, n, queued, inner: None })
                .boxed()
        }
        // cue dem: the demand lane computes a value (on_cue) and sends it to every linked remote
        "cue" => match parts.get(1).copied()? {
            "dem" => context
                .effect(|| log(json!({"e": "cuei", "lane": "dem"})))
                .followed_by(context.cue(TestAgent::DEM))
                .boxed(),
            _ => return None,
        },
        // cuek dmap <k>: the demand-map lane computes the entry for k (on_cue_key)
        "cuek" => {
            let k = num(2)?;
            match parts.get(1).copied()? {
                "dmap" => context
                    .effect(move || log(json!({"e": "cuei", "lane": "dmap", "k": k})))
                    .followed_by(context.cue_key(TestAgent::DMAP, k))
                    .boxed(),
                _ => return None,
            }
        }
        "stop" => context.stop().boxed(),
        "trigstop" => context
            .effect(|| {
                if let Some(t) = STOP_TX.lock().take() {
                    log(json!({"e": "stopping"}));
                    t.trigger();
                }
            })
            .boxed(),
        // ---- join lanes and hosted downlinks (configuration E, hosted downlinks / join lanes)
        // jadd jv <key> <node> <resp> | jmadd jm <link> <node> <resp>: add a downlink to the join lane; <resp> (retry |
        // abandon | delete) is what the join lifecycle answers when that link closes
        op @ ("jadd" | "jmadd") => {
            let key = num(2)?;
            let node = parts.get(3)?.to_string();
            let resp = parts.get(4).copied().unwrap_or("abandon").to_string();
            let lane = if op == "jadd" { "jv" } else { "jm" };
            let id = node_id(&node);
            let (node2, resp2) = (node.clone(), resp.clone());
            let note = context.effect(move || {
                let mut g = JRESP.lock();
                g.retain(|((l, k), _)| !(*l == lane && *k == key));
                g.push(((lane, key), resp2.clone()));
                log(json!({"e": "jadd", "lane": lane, "key": key, "id": id, "node": node2, "resp": resp2}));
            });
            if op == "jadd" {
                note.followed_by(context.add_downlink(TestAgent::JV, key, None, &node, "lane")).boxed()
            } else {
                note.followed_by(context.add_map_downlink(TestAgent::JM, key, None, &node, "lane")).boxed()
            }
        }
        // jrem jv <key> | jmrem jm <link>: remove the downlink; the lane's map is read before and after in the same handler
        "jrem" => {
            let key = num(2)?;
            context
                .get_map(TestAgent::JV)
                .and_then(move |before: HashMap<i32, i32>| {
                    context.remove_downlink(TestAgent::JV, key).followed_by(context.get_map(TestAgent::JV).and_then(
                        move |after: HashMap<i32, i32>| {
                            context.effect(move || {
                                log(json!({"e": "jrem", "lane": "jv", "key": key, "before": sorted(before), "after": sorted(after)}))
                            })
                        },
                    ))
                })
                .boxed()
        }
        "jmrem" => {
            let key = num(2)?;
            context
                .get_map(TestAgent::JM)
                .and_then(move |before: HashMap<i32, i32>| {
                    context.remove_downlink(TestAgent::JM, key).followed_by(context.get_map(TestAgent::JM).and_then(
                        move |after: HashMap<i32, i32>| {
                            context.effect(move || {
                                log(json!({"e": "jrem", "lane": "jm", "key": key, "before": sorted(before), "after": sorted(after)}))
                            })
                        },
                    ))
                })
                .boxed()
        }
        // jget jv | jget jm: logs the lane's map
        "jget" => match parts.get(1).copied()? {
            "jv" => context
                .get_map(TestAgent::JV)
                .and_then(move |m: HashMap<i32, i32>| context.effect(move || log(json!({"e": "jget", "lane": "jv", "map": sorted(m)}))))
                .boxed(),
            "jm" => context
                .get_map(TestAgent::JM)
                .and_then(move |m: HashMap<i32, i32>| context.effect(move || log(json!({"e": "jget", "lane": "jm", "map": sorted(m)}))))
                .boxed(),
            _ => return None,
        },
        // dlv <node> <flags> | dlm <node> <flags>: open a value / map downlink (flags: 1 = events when not synced,
        // 2 = keep the downlink when it is unlinked); its handle goes to the value / map slot
        "dlv" => {
            let node = parts.get(1)?.to_string();
            let flags = num(2).unwrap_or(0);
            open_value_dl(context, node_id(&node), node, flags)
        }
        "dlm" => {
            let node = parts.get(1)?.to_string();
            let flags = num(2).unwrap_or(0);
            open_map_dl(context, node_id(&node), node, flags)
        }
        // dlset <n>: write through the handle in the value slot; dlmu <k> <v> | dlmr <k> | dlmc: through the map slot
        "dlset" => {
            let n = num(1)?;
            context
                .effect(move || {
                    let mut g = DLV.lock();
                    match g.as_mut() {
                        Some((id, h)) => {
                            let ok = h.set(n).is_ok();
                            log(json!({"e": "dlset", "id": *id, "v": n, "ok": ok}));
                        }
                        None => log(json!({"e": "dlset", "id": -1, "v": n, "ok": false})),
                    }
                })
                .boxed()
        }
        op @ ("dlmu" | "dlmr" | "dlmc") => {
            let k = num(1).unwrap_or(0);
            let v = num(2).unwrap_or(0);
            let op = op.to_string();
            context
                .effect(move || {
                    let g = DLM.lock();
                    match g.as_ref() {
                        Some((id, h)) => {
                            let (ok, m) = match op.as_str() {
                                "dlmu" => (h.update(k, v).is_ok(), "upd"),
                                "dlmr" => (h.remove(k).is_ok(), "rem"),
                                _ => (h.clear().is_ok(), "clr"),
                            };
                            log(json!({"e": "dlmop", "id": *id, "m": m, "k": k, "v": v, "ok": ok}));
                        }
                        None => log(json!({"e": "dlmop", "id": -1, "m": op, "k": k, "v": v, "ok": false})),
                    }
                })
                .boxed()
        }
        // dlclose v | dlclose m: stop the downlink through its handle
        "dlclose" => {
            let which = parts.get(1).copied().unwrap_or("v").to_string();
            context
                .effect(move || {
                    if which == "m" {
                        let mut g = DLM.lock();
                        if let Some((id, h)) = g.as_mut() {
                            log(json!({"e": "dlclose", "id": *id, "linked": h.is_linked()}));
                            h.stop();
                        }
                    } else {
                        let mut g = DLV.lock();
                        if let Some((id, h)) = g.as_mut() {
                            log(json!({"e": "dlclose", "id": *id, "linked": h.is_linked()}));
                            h.stop();
                        }
                    }
                })
                .boxed()
        }
        _ => return None,
    };
    Some(h)
}

/// the downlink id carried by a node uri "/d<id>" (-1 if it has another shape)
fn node_id(node: &str) -> i64 {
    node.strip_prefix("/d").and_then(|s| s.parse::<i64>().ok()).unwrap_or(-1)
}

/// what the join lifecycle of (lane, key) answers when the link closes
static JRESP: Mutex<Vec<((&'static str, i32), String)>> = Mutex::new(Vec::new());
/// the handle of the value / map downlink opened last by the running agent instance
static DLV: Mutex<Option<(i64, ValueDownlinkHandle<i32>)>> = Mutex::new(None);
static DLM: Mutex<Option<(i64, MapDownlinkHandle<i32, i32>)>> = Mutex::new(None);

fn jresp(lane: &'static str, key: i32) -> (String, LinkClosedResponse) {
    let name = JRESP.lock().iter().find(|((l, k), _)| *l == lane && *k == key).map(|(_, r)| r.clone()).unwrap_or_else(|| "abandon".to_string());
    let r = match name.as_str() {
        "retry" => LinkClosedResponse::Retry,
        "delete" => LinkClosedResponse::Delete,
        _ => LinkClosedResponse::Abandon,
    };
    (name, r)
}

/// A downlink lifecycle callback: its log entries are bracketed by a begin ("ph": "b", with the arguments) and an end
/// ("ph": "e") entry; `body` runs in between.
fn dlcb<H>(context: HandlerContext<TestAgent>, id: i64, cb: &'static str, mut fields: Value, body: H) -> impl EventHandler<TestAgent> + 'static
where
    H: EventHandler<TestAgent> + 'static,
{
    fields["e"] = json!("dlcb");
    fields["id"] = json!(id);
    fields["cb"] = json!(cb);
    fields["ph"] = json!("b");
    context
        .effect(move || log(fields))
        .followed_by(body)
        .followed_by(context.effect(move || log(json!({"e": "dlcb", "id": id, "cb": cb, "ph": "e"}))))
}

fn open_value_dl(context: HandlerContext<TestAgent>, id: i64, node: String, flags: i32) -> BoxEventHandler<'static, TestAgent> {
    let config = SimpleDownlinkConfig { events_when_not_synced: flags & 1 != 0, terminate_on_unlinked: flags & 2 == 0 };
    let open = context
        .value_downlink_builder::<i32>(None, &node, "lane", config)
        .on_linked(move |c: HandlerContext<TestAgent>| dlcb(c, id, "linked", json!({}), c.effect(|| ())))
        .on_synced(move |c: HandlerContext<TestAgent>, v: &i32| dlcb(c, id, "synced", json!({"v": *v}), c.effect(|| ())))
        .on_event(move |c: HandlerContext<TestAgent>, v: &i32| dlcb(c, id, "event", json!({"v": *v}), c.set_value(TestAgent::VAL, *v)))
        .on_set(move |c: HandlerContext<TestAgent>, prev: Option<i32>, v: &i32| dlcb(c, id, "set", json!({"v": *v, "prev": prev}), c.effect(|| ())))
        .on_unlinked(move |c: HandlerContext<TestAgent>| dlcb(c, id, "unlinked", json!({}), c.effect(|| ())))
        .on_failed(move |c: HandlerContext<TestAgent>| dlcb(c, id, "failed", json!({}), c.effect(|| ())))
        .done();
    context
        .effect(move || log(json!({"e": "dlopen", "id": id, "kind": "value", "flags": flags})))
        .followed_by(open.and_then(move |h: ValueDownlinkHandle<i32>| {
            context.effect(move || {
                *DLV.lock() = Some((id, h));
            })
        }))
        .boxed()
}

fn open_map_dl(context: HandlerContext<TestAgent>, id: i64, node: String, flags: i32) -> BoxEventHandler<'static, TestAgent> {
    let config = MapDownlinkConfig { events_when_not_synced: flags & 1 != 0, terminate_on_unlinked: flags & 2 == 0 };
    let open = context
        .map_downlink_builder::<i32, i32>(None, &node, "lane", config)
        .on_linked(move |c: HandlerContext<TestAgent>| dlcb(c, id, "linked", json!({}), c.effect(|| ())))
        .on_synced(move |c: HandlerContext<TestAgent>, m: &HashMap<i32, i32>| dlcb(c, id, "synced", json!({"map": sorted(m.clone())}), c.effect(|| ())))
        .on_update(move |c: HandlerContext<TestAgent>, k: i32, m: &HashMap<i32, i32>, prev: Option<i32>, v: &i32| {
            dlcb(c, id, "update", json!({"k": k, "v": *v, "prev": prev, "map": sorted(m.clone())}), c.update(TestAgent::MAP, k, *v))
        })
        .on_remove(move |c: HandlerContext<TestAgent>, k: i32, m: &HashMap<i32, i32>, prev: i32| {
            dlcb(c, id, "remove", json!({"k": k, "prev": prev, "map": sorted(m.clone())}), c.remove(TestAgent::MAP, k))
        })
        .on_clear(move |c: HandlerContext<TestAgent>, m: HashMap<i32, i32>| dlcb(c, id, "clear", json!({"map": sorted(m)}), c.clear(TestAgent::MAP)))
        .on_unlinked(move |c: HandlerContext<TestAgent>| dlcb(c, id, "unlinked", json!({}), c.effect(|| ())))
        .on_failed(move |c: HandlerContext<TestAgent>| dlcb(c, id, "failed", json!({}), c.effect(|| ())))
        .done();
    context
        .effect(move || log(json!({"e": "dlopen", "id": id, "kind": "map", "flags": flags})))
        .followed_by(open.and_then(move |h: MapDownlinkHandle<i32, i32>| {
            context.effect(move || {
                *DLM.lock() = Some((id, h));
            })
        }))
        .boxed()
}

/// Sends through the commander registered for the node, registering it first if there is none yet.
struct ViaCommander {
    node: String,
    n: i32,
    queued: bool,
    inner: Option<BoxEventHandler<'static, TestAgent>>,
}

impl swimos::agent::event_handler::HandlerAction<TestAgent> for ViaCommander {
    type Completion = ();
    fn step(
        &mut self,
        action_context: &mut swimos::agent::event_handler::ActionContext<TestAgent>,
        meta: swimos_agent::AgentMetadata,
        context: &TestAgent,
    ) -> swimos::agent::event_handler::StepResult<Self::Completion> {
        if self.inner.is_none() {
            let hc: HandlerContext<TestAgent> = HandlerContext::default();
            let (n, queued) = (self.n, self.queued);
            let known = COMMANDERS.lock().iter().find(|(t, _)| t == &self.node).map(|(_, c)| *c);
            let h: BoxEventHandler<'static, TestAgent> = match known {
                Some(c) => (if queued { c.send_queued(n) } else { c.send(n) }).boxed(),
                None => {
                    let node = self.node.clone();
                    hc.create_commander(None, &self.node, "in")
                        .and_then(move |c: swimos_agent::commander::Commander<TestAgent>| {
                            COMMANDERS.lock().push((node, c));
                            if queued { c.send_queued(n) } else { c.send(n) }
                        })
                        .boxed()
                }
            };
            self.inner = Some(h);
        }
        self.inner.as_mut().unwrap().step(action_context, meta, context)
    }
}

/// An instruction that is only turned into a handler when it is first stepped (the boxed handlers are not
/// `Send`; the harness runs on one thread).
struct Deferred {
    text: String,
    inner: Option<BoxEventHandler<'static, TestAgent>>,
}

unsafe impl Send for Deferred {}

impl swimos::agent::event_handler::HandlerAction<TestAgent> for Deferred {
    type Completion = ();
    fn step(
        &mut self,
        action_context: &mut swimos::agent::event_handler::ActionContext<TestAgent>,
        meta: swimos_agent::AgentMetadata,
        context: &TestAgent,
    ) -> swimos::agent::event_handler::StepResult<Self::Completion> {
        if self.inner.is_none() {
            let hc: HandlerContext<TestAgent> = HandlerContext::default();
            let text = self.text.clone();
            log(json!({"e": "deferred", "v": text}));
            self.inner = Some(instruction(hc, &self.text).unwrap_or_else(|| hc.effect(|| ()).boxed()));
        }
        self.inner.as_mut().unwrap().step(action_context, meta, context)
    }
}

/// `send_command` borrows its address strings; this owns them.
struct SendOwned {
    node: String,
    lane: String,
    n: i32,
}

impl swimos::agent::event_handler::HandlerAction<TestAgent> for SendOwned {
    type Completion = ();
    fn step(
        &mut self,
        action_context: &mut swimos::agent::event_handler::ActionContext<TestAgent>,
        meta: swimos_agent::AgentMetadata,
        context: &TestAgent,
    ) -> swimos::agent::event_handler::StepResult<Self::Completion> {
        let hc: HandlerContext<TestAgent> = HandlerContext::default();
        let mut inner = hc.send_command(None, &self.node, &self.lane, self.n);
        inner.step(action_context, meta, context)
    }
}

#[lifecycle(TestAgent)]
impl TestLifecycle {
    #[on_start]
    pub fn on_start(&self, context: HandlerContext<TestAgent>) -> impl EventHandler<TestAgent> {
        context
            .get_value(TestAgent::VAL)
            .and_then(move |val| {
                context.get_value(TestAgent::VAL2).and_then(move |val2| {
                    context.get_value(TestAgent::TVAL).and_then(move |tval| {
                        context.get_value(TestAgent::VSTORE).and_then(move |vstore| {
                            context.get_map(TestAgent::MAP).and_then(move |map: HashMap<i32, i32>| {
                                context.get_map(TestAgent::OMAP).and_then(move |omap: BTreeMap<i32, i32>| {
                                    context.get_map(TestAgent::TMAP).and_then(move |tmap: HashMap<i32, i32>| {
                                        context.get_map(TestAgent::MSTORE).and_then(move |mstore: HashMap<i32, i32>| {
                                            context.effect(move || {
                                                log(json!({"e": "start", "val": val, "val2": val2, "tval": tval, "vstore": vstore,
                                                    "map": sorted(map), "omap": sorted(omap), "tmap": sorted(tmap), "mstore": sorted(mstore)}))
                                            })
                                        })
                                    })
                                })
                            })
                        })
                    })
                })
            })
    }

    #[on_stop]
    pub fn on_stop(&self, context: HandlerContext<TestAgent>) -> impl EventHandler<TestAgent> {
        context.effect(|| log(json!({"e": "stop"})))
    }

    #[on_set(val)]
    pub fn on_set_val(&self, context: HandlerContext<TestAgent>, new: &i32, prev: Option<i32>) -> impl EventHandler<TestAgent> {
        let n = *new;
        context.effect(move || log(json!({"e": "lane", "lane": "val", "op": "set", "v": n, "prev": prev})))
    }

    #[on_set(val2)]
    pub fn on_set_val2(&self, context: HandlerContext<TestAgent>, new: &i32, prev: Option<i32>) -> impl EventHandler<TestAgent> {
        let n = *new;
        context.effect(move || log(json!({"e": "lane", "lane": "val2", "op": "set", "v": n, "prev": prev})))
    }

    #[on_set(tval)]
    pub fn on_set_tval(&self, context: HandlerContext<TestAgent>, new: &i32, prev: Option<i32>) -> impl EventHandler<TestAgent> {
        let n = *new;
        context.effect(move || log(json!({"e": "lane", "lane": "tval", "op": "set", "v": n, "prev": prev})))
    }

    #[on_set(vstore)]
    pub fn on_set_vstore(&self, context: HandlerContext<TestAgent>, new: &i32, prev: Option<i32>) -> impl EventHandler<TestAgent> {
        let n = *new;
        context.effect(move || log(json!({"e": "lane", "lane": "vstore", "op": "set", "v": n, "prev": prev})))
    }

    #[on_update(map)]
    pub fn on_update_map(&self, context: HandlerContext<TestAgent>, _m: &HashMap<i32, i32>, key: i32, prev: Option<i32>, new: &i32) -> impl EventHandler<TestAgent> {
        let n = *new;
        context.effect(move || log(json!({"e": "lane", "lane": "map", "op": "upd", "k": key, "v": n, "prev": prev})))
    }

    #[on_remove(map)]
    pub fn on_remove_map(&self, context: HandlerContext<TestAgent>, _m: &HashMap<i32, i32>, key: i32, prev: i32) -> impl EventHandler<TestAgent> {
        context.effect(move || log(json!({"e": "lane", "lane": "map", "op": "rem", "k": key, "prev": prev})))
    }

    #[on_clear(map)]
    pub fn on_clear_map(&self, context: HandlerContext<TestAgent>, prev: HashMap<i32, i32>) -> impl EventHandler<TestAgent> {
        context.effect(move || log(json!({"e": "lane", "lane": "map", "op": "clr", "prev": sorted(prev)})))
    }

    #[on_update(omap)]
    pub fn on_update_omap(&self, context: HandlerContext<TestAgent>, _m: &BTreeMap<i32, i32>, key: i32, prev: Option<i32>, new: &i32) -> impl EventHandler<TestAgent> {
        let n = *new;
        context.effect(move || log(json!({"e": "lane", "lane": "omap", "op": "upd", "k": key, "v": n, "prev": prev})))
    }

    #[on_remove(omap)]
    pub fn on_remove_omap(&self, context: HandlerContext<TestAgent>, _m: &BTreeMap<i32, i32>, key: i32, prev: i32) -> impl EventHandler<TestAgent> {
        context.effect(move || log(json!({"e": "lane", "lane": "omap", "op": "rem", "k": key, "prev": prev})))
    }

    #[on_clear(omap)]
    pub fn on_clear_omap(&self, context: HandlerContext<TestAgent>, prev: BTreeMap<i32, i32>) -> impl EventHandler<TestAgent> {
        context.effect(move || log(json!({"e": "lane", "lane": "omap", "op": "clr", "prev": sorted(prev)})))
    }

    #[on_update(tmap)]
    pub fn on_update_tmap(&self, context: HandlerContext<TestAgent>, _m: &HashMap<i32, i32>, key: i32, prev: Option<i32>, new: &i32) -> impl EventHandler<TestAgent> {
        let n = *new;
        context.effect(move || log(json!({"e": "lane", "lane": "tmap", "op": "upd", "k": key, "v": n, "prev": prev})))
    }

    #[on_remove(tmap)]
    pub fn on_remove_tmap(&self, context: HandlerContext<TestAgent>, _m: &HashMap<i32, i32>, key: i32, prev: i32) -> impl EventHandler<TestAgent> {
        context.effect(move || log(json!({"e": "lane", "lane": "tmap", "op": "rem", "k": key, "prev": prev})))
    }

    #[on_clear(tmap)]
    pub fn on_clear_tmap(&self, context: HandlerContext<TestAgent>, prev: HashMap<i32, i32>) -> impl EventHandler<TestAgent> {
        context.effect(move || log(json!({"e": "lane", "lane": "tmap", "op": "clr", "prev": sorted(prev)})))
    }

    #[on_update(mstore)]
    pub fn on_update_mstore(&self, context: HandlerContext<TestAgent>, _m: &HashMap<i32, i32>, key: i32, prev: Option<i32>, new: &i32) -> impl EventHandler<TestAgent> {
        let n = *new;
        context.effect(move || log(json!({"e": "lane", "lane": "mstore", "op": "upd", "k": key, "v": n, "prev": prev})))
    }

    #[on_remove(mstore)]
    pub fn on_remove_mstore(&self, context: HandlerContext<TestAgent>, _m: &HashMap<i32, i32>, key: i32, prev: i32) -> impl EventHandler<TestAgent> {
        context.effect(move || log(json!({"e": "lane", "lane": "mstore", "op": "rem", "k": key, "prev": prev})))
    }

    #[on_clear(mstore)]
    pub fn on_clear_mstore(&self, context: HandlerContext<TestAgent>, prev: HashMap<i32, i32>) -> impl EventHandler<TestAgent> {
        context.effect(move || log(json!({"e": "lane", "lane": "mstore", "op": "clr", "prev": sorted(prev)})))
    }

    // ---- demand lane: the value of `val` at the moment the lane is asked
    #[on_cue(dem)]
    pub fn on_cue_dem(&self, context: HandlerContext<TestAgent>) -> impl swimos::agent::event_handler::HandlerAction<TestAgent, Completion = i32> {
        context.get_value(TestAgent::VAL).map(|v: i32| {
            log(json!({"e": "cue", "lane": "dem", "v": v}));
            v
        })
    }

    // ---- demand-map lane: a view of `map` (keys = its keys, entry = its entry)
    #[keys(dmap)]
    pub fn dmap_keys(&self, context: HandlerContext<TestAgent>) -> impl swimos::agent::event_handler::HandlerAction<TestAgent, Completion = HashSet<i32>> {
        context.get_map(TestAgent::MAP).map(|m: HashMap<i32, i32>| {
            let mut keys: Vec<i32> = m.keys().copied().collect();
            keys.sort();
            log(json!({"e": "keys", "lane": "dmap", "keys": keys}));
            m.keys().copied().collect::<HashSet<i32>>()
        })
    }

    #[on_cue_key(dmap)]
    pub fn dmap_cue_key(&self, context: HandlerContext<TestAgent>, key: i32) -> impl swimos::agent::event_handler::HandlerAction<TestAgent, Completion = Option<i32>> {
        context.get_entry(TestAgent::MAP, key).map(move |v: Option<i32>| {
            log(json!({"e": "cuekey", "lane": "dmap", "k": key, "v": v}));
            v
        })
    }

    // ---- HTTP lane: GET / HEAD read `val`, PUT / POST set it, DELETE only answers; the request id travels in the URI
    #[on_get(http)]
    pub fn http_get(&self, context: HandlerContext<TestAgent>, http: HttpRequestContext) -> impl swimos::agent::event_handler::HandlerAction<TestAgent, Completion = Response<i32>> {
        let id = uri_id(&http);
        context.get_value(TestAgent::VAL).map(move |v: i32| {
            log(json!({"e": "hhand", "lane": "http", "m": "get", "id": id, "v": v}));
            Response::from(v)
        })
    }

    #[on_put(http)]
    pub fn http_put(&self, context: HandlerContext<TestAgent>, http: HttpRequestContext, value: i32) -> impl swimos::agent::event_handler::HandlerAction<TestAgent, Completion = UnitResponse> {
        let id = uri_id(&http);
        context
            .effect(move || log(json!({"e": "hhand", "lane": "http", "m": "put", "id": id, "v": value})))
            .followed_by(context.set_value(TestAgent::VAL, value))
            .followed_by(context.value(UnitResponse::default()))
    }

    #[on_post(http)]
    pub fn http_post(&self, context: HandlerContext<TestAgent>, http: HttpRequestContext, value: i32) -> impl swimos::agent::event_handler::HandlerAction<TestAgent, Completion = UnitResponse> {
        let id = uri_id(&http);
        context
            .effect(move || log(json!({"e": "hhand", "lane": "http", "m": "post", "id": id, "v": value})))
            .followed_by(context.set_value(TestAgent::VAL, value))
            .followed_by(context.value(UnitResponse::default()))
    }

    #[on_delete(http)]
    pub fn http_delete(&self, context: HandlerContext<TestAgent>, http: HttpRequestContext) -> impl swimos::agent::event_handler::HandlerAction<TestAgent, Completion = UnitResponse> {
        let id = uri_id(&http);
        context
            .effect(move || log(json!({"e": "hhand", "lane": "http", "m": "delete", "id": id})))
            .followed_by(context.value(UnitResponse::default()))
    }

    // ---- join lanes: every callback of the join lifecycles is logged; the lanes' own events are logged like a map lane's
    #[join_value_lifecycle(jv)]
    fn jv_lifecycle(&self, context: JoinValueContext<TestAgent, i32, i32>) -> impl JoinValueLaneLifecycle<i32, i32, TestAgent> + 'static {
        context
            .builder()
            .on_linked(|c: HandlerContext<TestAgent>, key: i32, remote: swimos_api::address::Address<&str>| {
                let id = node_id(remote.node);
                c.effect(move || log(json!({"e": "jcb", "lane": "jv", "cb": "linked", "key": key, "id": id})))
            })
            .on_synced(|c: HandlerContext<TestAgent>, key: i32, remote: swimos_api::address::Address<&str>, value: Option<&i32>| {
                let id = node_id(remote.node);
                let v = value.copied();
                c.effect(move || log(json!({"e": "jcb", "lane": "jv", "cb": "synced", "key": key, "id": id, "v": v})))
            })
            .on_unlinked(|c: HandlerContext<TestAgent>, key: i32, remote: swimos_api::address::Address<&str>| {
                let id = node_id(remote.node);
                c.effect(move || {
                    let (name, r) = jresp("jv", key);
                    log(json!({"e": "jcb", "lane": "jv", "cb": "unlinked", "key": key, "id": id, "resp": name}));
                    r
                })
            })
            .on_failed(|c: HandlerContext<TestAgent>, key: i32, remote: swimos_api::address::Address<&str>| {
                let id = node_id(remote.node);
                c.effect(move || {
                    let (name, r) = jresp("jv", key);
                    log(json!({"e": "jcb", "lane": "jv", "cb": "failed", "key": key, "id": id, "resp": name}));
                    r
                })
            })
            .done()
    }

    #[join_map_lifecycle(jm)]
    fn jm_lifecycle(&self, context: JoinMapContext<TestAgent, i32, i32, i32>) -> impl JoinMapLaneLifecycle<i32, i32, TestAgent> + 'static {
        fn keys_of(keys: &HashSet<i32>) -> Vec<i32> {
            let mut v: Vec<i32> = keys.iter().copied().collect();
            v.sort();
            v
        }
        context
            .builder()
            .on_linked(|c: HandlerContext<TestAgent>, link: i32, remote: swimos_api::address::Address<&str>| {
                let id = node_id(remote.node);
                c.effect(move || log(json!({"e": "jcb", "lane": "jm", "cb": "linked", "key": link, "id": id})))
            })
            .on_synced(|c: HandlerContext<TestAgent>, link: i32, remote: swimos_api::address::Address<&str>, keys: &HashSet<i32>| {
                let id = node_id(remote.node);
                let ks = keys_of(keys);
                c.effect(move || log(json!({"e": "jcb", "lane": "jm", "cb": "synced", "key": link, "id": id, "keys": ks})))
            })
            .on_unlinked(|c: HandlerContext<TestAgent>, link: i32, remote: swimos_api::address::Address<&str>, keys: HashSet<i32>| {
                let id = node_id(remote.node);
                let ks = keys_of(&keys);
                c.effect(move || {
                    let (name, r) = jresp("jm", link);
                    log(json!({"e": "jcb", "lane": "jm", "cb": "unlinked", "key": link, "id": id, "keys": ks, "resp": name}));
                    r
                })
            })
            .on_failed(|c: HandlerContext<TestAgent>, link: i32, remote: swimos_api::address::Address<&str>, keys: HashSet<i32>| {
                let id = node_id(remote.node);
                let ks = keys_of(&keys);
                c.effect(move || {
                    let (name, r) = jresp("jm", link);
                    log(json!({"e": "jcb", "lane": "jm", "cb": "failed", "key": link, "id": id, "keys": ks, "resp": name}));
                    r
                })
            })
            .done()
    }

    #[on_update(jv)]
    pub fn on_update_jv(&self, context: HandlerContext<TestAgent>, m: &HashMap<i32, i32>, key: i32, prev: Option<i32>, new: &i32) -> impl EventHandler<TestAgent> {
        let (n, map) = (*new, sorted(m.clone()));
        context.effect(move || log(json!({"e": "lane", "lane": "jv", "op": "upd", "k": key, "v": n, "prev": prev, "map": map})))
    }

    #[on_remove(jv)]
    pub fn on_remove_jv(&self, context: HandlerContext<TestAgent>, m: &HashMap<i32, i32>, key: i32, prev: i32) -> impl EventHandler<TestAgent> {
        let map = sorted(m.clone());
        context.effect(move || log(json!({"e": "lane", "lane": "jv", "op": "rem", "k": key, "prev": prev, "map": map})))
    }

    #[on_update(jm)]
    pub fn on_update_jm(&self, context: HandlerContext<TestAgent>, m: &HashMap<i32, i32>, key: i32, prev: Option<i32>, new: &i32) -> impl EventHandler<TestAgent> {
        let (n, map) = (*new, sorted(m.clone()));
        context.effect(move || log(json!({"e": "lane", "lane": "jm", "op": "upd", "k": key, "v": n, "prev": prev, "map": map})))
    }

    #[on_remove(jm)]
    pub fn on_remove_jm(&self, context: HandlerContext<TestAgent>, m: &HashMap<i32, i32>, key: i32, prev: i32) -> impl EventHandler<TestAgent> {
        let map = sorted(m.clone());
        context.effect(move || log(json!({"e": "lane", "lane": "jm", "op": "rem", "k": key, "prev": prev, "map": map})))
    }

    #[on_command(cmd)]
    pub fn on_cmd(&self, context: HandlerContext<TestAgent>, value: &String) -> impl EventHandler<TestAgent> {
        let text = value.clone();
        let t2 = text.clone();
        let handlers: Vec<BoxEventHandler<'static, TestAgent>> =
            text.split(';').filter_map(|ins| instruction(context, ins.trim())).collect();
        context
            .effect(move || log(json!({"e": "cmdh", "lane": "cmd", "v": t2})))
            .followed_by(Sequentially::new(handlers))
    }
}

/// the `id` parameter of the request URI (`/node?lane=http&id=7`), -1 if there is none
fn uri_id(http: &HttpRequestContext) -> i64 {
    http.uri()
        .query()
        .and_then(|q| q.split('&').find_map(|p| p.strip_prefix("id=").and_then(|v| v.parse::<i64>().ok())))
        .unwrap_or(-1)
}

// ------------------------------------------------------------------------------------ store

#[derive(Default, Debug)]
struct StoreState {
    ids: HashMap<String, u64>,
    values: HashMap<u64, Vec<u8>>,
    maps: HashMap<u64, BTreeMap<Vec<u8>, Vec<u8>>>,
}

/// A `NodePersistence` that records every call in the global log; the state survives the agent
/// instance (it is shared), so a restart sees exactly what was handed over.
#[derive(Clone, Default)]
struct RecordingStore(Arc<Mutex<StoreState>>);

struct MapIter(std::vec::IntoIter<(Vec<u8>, Vec<u8>)>, Option<(Vec<u8>, Vec<u8>)>);

impl RangeConsumer for MapIter {
    fn consume_next(&mut self) -> Result<Option<KeyValue<'_>>, StoreError> {
        self.1 = self.0.next();
        Ok(self.1.as_ref().map(|(k, v)| (k.as_slice(), v.as_slice())))
    }
}

fn txt(b: &[u8]) -> String {
    String::from_utf8_lossy(b).to_string()
}

impl RecordingStore {
    fn name_of(&self, id: u64) -> String {
        let g = self.0.lock();
        g.ids.iter().find(|(_, v)| **v == id).map(|(k, _)| k.clone()).unwrap_or_default()
    }
}

impl NodePersistence for RecordingStore {
    type MapCon<'a> = MapIter where Self: 'a;
    type LaneId = u64;

    fn id_for(&self, name: &str) -> Result<u64, StoreError> {
        let mut g = self.0.lock();
        let n = g.ids.len() as u64;
        Ok(*g.ids.entry(name.to_string()).or_insert(n))
    }

    fn get_value(&self, id: u64, buffer: &mut BytesMut) -> Result<Option<usize>, StoreError> {
        let g = self.0.lock();
        Ok(g.values.get(&id).map(|v| {
            buffer.extend_from_slice(v);
            v.len()
        }))
    }

    fn put_value(&mut self, id: u64, value: &[u8]) -> Result<(), StoreError> {
        eager_drain();
        log(json!({"e": "store", "op": "put", "item": self.name_of(id), "body": txt(value)}));
        self.0.lock().values.insert(id, value.to_vec());
        Ok(())
    }

    fn delete_value(&mut self, id: u64) -> Result<(), StoreError> {
        log(json!({"e": "store", "op": "del", "item": self.name_of(id)}));
        self.0.lock().values.remove(&id);
        Ok(())
    }

    fn update_map(&mut self, id: u64, key: &[u8], value: &[u8]) -> Result<(), StoreError> {
        eager_drain();
        log(json!({"e": "store", "op": "upd", "item": self.name_of(id), "key": txt(key), "body": txt(value)}));
        self.0.lock().maps.entry(id).or_default().insert(key.to_vec(), value.to_vec());
        Ok(())
    }

    fn remove_map(&mut self, id: u64, key: &[u8]) -> Result<(), StoreError> {
        eager_drain();
        log(json!({"e": "store", "op": "rem", "item": self.name_of(id), "key": txt(key)}));
        self.0.lock().maps.entry(id).or_default().remove(key);
        Ok(())
    }

    fn clear_map(&mut self, id: u64) -> Result<(), StoreError> {
        eager_drain();
        log(json!({"e": "store", "op": "clr", "item": self.name_of(id)}));
        self.0.lock().maps.remove(&id);
        Ok(())
    }

    fn read_map(&self, id: u64) -> Result<MapIter, StoreError> {
        let g = self.0.lock();
        let items: Vec<(Vec<u8>, Vec<u8>)> =
            g.maps.get(&id).map(|m| m.iter().map(|(k, v)| (k.clone(), v.clone())).collect()).unwrap_or_default();
        Ok(MapIter(items.into_iter(), None))
    }
}

// ------------------------------------------------------------------------------------ driver

const NODE: &str = "/node";
const AGENT_ID: Uuid = Uuid::from_u128(1);

fn remote_id(r: u64) -> Uuid {
    Uuid::from_u128(1000 + r as u128)
}

/// Counts the bytes taken from a byte channel so that "the remote made progress" is observable even
/// when no complete frame has arrived yet (channels smaller than a frame).
struct CountingReader {
    inner: ByteReader,
    count: Arc<std::sync::atomic::AtomicU64>,
}

impl tokio::io::AsyncRead for CountingReader {
    fn poll_read(
        mut self: std::pin::Pin<&mut Self>,
        cx: &mut std::task::Context<'_>,
        buf: &mut tokio::io::ReadBuf<'_>,
    ) -> std::task::Poll<std::io::Result<()>> {
        let before = buf.filled().len();
        let r = std::pin::Pin::new(&mut self.inner).poll_read(cx, buf);
        let n = buf.filled().len() - before;
        self.count.fetch_add(n as u64, std::sync::atomic::Ordering::Relaxed);
        BYTES_READ.fetch_add(n as u64, std::sync::atomic::Ordering::Relaxed);
        r
    }
}

static BYTES_READ: std::sync::atomic::AtomicU64 = std::sync::atomic::AtomicU64::new(0);

type RespReader = FramedRead<CountingReader, RawResponseMessageDecoder>;
/// The read ends of the remotes' response channels.  Global so that the recording store can look at
/// what has already been sent at the very moment a store call is made (cfg "eager_store_read").
static RXS: Mutex<Option<HashMap<u64, RespReader>>> = Mutex::new(None);
static EAGER: std::sync::atomic::AtomicBool = std::sync::atomic::AtomicBool::new(false);

/// Some(true): a frame was read and logged; Some(false): end of stream; None: nothing available.
fn poll_frame_global(r: u64) -> Option<bool> {
    let mut guard = RXS.lock();
    let map = guard.as_mut()?;
    let rx = map.get_mut(&r)?;
    // The byte channel's cooperative budget can answer Pending (with a self wake) although data is
    // there; a real task would simply be polled again, so poll again before concluding "nothing".
    let mut polled = rx.next().now_or_never();
    for _ in 0..2 {
        if polled.is_some() {
            break;
        }
        polled = rx.next().now_or_never();
    }
    match polled {
        Some(Some(Ok(msg))) => {
            let lane = msg.path.lane.to_string();
            let node = msg.path.node.to_string();
            let (kind, body) = match msg.envelope {
                Notification::Linked => ("linked", None),
                Notification::Synced => ("synced", None),
                Notification::Unlinked(b) => ("unlinked", b.map(|b| txt(b.as_ref()))),
                Notification::Event(b) => ("event", Some(txt(b.as_ref()))),
            };
            let mut e = json!({"e": "frame", "r": r, "lane": lane, "kind": kind});
            if let Some(b) = body {
                e["body"] = json!(b);
            }
            if node != NODE {
                e["node"] = json!(node);
            }
            if msg.origin != AGENT_ID {
                e["origin"] = json!(msg.origin.to_string());
            }
            log(e);
            Some(true)
        }
        Some(Some(Err(err))) => {
            log(json!({"e": "frame_error", "r": r, "err": err.to_string()}));
            map.remove(&r);
            Some(false)
        }
        Some(None) => {
            log(json!({"e": "eof", "r": r}));
            map.remove(&r);
            Some(false)
        }
        None => None,
    }
}

/// Everything that has been sent so far is read (and logged) now: used inside store calls so that a frame
/// that left before the store call is logged before it.
fn eager_drain() {
    if !EAGER.load(std::sync::atomic::Ordering::Relaxed) {
        return;
    }
    let ids: Vec<u64> = RXS.lock().as_ref().map(|m| m.keys().copied().collect()).unwrap_or_default();
    for r in ids {
        while let Some(true) = poll_frame_global(r) {}
    }
}

struct Remote {
    tx: Option<FramedWrite<ByteWriter, RawRequestMessageEncoder>>,
    completion: promise::Receiver<DisconnectionReason>,
    closed_logged: bool,
}

struct Target {
    node: String,
    lane: String,
    rx: FramedRead<CountingReader, RawRequestMessageDecoder>,
}

struct Instance {
    att_tx: mpsc::Sender<AgentAttachmentRequest>,
    task: tokio::task::JoinHandle<Result<(), String>>,
    link_rx: mpsc::Receiver<LinkRequest>,
    http_tx: mpsc::Sender<swimos_api::agent::HttpLaneRequest>,
}

fn start_instance(cfg: &Value, store: &Option<RecordingStore>) -> Instance {
    COMMANDERS.lock().clear();
    JRESP.lock().clear();
    *DLV.lock() = None;
    *DLM.lock() = None;
    let (att_tx, att_rx) = mpsc::channel(16);
    let (http_tx, http_rx) = mpsc::channel(16);
    let (link_tx, link_rx) = mpsc::channel(16);
    let (stop_tx, stop_rx) = trigger::trigger();
    let hours = Duration::from_secs(3600 * 24);
    let ms = |k: &str| cfg.get(k).and_then(|v| v.as_u64()).map(Duration::from_millis);
    let runtime_config = AgentRuntimeConfig {
        inactive_timeout: ms("inactive_ms").unwrap_or(hours),
        prune_remote_delay: ms("prune_ms").unwrap_or(hours),
        shutdown_timeout: ms("shutdown_ms").unwrap_or(Duration::from_secs(5)),
        item_init_timeout: Duration::from_secs(5),
        command_output_timeout: hours,
        command_msg_buffer: NonZeroUsize::new(cfg.get("cmd_buf").and_then(|v| v.as_u64()).unwrap_or(4096) as usize).unwrap(),
        ..Default::default()
    };
    // small lane buffers make the agent's lane writes block, so that the agent loop interleaves further
    // requests with a lane's pending output (sync in progress, backlog of events)
    let mut agent_config = AgentConfig::default();
    let buf = |k: &str| cfg.get(k).and_then(|v| v.as_u64()).and_then(|n| NonZeroUsize::new(n as usize));
    if buf("lane_out").is_some() || buf("lane_in").is_some() {
        let base = swimos_api::agent::LaneConfig::default();
        agent_config.default_lane_config = Some(swimos_api::agent::LaneConfig {
            input_buffer_size: buf("lane_in").unwrap_or(base.input_buffer_size),
            output_buffer_size: buf("lane_out").unwrap_or(base.output_buffer_size),
            transient: base.transient,
        });
    }
    // how often the agent asks again for a downlink that could not be opened / reopened (default: never)
    if let Some(n) = cfg.get("dl_retries").and_then(|v| v.as_u64()).and_then(|n| NonZeroUsize::new(n as usize)) {
        agent_config.keep_linked_retry = swimos_utilities::future::RetryStrategy::immediate(n);
    }
    let config = CombinedAgentConfig { agent_config, runtime_config };
    let agent = AgentModel::new(TestAgent::default, TestLifecycle.into_lifecycle());
    let task = AgentRouteTask::new(
        &agent,
        AgentRouteDescriptor { identity: AGENT_ID, route: NODE.parse().unwrap(), route_params: HashMap::new() },
        AgentRouteChannels::new(att_rx, http_rx, link_tx),
        stop_rx,
        config,
        None,
    );
    let fut: BoxFuture<'static, Result<(), String>> = match store {
        Some(s) => {
            let s = s.clone();
            task.run_agent_with_store(async move { Ok(s) }).map(|r| r.map_err(|e| e.to_string())).boxed()
        }
        None => task.run_agent().map(|r| r.map_err(|e| e.to_string())).boxed(),
    };
    let task = tokio::spawn(fut);
    *STOP_TX.lock() = Some(stop_tx);
    Instance { att_tx, task, link_rx, http_tx }
}

fn counting(inner: ByteReader) -> CountingReader {
    CountingReader { inner, count: Arc::new(std::sync::atomic::AtomicU64::new(0)) }
}

fn bytes_read() -> u64 {
    BYTES_READ.load(std::sync::atomic::Ordering::Relaxed)
}

async fn settle() {
    tokio::time::sleep(Duration::from_nanos(1)).await;
}

struct World {
    inst: Option<Instance>,
    remotes: HashMap<u64, Remote>,
    targets: Vec<Target>,
    store: Option<RecordingStore>,
    cfg: Value,
    /// HTTP requests whose response promise has not completed yet
    http_pending: Vec<(i64, swimos_api::agent::HttpResponseReceiver)>,
    /// the environment of the agent's hosted downlinks (the harness plays the downlink runtime and the remote lanes)
    dl: Downlinks,
}

/// The output side of an opened downlink as the harness reads it.
enum DlOut {
    Value(FramedRead<ByteReader, DownlinkOperationDecoder>),
    Map(FramedRead<ByteReader, MapOperationDecoder<i32, i32>>),
}

/// One attachment (generation) of a downlink: the channels the harness holds.
struct DlChan {
    gen: u64,
    kind: DownlinkKind,
    tx: Option<FramedWrite<ByteWriter, DownlinkNotificationEncoder>>,
    out: Option<DlOut>,
}

#[derive(Default)]
struct Downlinks {
    /// how requests for the downlink with this id are answered: "ok" (default) | "refuse" | "fatal" | "delay"
    policy: HashMap<i64, String>,
    /// number of requests seen per id
    gens: HashMap<i64, u64>,
    pending: Vec<(i64, u64, DownlinkRequest)>,
    chans: HashMap<i64, DlChan>,
}

impl World {
    /// Serve pending requests of the agent for outgoing command channels.
    fn serve_links(&mut self) {
        if let Some(inst) = self.inst.as_mut() {
            while let Ok(req) = inst.link_rx.try_recv() {
                match req {
                    LinkRequest::Commander(c) => {
                        let cap = self.cfg.get("target_cap").and_then(|v| v.as_u64()).unwrap_or(4096) as usize;
                        let (tx, rx) = byte_channel(NonZeroUsize::new(cap).unwrap());
                        let (node, lane) = match &c.key {
                            CommanderKey::Local(RelativeAddress { node, lane }) => (node.to_string(), lane.to_string()),
                            CommanderKey::Remote(_) => ("remote".to_string(), "".to_string()),
                        };
                        self.targets.push(Target { node, lane, rx: FramedRead::new(counting(rx), RawRequestMessageDecoder) });
                        let _ = c.promise.send(Ok(tx));
                    }
                    LinkRequest::Downlink(req) => {
                        let node = req.address.node.to_string();
                        let id = node_id(&node);
                        let gen = {
                            let g = self.dl.gens.entry(id).or_insert(0);
                            *g += 1;
                            *g
                        };
                        log(json!({"e": "dlreq", "id": id, "gen": gen, "kind": format!("{:?}", req.kind), "node": node,
                                   "lane": req.address.lane.to_string(), "host": req.remote.as_ref().map(|h| h.to_string())}));
                        self.dl.pending.push((id, gen, req));
                    }
                }
            }
        }
        self.answer_downlinks();
    }

    /// Answer the pending requests for downlinks according to the policy of their id.
    fn answer_downlinks(&mut self) {
        if self.dl.pending.is_empty() {
            return;
        }
        let cap = self.cfg.get("dl_cap").and_then(|v| v.as_u64()).unwrap_or(4096) as usize;
        let out_cap = self.cfg.get("dl_out_cap").and_then(|v| v.as_u64()).unwrap_or(4096) as usize;
        let mut still = vec![];
        for (id, gen, req) in std::mem::take(&mut self.dl.pending) {
            let how = self.dl.policy.get(&id).cloned().unwrap_or_else(|| "ok".to_string());
            match how.as_str() {
                "delay" => still.push((id, gen, req)),
                "refuse" | "fatal" => {
                    let reason = if how == "fatal" {
                        DownlinkFailureReason::UnresolvableLocal(req.address.clone())
                    } else {
                        DownlinkFailureReason::RemoteStopped
                    };
                    let taken = req.promise.send(Err(DownlinkRuntimeError::DownlinkConnectionFailed(reason))).is_ok();
                    log(json!({"e": "dlans", "id": id, "gen": gen, "how": how, "taken": taken}));
                }
                _ => {
                    let (in_tx, in_rx) = byte_channel(NonZeroUsize::new(cap).unwrap());
                    let (out_tx, out_rx) = byte_channel(NonZeroUsize::new(out_cap).unwrap());
                    let kind = req.kind;
                    let taken = req.promise.send(Ok((out_tx, in_rx))).is_ok();
                    log(json!({"e": "dlans", "id": id, "gen": gen, "how": "ok", "taken": taken}));
                    if taken {
                        let out = match kind {
                            DownlinkKind::Map => DlOut::Map(FramedRead::new(out_rx, MapOperationDecoder::default())),
                            _ => DlOut::Value(FramedRead::new(out_rx, DownlinkOperationDecoder)),
                        };
                        self.dl.chans.insert(id, DlChan { gen, kind, tx: Some(FramedWrite::new(in_tx, DownlinkNotificationEncoder)), out: Some(out) });
                    }
                }
            }
        }
        self.dl.pending = still;
    }

    /// Read what the agent's downlinks have written (nothing to do, and nothing logged, when no downlink was opened).
    fn read_dlout(&mut self) -> u64 {
        let mut n = 0;
        let mut ids: Vec<i64> = self.dl.chans.keys().copied().collect();
        ids.sort();
        for id in ids {
            let ch = self.dl.chans.get_mut(&id).unwrap();
            let gen = ch.gen;
            let mut closed = false;
            if let Some(out) = ch.out.as_mut() {
                loop {
                    // (polled again when pending: the byte channel's cooperative budget)
                    let mut item: Option<Option<Value>> = None;
                    for _ in 0..3 {
                        let polled = match out {
                            DlOut::Value(rx) => rx.next().now_or_never().map(|o| {
                                o.map(|r| match r {
                                    Ok(op) => json!({"body": txt(op.body.as_ref())}),
                                    Err(e) => json!({"err": e.to_string()}),
                                })
                            }),
                            DlOut::Map(rx) => rx.next().now_or_never().map(|o| {
                                o.map(|r| match r {
                                    Ok(MapOperation::Update { key, value }) => json!({"m": "upd", "k": key, "v": value}),
                                    Ok(MapOperation::Remove { key }) => json!({"m": "rem", "k": key}),
                                    Ok(MapOperation::Clear) => json!({"m": "clr"}),
                                    Err(e) => json!({"err": e.to_string()}),
                                })
                            }),
                        };
                        if polled.is_some() {
                            item = polled;
                            break;
                        }
                    }
                    match item {
                        Some(Some(mut v)) => {
                            let bad = v.get("err").is_some();
                            v["e"] = json!("dlout");
                            v["id"] = json!(id);
                            v["gen"] = json!(gen);
                            log(v);
                            n += 1;
                            if bad {
                                closed = true;
                                break;
                            }
                        }
                        Some(None) => {
                            log(json!({"e": "dlout_eof", "id": id, "gen": gen}));
                            closed = true;
                            break;
                        }
                        None => break,
                    }
                }
            }
            if closed {
                ch.out = None;
            }
        }
        n
    }

    /// The environment acts on the downlink with this id: it plays the remote lane (linked / synced / event / unlinked),
    /// closes the channels, feeds a frame that cannot be decoded, or drops the reader of the downlink's output.
    fn dl_action(&mut self, a: &Value) {
        let id = a["id"].as_i64().unwrap_or(-1);
        let what = a["do"].as_str().unwrap_or("");
        let mut e = json!({"e": "dlin", "id": id, "do": what});
        for f in ["v", "m", "key", "n"] {
            if let Some(x) = a.get(f) {
                e[f] = x.clone();
            }
        }
        let ch = match self.dl.chans.get_mut(&id) {
            Some(ch) => ch,
            None => {
                e["undelivered"] = json!("nochan");
                log(e);
                return;
            }
        };
        e["gen"] = json!(ch.gen);
        match what {
            "close" => {
                ch.tx = None;
                ch.out = None;
                log(e);
                return;
            }
            // only the downlink's input ends; what it writes can still be read
            "closein" => {
                ch.tx = None;
                log(e);
                return;
            }
            "outfail" => {
                ch.out = None;
                log(e);
                return;
            }
            _ => {}
        }
        let map_like = matches!(ch.kind, DownlinkKind::Map | DownlinkKind::MapEvent);
        let num = |f: &str| a.get(f).and_then(|v| v.as_i64()).unwrap_or(0);
        let frame: Option<DownlinkNotification<BytesMut>> = match what {
            "linked" => Some(DownlinkNotification::Linked),
            "synced" => Some(DownlinkNotification::Synced),
            "unlinked" => Some(DownlinkNotification::Unlinked),
            // a frame whose body is not what the downlink decodes
            "fail" => Some(DownlinkNotification::Event { body: BytesMut::from(&b"@bogus{"[..]) }),
            "event" if !map_like => Some(DownlinkNotification::Event { body: BytesMut::from(format!("{}", num("v")).as_bytes()) }),
            "event" if ch.kind == DownlinkKind::Map => {
                let msg: MapMessage<i32, i32> = match a["m"].as_str().unwrap_or("") {
                    "upd" => MapMessage::Update { key: num("key") as i32, value: num("v") as i32 },
                    "rem" => MapMessage::Remove { key: num("key") as i32 },
                    "take" => MapMessage::Take(num("n") as u64),
                    "drop" => MapMessage::Drop(num("n") as u64),
                    _ => MapMessage::Clear,
                };
                let mut buf = BytesMut::new();
                MapMessageEncoder::default().encode(msg, &mut buf).expect("encode map message");
                Some(DownlinkNotification::Event { body: buf })
            }
            "event" => {
                // a map-event downlink (join map lane): the body is the Recon of the map message
                let text = match a["m"].as_str().unwrap_or("") {
                    "upd" => format!("@update(key:{}) {}", num("key"), num("v")),
                    "rem" => format!("@remove(key:{})", num("key")),
                    "take" => format!("@take({})", num("n")),
                    "drop" => format!("@drop({})", num("n")),
                    _ => "@clear".to_string(),
                };
                Some(DownlinkNotification::Event { body: BytesMut::from(text.as_bytes()) })
            }
            _ => None,
        };
        let delivered = match (frame, ch.tx.as_mut()) {
            (Some(f), Some(tx)) => {
                let mut fut = Box::pin(tx.send(f));
                let mut res = None;
                for _ in 0..4 {
                    if let Some(r) = (&mut fut).now_or_never() {
                        res = Some(r.is_ok());
                        break;
                    }
                }
                drop(fut);
                match res {
                    Some(true) => None,
                    Some(false) => {
                        ch.tx = None;
                        Some("readerdropped")
                    }
                    None => Some("blocked"),
                }
            }
            (None, _) => Some("unknown"),
            (_, None) => Some("closed"),
        };
        if let Some(why) = delivered {
            e["undelivered"] = json!(why);
        }
        log(e);
    }

    /// Look at the response promises of the outstanding HTTP requests (nothing to do, and nothing logged, when no
    /// HTTP request was ever sent).
    fn poll_http(&mut self) {
        if self.http_pending.is_empty() {
            return;
        }
        let mut still = vec![];
        for (id, mut rx) in std::mem::take(&mut self.http_pending) {
            match (&mut rx).now_or_never() {
                Some(Ok(resp)) => {
                    let mut e = json!({"e": "hresp", "id": id, "status": resp.status_code.as_u16(), "body": txt(resp.payload.as_ref())});
                    for h in resp.headers.iter() {
                        let name = h.name.as_str().to_lowercase();
                        let value = h.value.as_str().unwrap_or("?").to_string();
                        if name.contains("length") {
                            e["clen"] = json!(value);
                        } else if name.contains("type") {
                            e["ctype"] = json!(value);
                        }
                    }
                    log(e);
                }
                Some(Err(())) => log(json!({"e": "hdropped", "id": id})),
                None => still.push((id, rx)),
            }
        }
        self.http_pending = still;
    }

    async fn settle(&mut self) {
        for _ in 0..4 {
            settle().await;
            self.serve_links();
        }
        self.poll_http();
        self.check_closed();
        let mut g = LOG.lock();
        if g.last().map(|e| e["e"] != "settled").unwrap_or(true) {
            g.push(json!({"e": "settled"}));
        }
    }

    fn check_closed(&mut self) {
        for (r, rem) in self.remotes.iter_mut() {
            if !rem.closed_logged {
                if let Some(Ok(reason)) = (&mut rem.completion).now_or_never() {
                    log(json!({"e": "closed", "r": r, "reason": format!("{:?}", reason)}));
                    rem.closed_logged = true;
                }
            }
        }
    }

    /// Read up to `n` frames (0 = until nothing more arrives) from remote r. Returns frames read.
    async fn read(&mut self, r: u64, n: u64) -> u64 {
        let mut count = 0;
        loop {
            if n > 0 && count >= n {
                break;
            }
            let mut got = self.poll_frame(r);
            // no complete frame yet: let the writer continue for as long as bytes keep arriving
            while got.is_none() {
                let b0 = bytes_read();
                self.settle().await;
                got = self.poll_frame(r);
                if got.is_none() && bytes_read() == b0 {
                    break;
                }
            }
            match got {
                Some(true) => count += 1,
                _ => break,
            }
        }
        count
    }

    fn poll_frame(&mut self, r: u64) -> Option<bool> {
        poll_frame_global(r)
    }

    fn read_targets(&mut self) -> u64 {
        let mut n = 0;
        for t in self.targets.iter_mut() {
            loop {
                let mut polled = t.rx.next().now_or_never();
                for _ in 0..2 {
                    if polled.is_some() {
                        break;
                    }
                    polled = t.rx.next().now_or_never();
                }
                let msg = match polled {
                    Some(Some(Ok(msg))) => msg,
                    _ => break,
                };
                let body = match msg.envelope {
                    Operation::Command(b) => txt(b.as_ref()),
                    Operation::Link => "@link".to_string(),
                    Operation::Sync => "@sync".to_string(),
                    Operation::Unlink => "@unlink".to_string(),
                };
                log(json!({"e": "out", "chan_node": t.node, "chan_lane": t.lane,
                           "node": msg.path.node.to_string(), "lane": msg.path.lane.to_string(), "body": body}));
                n += 1;
            }
        }
        n
    }

    async fn quiesce(&mut self) {
        // drain every remote and every target until nothing moves any more
        // (the paused clock creeps by a millisecond per settle, so an agent timer may fire inside any of them: the
        // agent is only quiescent if a whole round passed in which nothing was logged, read or written)
        let mut calm = 0;
        for _ in 0..10_000 {
            let l0 = log_activity();
            let b0 = bytes_read();
            self.settle().await;
            let mut progress = 0;
            let ids: Vec<u64> = self.remotes.keys().copied().collect();
            for r in ids {
                while let Some(true) = self.poll_frame(r) {
                    progress += 1;
                }
            }
            progress += self.read_targets();
            progress += self.read_dlout();
            if progress == 0 && bytes_read() == b0 && log_activity() == l0 {
                calm += 1;
                if calm >= 2 {
                    break;
                }
            } else {
                calm = 0;
            }
        }
        let mut drained: Vec<u64> = RXS.lock().as_ref().map(|m| m.keys().copied().collect()).unwrap_or_default();
        drained.sort();
        log(json!({"e": "quiescent", "drained": drained}));
    }

    async fn stop_instance(&mut self, kill: bool) {
        if let Some(mut inst) = self.inst.take() {
            if kill {
                inst.task.abort();
                let _ = inst.task.await;
                log(json!({"e": "killed"}));
            } else {
                if let Some(t) = STOP_TX.lock().take() {
                    t.trigger();
                }
                // keep reading so that the shutdown's unlinked frames can be delivered
                for _ in 0..2000 {
                    if inst.task.is_finished() {
                        break;
                    }
                    self.settle().await;
                    let ids: Vec<u64> = self.remotes.keys().copied().collect();
                    for r in ids {
                        while let Some(true) = self.poll_frame(r) {}
                    }
                    self.read_targets();
                }
                let finished = inst.task.is_finished();
                let result = if finished { Some(inst.task.await) } else { inst.task.abort(); None };
                // frames written before the end are still readable: read them before the end is logged
                let ids: Vec<u64> = self.remotes.keys().copied().collect();
                for r in ids {
                    while let Some(true) = self.poll_frame(r) {}
                }
                self.read_targets();
                self.read_dlout();
                self.check_closed();
                match result {
                    Some(Ok(Ok(()))) => log(json!({"e": "stopped", "result": "ok"})),
                    Some(Ok(Err(e))) => log(json!({"e": "stopped", "result": e})),
                    Some(Err(e)) => log(json!({"e": "agent_panic", "what": format!("{}", e)})),
                    None => log(json!({"e": "hang", "where": "stop"})),
                }
            }
            // the instance is gone: every outstanding HTTP response promise is resolved one way or the other
            self.poll_http();
        }
    }
}

async fn run_script(case: &Value) {
    let cfg = case.get("cfg").cloned().unwrap_or(json!({}));
    let store = if cfg.get("store").and_then(|v| v.as_bool()).unwrap_or(false) { Some(RecordingStore::default()) } else { None };
    let mut w = World { inst: Some(start_instance(&cfg, &store)), remotes: HashMap::new(), targets: vec![], store, cfg: cfg.clone(), http_pending: vec![], dl: Downlinks::default() };
    w.settle().await;
    for a in case["acts"].as_array().unwrap() {
        let k = a["k"].as_str().unwrap();
        let r = a.get("r").and_then(|v| v.as_u64()).unwrap_or(0);
        match k {
            "attach" => {
                let cap = a.get("cap").and_then(|v| v.as_u64()).unwrap_or(4096) as usize;
                let (req_tx, req_rx) = byte_channel(NonZeroUsize::new(65536).unwrap());
                let (resp_tx, resp_rx) = byte_channel(NonZeroUsize::new(cap).unwrap());
                let (comp_tx, comp_rx) = promise::promise();
                let (att_tx, att_rx) = trigger::trigger();
                log(json!({"e": "attach", "r": r, "cap": cap}));
                if let Some(inst) = w.inst.as_ref() {
                    let _ = inst
                        .att_tx
                        .send(AgentAttachmentRequest::with_confirmation(remote_id(r), (resp_tx, req_rx), comp_tx, att_tx))
                        .await;
                }
                w.remotes.insert(r, Remote {
                    tx: Some(FramedWrite::new(req_tx, RawRequestMessageEncoder)),
                    completion: comp_rx,
                    closed_logged: false,
                });
                RXS.lock().get_or_insert_with(HashMap::new).insert(r, FramedRead::new(counting(resp_rx), RawResponseMessageDecoder));
                w.settle().await;
                let attached = att_rx.now_or_never().map(|r| r.is_ok()).unwrap_or(false);
                if !attached {
                    log(json!({"e": "attach_failed", "r": r}));
                }
            }
            "send" => {
                let lane = a["lane"].as_str().unwrap();
                let op = a["op"].as_str().unwrap();
                let body = a.get("body").and_then(|v| v.as_str()).unwrap_or("");
                let mut e = json!({"e": "req", "r": r, "lane": lane, "op": op});
                if op == "cmd" {
                    e["body"] = json!(body);
                }
                let nosettle = a.get("nosettle").and_then(|v| v.as_bool()).unwrap_or(false);
                if nosettle {
                    e["ns"] = json!(true);
                }
                log(e);
                if let Some(rem) = w.remotes.get_mut(&r) {
                    if let Some(tx) = rem.tx.as_mut() {
                        let path = RelativeAddress::new(NODE, lane);
                        let msg: RequestMessage<&str, &[u8]> = match op {
                            "link" => RequestMessage::link(remote_id(r), path),
                            "sync" => RequestMessage::sync(remote_id(r), path),
                            "unlink" => RequestMessage::unlink(remote_id(r), path),
                            _ => RequestMessage::command(remote_id(r), path, body.as_bytes()),
                        };
                        // the request channel is large; a send that does not complete at once is a hang of the reader
                        // (polled a few times: the byte channel's cooperative budget may answer Pending once)
                        let mut fut = Box::pin(tx.send(msg));
                        let mut done = false;
                        for _ in 0..4 {
                            if futures::poll!(fut.as_mut()).is_ready() {
                                done = true;
                                break;
                            }
                        }
                        drop(fut);
                        if !done {
                            log(json!({"e": "req_blocked", "r": r}));
                        }
                    }
                }
                if !nosettle {
                    w.settle().await;
                }
            }
            "http" => {
                // an HTTP request for a lane of the agent, the way the server's HTTP front end hands it to the agent
                // runtime: {"method", "lane" (absent: no lane parameter), "body", "id"}
                let id = a.get("id").and_then(|v| v.as_i64()).unwrap_or(-1);
                let method = a.get("method").and_then(|v| v.as_str()).unwrap_or("GET");
                let lane = a.get("lane").and_then(|v| v.as_str());
                let body = a.get("body").and_then(|v| v.as_str()).unwrap_or("");
                let nosettle = a.get("nosettle").and_then(|v| v.as_bool()).unwrap_or(false);
                let mut e = json!({"e": "hreq", "id": id, "method": method, "body": body});
                if let Some(l) = lane {
                    e["lane"] = json!(l);
                }
                if nosettle {
                    e["ns"] = json!(true);
                }
                log(e);
                let uri = match lane {
                    Some(l) => format!("{}?lane={}&id={}", NODE, l, id),
                    None => format!("{}?id={}", NODE, id),
                };
                let m = match method {
                    "GET" => swimos_api::http::Method::GET,
                    "HEAD" => swimos_api::http::Method::HEAD,
                    "PUT" => swimos_api::http::Method::PUT,
                    "POST" => swimos_api::http::Method::POST,
                    "DELETE" => swimos_api::http::Method::DELETE,
                    _ => swimos_api::http::Method::OPTIONS,
                };
                let request = swimos_api::http::HttpRequest {
                    method: m,
                    version: swimos_api::http::Version::HTTP_1_1,
                    uri: uri.parse::<swimos_api::http::Uri>().expect("bad uri"),
                    headers: vec![],
                    payload: Bytes::from(body.as_bytes().to_vec()),
                };
                let (req, rx) = swimos_api::agent::HttpLaneRequest::new(request);
                let sent = match w.inst.as_ref() {
                    Some(inst) => match inst.http_tx.try_send(req) {
                        Ok(()) => Ok(()),
                        Err(mpsc::error::TrySendError::Full(_)) => Err(true),
                        Err(mpsc::error::TrySendError::Closed(_)) => Err(false),
                    },
                    None => Err(false),
                };
                match sent {
                    Ok(()) => w.http_pending.push((id, rx)),
                    // no agent instance, or its request channel is closed: the request never reached it
                    // (full = the harness sent more requests back to back than its own channel holds)
                    Err(full) => log(json!({"e": "hdropped", "id": id, "unsent": true, "full": full})),
                }
                if !nosettle {
                    w.settle().await;
                }
            }
            "read" => {
                let n = a.get("n").and_then(|v| v.as_u64()).unwrap_or(0);
                w.read(r, n).await;
            }
            "readout" => {
                w.settle().await;
                w.read_targets();
            }
            // ---- the environment of the hosted downlinks
            "dl" => {
                w.dl_action(a);
                if !a.get("nosettle").and_then(|v| v.as_bool()).unwrap_or(false) {
                    w.settle().await;
                }
            }
            "dlopen" => {
                // how requests for this downlink are answered from now on (and the pending ones now)
                let id = a["id"].as_i64().unwrap_or(-1);
                let how = a["how"].as_str().unwrap_or("ok").to_string();
                log(json!({"e": "dlpolicy", "id": id, "how": how}));
                w.dl.policy.insert(id, how);
                w.answer_downlinks();
                w.settle().await;
            }
            "dlread" => {
                w.settle().await;
                w.read_dlout();
            }
            "settle" => w.settle().await,
            "drop" => {
                log(json!({"e": "drop", "r": r}));
                if let Some(rem) = w.remotes.get_mut(&r) {
                    rem.tx = None;
                }
                if let Some(m) = RXS.lock().as_mut() {
                    m.remove(&r);
                }
                w.settle().await;
            }
            "dropread" => {
                log(json!({"e": "dropread", "r": r}));
                if let Some(m) = RXS.lock().as_mut() {
                    m.remove(&r);
                }
                w.settle().await;
            }
            "advance" => {
                let ms = a["ms"].as_u64().unwrap();
                log(json!({"e": "advance", "ms": ms}));
                tokio::time::advance(Duration::from_millis(ms)).await;
                w.settle().await;
                if cfg.get("drain_after_advance").and_then(|v| v.as_bool()).unwrap_or(false) {
                    // let a shutdown that the advance triggered run to completion (it waits for the remotes to
                    // take their final frames), so that the stop is logged at the time it was decided
                    for _ in 0..200 {
                        let b0 = bytes_read();
                        let mut n = 0;
                        let ids: Vec<u64> = w.remotes.keys().copied().collect();
                        for r in ids {
                            while let Some(true) = w.poll_frame(r) {
                                n += 1;
                            }
                        }
                        w.settle().await;
                        if n == 0 && bytes_read() == b0 {
                            break;
                        }
                    }
                }
            }
            "quiesce" => w.quiesce().await,
            "stop" => {
                if STOP_TX.lock().is_some() {
                    log(json!({"e": "stopping"}));
                }
                w.stop_instance(false).await;
            }
            "kill" => w.stop_instance(true).await,
            "restart" => {
                if w.inst.is_some() {
                    if STOP_TX.lock().is_some() {
                        log(json!({"e": "stopping"}));
                    }
                    w.stop_instance(false).await;
                }
                w.remotes.clear();
                *RXS.lock() = None;
                w.targets.clear();
                w.dl = Downlinks::default();
                log(json!({"e": "restart"}));
                let store = w.store.clone();
                w.inst = Some(start_instance(&cfg, &store));
                w.settle().await;
            }
            "snapshot" => {
                // what the store holds right now (used to decide restart expectations for any cut)
                if let Some(s) = &w.store {
                    let g = s.0.lock();
                    let mut vals = serde_json::Map::new();
                    let mut maps = serde_json::Map::new();
                    for (name, id) in g.ids.iter() {
                        if let Some(v) = g.values.get(id) {
                            vals.insert(name.clone(), json!(txt(v)));
                        }
                        if let Some(m) = g.maps.get(id) {
                            let items: Vec<(String, String)> = m.iter().map(|(k, v)| (txt(k), txt(v))).collect();
                            maps.insert(name.clone(), json!(items));
                        }
                    }
                    log(json!({"e": "snapshot", "values": vals, "maps": maps}));
                }
            }
            other => panic!("unknown script action {}", other),
        }
        if let Some(inst) = w.inst.as_ref() {
            if inst.task.is_finished() && k != "stop" && k != "kill" {
                let inst = w.inst.take().unwrap();
                let result = inst.task.await;
                let ids: Vec<u64> = w.remotes.keys().copied().collect();
                for r in ids {
                    while let Some(true) = w.poll_frame(r) {}
                }
                w.check_closed();
                match result {
                    Ok(Ok(())) => log(json!({"e": "stopped", "result": "ok", "spontaneous": true})),
                    Ok(Err(e)) => log(json!({"e": "stopped", "result": e, "spontaneous": true})),
                    Err(e) => log(json!({"e": "agent_panic", "what": format!("{}", e)})),
                }
            }
        }
    }
    if let Some(inst) = w.inst.take() {
        inst.task.abort();
        let _ = inst.task.await;
        if !w.http_pending.is_empty() {
            // (only when HTTP requests are still outstanding: the end of the script aborts the instance)
            log(json!({"e": "aborted"}));
        }
    }
    w.poll_http();
}

fn run_case(case: &Value) -> Value {
    LOG.lock().clear();
    *RXS.lock() = None;
    EAGER.store(case["cfg"].get("eager_store_read").and_then(|v| v.as_bool()).unwrap_or(false), std::sync::atomic::Ordering::Relaxed);
    let rt = tokio::runtime::Builder::new_current_thread().enable_time().start_paused(true).build().unwrap();
    let r = std::panic::catch_unwind(std::panic::AssertUnwindSafe(|| rt.block_on(run_script(case))));
    drop(rt);
    let log = std::mem::take(&mut *LOG.lock());
    match r {
        Ok(()) => json!({ "log": log }),
        Err(e) => {
            let msg = e.downcast_ref::<String>().cloned().or_else(|| e.downcast_ref::<&str>().map(|s| s.to_string())).unwrap_or_default();
            json!({ "log": log, "panic": msg })
        }
    }
}

fn main() {
    h_common::drive(run_case);
}

#[allow(dead_code)]
fn _unused(_: Bytes) {}

//! Configuration K for C02: replays call sequences generated from specs/MapQueue.tla on the
//! real coalescing queues of map lanes.
//!
//!   mode "rt"    swimos_runtime MapOperationQueue (keys compared as ReconKey): push / pop
//!   mode "ag"    swimos_agent MapStoreInner<K, V, WriteQueues<K>, M> (this is exactly the `Inner`
//!                of MapLane): update / remove / clear / drop / take / sync / pop_operation
//!   mode "comp"  "ag" whose emitted responses are printed as Recon and pushed into one
//!                MapOperationQueue per consumer (the per-remote uplink queue), popped at the
//!                consumer's own speed
//!   mode "td"    drop_or_take on a map built from the given keys
//!   mode "probe" ReconKey equality / hash equality of two texts (calibrates the key pools)
//!
//! Every call is one atomic step, so a replayed path is an exact schedule.  The harness only
//! reports what the real code returned; all comparison is done by the check.
use bytes::BytesMut;
use serde_json::{json, Value as Json};
use std::collections::hash_map::DefaultHasher;
use std::collections::{BTreeMap, HashMap, VecDeque};
use std::hash::{Hash, Hasher};
use std::panic::{catch_unwind, AssertUnwindSafe};
use swimos_agent::verif_hooks::{drop_or_take, DropOrTake, MapStoreInner, WriteQueues};
use swimos_agent_protocol::{LaneResponse, MapOperation};
use swimos_form::write::StructuralWritable;
use swimos_model::Value;
use swimos_recon::parser::parse_recognize;
use swimos_recon::print_recon_compact;
use swimos_runtime::verif_hooks::{MapOperationQueue, ReconKey};
use uuid::Uuid;

// ------------------------------------------------------------------------------------- rt

fn panic_msg(e: Box<dyn std::any::Any + Send>) -> String {
    if let Some(s) = e.downcast_ref::<String>() {
        s.clone()
    } else if let Some(s) = e.downcast_ref::<&str>() {
        s.to_string()
    } else {
        "panic".to_string()
    }
}

fn bm(s: &str) -> BytesMut {
    BytesMut::from(s.as_bytes())
}

fn raw_op(a: &Json) -> MapOperation<BytesMut, BytesMut> {
    match a["op"].as_str().unwrap() {
        "upd" => MapOperation::Update {
            key: bm(a["key"].as_str().unwrap()),
            value: bm(a["val"].as_str().unwrap()),
        },
        "rem" => MapOperation::Remove {
            key: bm(a["key"].as_str().unwrap()),
        },
        "clr" => MapOperation::Clear,
        o => panic!("bad op {}", o),
    }
}

fn txt(b: &[u8]) -> String {
    String::from_utf8_lossy(b).into_owned()
}

fn rt_pop(q: &mut MapOperationQueue) -> Json {
    match q.pop() {
        None => json!({"op": "none"}),
        Some(MapOperation::Update { key, value }) => {
            json!({"op": "upd", "key": txt(key.as_ref()), "val": txt(value.as_ref())})
        }
        Some(MapOperation::Remove { key }) => json!({"op": "rem", "key": txt(key.as_ref())}),
        Some(MapOperation::Clear) => json!({"op": "clr"}),
    }
}

fn run_rt(case: &Json) -> Json {
    let mut q = MapOperationQueue::new();
    let mut obs = vec![];
    for a in case["acts"].as_array().unwrap() {
        // a panic of the code under test is recorded at the call that raised it
        let r = catch_unwind(AssertUnwindSafe(|| match a["k"].as_str().unwrap() {
            "push" => match q.push(raw_op(a)) {
                Ok(()) => json!({"empty": q.is_empty()}),
                Err(e) => json!({"err": e.to_string(), "empty": q.is_empty()}),
            },
            "pop" => {
                let out = rt_pop(&mut q);
                json!({"out": out, "empty": q.is_empty()})
            }
            "drain" => {
                let mut d = vec![];
                let mut budget = 10_000;
                while !q.is_empty() && budget > 0 {
                    d.push(json!({"to": "L", "out": rt_pop(&mut q)}));
                    budget -= 1;
                }
                d.push(json!({"to": "L", "out": rt_pop(&mut q)}));
                json!({"drained": d, "empty": q.is_empty()})
            }
            k => panic!("bad act {}", k),
        }));
        match r {
            Ok(o) => obs.push(o),
            Err(e) => {
                obs.push(json!({"panic": panic_msg(e)}));
                return json!({"obs": obs});
            }
        }
    }
    json!({"obs": obs, "final": {"empty": q.is_empty()}})
}

// ------------------------------------------------------------------------------------- ag / comp

trait J: Sized + Clone + Eq + Hash + Ord + StructuralWritable {
    fn from_json(v: &Json) -> Self;
    fn to_json(&self) -> Json;
}

impl J for i32 {
    fn from_json(v: &Json) -> Self {
        v.as_i64().expect("i32 key") as i32
    }
    fn to_json(&self) -> Json {
        json!(*self)
    }
}

impl J for String {
    fn from_json(v: &Json) -> Self {
        v.as_str().expect("string key").to_string()
    }
    fn to_json(&self) -> Json {
        json!(self)
    }
}

impl J for Value {
    fn from_json(v: &Json) -> Self {
        parse_recognize::<Value>(v.as_str().expect("recon text"), false).expect("valid recon")
    }
    fn to_json(&self) -> Json {
        json!(print_recon_compact(self).to_string())
    }
}

fn sorted_entries<'a, K: J, V: Clone + 'a>(it: impl Iterator<Item = (&'a K, &'a V)>) -> Vec<(K, V)>
where
    K: 'a,
{
    let mut e: Vec<(K, V)> = it.map(|(k, v)| (k.clone(), v.clone())).collect();
    e.sort_by(|a, b| a.0.cmp(&b.0));
    e
}

fn ids(case: &Json) -> Vec<(String, Uuid)> {
    case["cfg"]["consumers"]
        .as_array()
        .map(|a| {
            a.iter()
                .enumerate()
                .map(|(i, n)| (n.as_str().unwrap().to_string(), Uuid::from_u128(1000 + i as u128)))
                .collect()
        })
        .unwrap_or_default()
}

fn name_of(ids: &[(String, Uuid)], id: &Uuid) -> String {
    ids.iter()
        .find(|(_, u)| u == id)
        .map(|(n, _)| n.clone())
        .unwrap_or_else(|| format!("?{}", id))
}

fn id_of(ids: &[(String, Uuid)], name: &str) -> Uuid {
    ids.iter().find(|(n, _)| n == name).map(|(_, u)| *u).expect("consumer")
}

fn op_json<K: J, V: J>(op: &MapOperation<K, &V>) -> Json {
    match op {
        MapOperation::Update { key, value } => json!({"op": "upd", "key": key.to_json(), "val": value.to_json()}),
        MapOperation::Remove { key } => json!({"op": "rem", "key": key.to_json()}),
        MapOperation::Clear => json!({"op": "clr"}),
    }
}

fn to_raw<K: J, V: J>(op: &MapOperation<K, &V>) -> MapOperation<BytesMut, BytesMut> {
    match op {
        MapOperation::Update { key, value } => MapOperation::Update {
            key: bm(&print_recon_compact(key).to_string()),
            value: bm(&print_recon_compact(*value).to_string()),
        },
        MapOperation::Remove { key } => MapOperation::Remove {
            key: bm(&print_recon_compact(key).to_string()),
        },
        MapOperation::Clear => MapOperation::Clear,
    }
}

macro_rules! gen_run_ag {
    ($name:ident, $popname:ident, $map:ident) => {
        fn $popname<K: J, V: J>(
            inner: &mut MapStoreInner<K, V, WriteQueues<K>, $map<K, V>>,
            ids: &[(String, Uuid)],
            comp: bool,
            linked: &[String],
            queues: &mut HashMap<String, MapOperationQueue>,
        ) -> Json {
            let (out, fwd): (Json, Option<(Option<String>, MapOperation<BytesMut, BytesMut>)>) =
                match inner.pop_operation() {
                    None => (json!({"t": "none"}), None),
                    Some(LaneResponse::StandardEvent(op)) => {
                        let mut j = op_json(&op);
                        j["t"] = json!("event");
                        (j, Some((None, to_raw(&op))))
                    }
                    Some(LaneResponse::SyncEvent(id, op)) => {
                        let mut j = op_json(&op);
                        j["t"] = json!("sync");
                        let n = name_of(ids, &id);
                        j["id"] = json!(n);
                        (j, Some((Some(n), to_raw(&op))))
                    }
                    Some(LaneResponse::Synced(id)) => (json!({"t": "synced", "id": name_of(ids, &id)}), None),
                    Some(LaneResponse::Initialized) => (json!({"t": "initialized"}), None),
                };
            if comp {
                if let Some((target, raw)) = fwd {
                    match target {
                        Some(n) => {
                            queues.get_mut(&n).expect("queue").push(raw).expect("utf8");
                        }
                        None => {
                            for n in linked {
                                let copy = match &raw {
                                    MapOperation::Update { key, value } => MapOperation::Update {
                                        key: key.clone(),
                                        value: value.clone(),
                                    },
                                    MapOperation::Remove { key } => MapOperation::Remove { key: key.clone() },
                                    MapOperation::Clear => MapOperation::Clear,
                                };
                                queues.get_mut(n).expect("queue").push(copy).expect("utf8");
                            }
                        }
                    }
                }
            }
            out
        }

fn $name<K: J, V: J>(case: &Json, comp: bool) -> Json {
    let ids = ids(case);
    let mut inner: MapStoreInner<K, V, WriteQueues<K>, $map<K, V>> = MapStoreInner::new($map::new());
    // comp: one runtime queue per consumer; `linked` = receives standard events
    let mut queues: HashMap<String, MapOperationQueue> = HashMap::new();
    let mut linked: Vec<String> = vec![];
    if comp {
        for (n, _) in &ids {
            queues.insert(n.clone(), MapOperationQueue::new());
        }
        linked.push("L".to_string());
    }
    let mut obs = vec![];
    for a in case["acts"].as_array().unwrap() {
        let r = catch_unwind(AssertUnwindSafe(|| {
        let mut o = match a["k"].as_str().unwrap() {
            "update" => {
                inner.update(K::from_json(&a["key"]), V::from_json(&a["val"]));
                json!({})
            }
            "remove" => {
                inner.remove(&K::from_json(&a["key"]));
                json!({})
            }
            "clear" => {
                inner.clear();
                json!({})
            }
            k @ ("drop" | "take") => {
                // MapLaneDropOrTake: drop_or_take on the current map, then MapLaneRemoveMultiple
                let kind = if k == "drop" { DropOrTake::Drop } else { DropOrTake::Take };
                let n = a["n"].as_u64().unwrap() as usize;
                let to_remove: VecDeque<K> = inner.get_map(|m| drop_or_take(m, kind, n));
                let rep: Vec<Json> = to_remove.iter().map(|k| k.to_json()).collect();
                for key in to_remove {
                    inner.remove(&key);
                }
                json!({"removed": rep})
            }
            "sync" => {
                // MapLane::sync
                let name = a["id"].as_str().unwrap();
                let keys: VecDeque<K> = inner.get_map(|m| m.keys().cloned().collect());
                let rep: Vec<Json> = keys.iter().map(|k| k.to_json()).collect();
                inner.queue().sync(id_of(&ids, name), keys);
                if comp && !linked.iter().any(|n| n == name) {
                    linked.push(name.to_string());
                }
                json!({"keys": rep})
            }
            "agpop" => {
                let out = $popname(&mut inner, &ids, comp, &linked, &mut queues);
                json!({"out": out})
            }
            "drain" => {
                // pop_operation until it yields nothing, then every consumer catches up
                let mut d = vec![];
                let mut budget = 10_000;
                loop {
                    let out = $popname(&mut inner, &ids, comp, &linked, &mut queues);
                    let none = out["t"] == "none";
                    d.push(json!({"ag": out}));
                    budget -= 1;
                    if none || budget == 0 {
                        break;
                    }
                }
                if comp {
                    for n in &linked {
                        let q = queues.get_mut(n).expect("queue");
                        loop {
                            let out = rt_pop(q);
                            let none = out["op"] == "none";
                            d.push(json!({"to": n, "out": out}));
                            budget -= 1;
                            if none || budget <= 0 {
                                break;
                            }
                        }
                    }
                }
                json!({"drained": d})
            }
            "rtpop" => {
                let n = a["to"].as_str().unwrap();
                let q = queues.get_mut(n).expect("queue");
                let out = rt_pop(q);
                json!({"out": out, "qempty": q.is_empty()})
            }
            k => panic!("bad act {}", k),
        };
        o["empty"] = json!(inner.queue().is_empty());
        o
        }));
        match r {
            Ok(o) => obs.push(o),
            Err(e) => {
                obs.push(json!({"panic": panic_msg(e)}));
                return json!({"obs": obs});
            }
        }
    }
    let fin: Vec<Json> = inner
        .get_map(|m| sorted_entries(m.iter()))
        .into_iter()
        .map(|(k, v)| json!([k.to_json(), v.to_json()]))
        .collect();
    json!({"obs": obs, "final": {"map": fin, "empty": inner.queue().is_empty()}})
}
    };
}
gen_run_ag!(run_ag_btree, ag_pop_btree, BTreeMap);
gen_run_ag!(run_ag_hash, ag_pop_hash, HashMap);

macro_rules! gen_run_td {
    ($name:ident, $map:ident) => {
fn $name<K: J>(case: &Json) -> Json {
    let mut obs = vec![];
    for a in case["acts"].as_array().unwrap() {
        let keys: Vec<K> = a["keys"].as_array().unwrap().iter().map(K::from_json).collect();
        let map: $map<K, i32> = keys.into_iter().enumerate().map(|(i, k)| (k, i as i32)).collect();
        let kind = match a["kind"].as_str().unwrap() {
            "drop" => DropOrTake::Drop,
            _ => DropOrTake::Take,
        };
        let n = a["n"].as_u64().unwrap() as usize;
        let r: VecDeque<K> = drop_or_take(&map, kind, n);
        let rep: Vec<Json> = r.iter().map(|k| k.to_json()).collect();
        obs.push(json!({"removed": rep}));
    }
    json!({"obs": obs})
}
    };
}
gen_run_td!(run_td_btree, BTreeMap);
gen_run_td!(run_td_hash, HashMap);

fn run_probe(case: &Json) -> Json {
    let mut obs = vec![];
    for a in case["acts"].as_array().unwrap() {
        let x = ReconKey::from(a["a"].as_str().unwrap());
        let y = ReconKey::from(a["b"].as_str().unwrap());
        let h = |k: &ReconKey| {
            let mut s = DefaultHasher::new();
            k.hash(&mut s);
            s.finish()
        };
        // ground truth by another route: both texts parsed to a Value by the Recon parser
        let pa = parse_recognize::<Value>(a["a"].as_str().unwrap(), false);
        let pb = parse_recognize::<Value>(a["b"].as_str().unwrap(), false);
        let val_eq = match (pa, pb) {
            (Ok(va), Ok(vb)) => json!(va == vb),
            _ => Json::Null,
        };
        obs.push(json!({"eq": x == y, "hash_eq": h(&x) == h(&y), "val_eq": val_eq}));
    }
    json!({"obs": obs})
}

fn run_print<K: J, V: J>(case: &Json) -> Json {
    let mut obs = vec![];
    for a in case["acts"].as_array().unwrap() {
        let mut o = json!({});
        if !a["key"].is_null() {
            let k = K::from_json(&a["key"]);
            o["key"] = json!(print_recon_compact(&k).to_string());
            o["key_json"] = k.to_json();
        }
        if !a["val"].is_null() {
            let v = V::from_json(&a["val"]);
            o["val"] = json!(print_recon_compact(&v).to_string());
            o["val_json"] = v.to_json();
        }
        obs.push(o);
    }
    json!({"obs": obs})
}

fn run_print_dispatch(case: &Json) -> Json {
    match case["cfg"]["ktype"].as_str().unwrap_or("i32") {
        "i32" => run_print::<i32, i32>(case),
        "string" => run_print::<String, String>(case),
        "value" => run_print::<Value, Value>(case),
        k => panic!("bad ktype {}", k),
    }
}

fn run_ag_dispatch(case: &Json, comp: bool) -> Json {
    let kt = case["cfg"]["ktype"].as_str().unwrap_or("i32");
    let hash = case["cfg"]["backing"].as_str().unwrap_or("btree") == "hash";
    match (kt, hash) {
        ("i32", false) => run_ag_btree::<i32, i32>(case, comp),
        ("i32", true) => run_ag_hash::<i32, i32>(case, comp),
        ("string", false) => run_ag_btree::<String, String>(case, comp),
        ("string", true) => run_ag_hash::<String, String>(case, comp),
        ("value", false) => run_ag_btree::<Value, Value>(case, comp),
        ("value", true) => run_ag_hash::<Value, Value>(case, comp),
        (k, _) => panic!("bad ktype {}", k),
    }
}

fn run_td_dispatch(case: &Json) -> Json {
    let kt = case["cfg"]["ktype"].as_str().unwrap_or("i32");
    let hash = case["cfg"]["backing"].as_str().unwrap_or("btree") == "hash";
    match (kt, hash) {
        ("i32", false) => run_td_btree::<i32>(case),
        ("i32", true) => run_td_hash::<i32>(case),
        ("string", false) => run_td_btree::<String>(case),
        ("string", true) => run_td_hash::<String>(case),
        ("value", false) => run_td_btree::<Value>(case),
        ("value", true) => run_td_hash::<Value>(case),
        (k, _) => panic!("bad ktype {}", k),
    }
}

pub fn run_case(case: &Json) -> Json {
    match case["cfg"]["mode"].as_str().unwrap() {
        "rt" => run_rt(case),
        "ag" => run_ag_dispatch(case, false),
        "comp" => run_ag_dispatch(case, true),
        "td" => run_td_dispatch(case),
        "probe" => run_probe(case),
        "print" => run_print_dispatch(case),
        m => panic!("bad mode {}", m),
    }
}

fn main() {
    h_common::drive(run_case);
}

//! Configuration K for the agent-side lane objects (C01 / C02 / C03 / C14): the real lanes of a derived agent
//! (`#[derive(AgentLaneModel)]`), driven exactly the way the agent task drives them - through
//! `AgentSpec::{on_value_command, on_map_command, on_sync, write_event}`, through the handlers of
//! `HandlerContext` stepped by hand (as server/swimos_agent/src/lanes/*/tests.rs do) and through the lanes'
//! public methods - one call per action of specs/Lanes.tla.  The buffer filled by `write_event`
//! (`LaneItem::write_to_buffer`) is decoded with the public lane response decoders of swimos_agent_protocol,
//! typed and raw.  Public API only.
//!
//! case   = {"id", "cfg": {"lane": "v|c|s|d|m|om|sm"}, "acts": [{"k": .., ..}]}
//! result = {"obs": [{"mod": bool, "res": "nodata|done|more|reqev", "frames": [..], "cur": ..} | {"panic": msg}]}
use bytes::BytesMut;
use h_common::drive;
use serde_json::{json, Value};
use std::collections::{BTreeMap, HashMap};
use std::panic::{catch_unwind, AssertUnwindSafe};
use swimos::agent::agent_lifecycle::HandlerContext;
use swimos::agent::lanes::{CommandLane, DemandLane, DemandMapLane, MapLane, SupplyLane, ValueLane};
use swimos::agent::{projections, AgentLaneModel};
use swimos_agent::agent_model::downlink::BoxDownlinkChannelFactory;
use swimos_agent::agent_model::{AgentSpec, WriteResult};
use swimos_agent::event_handler::{
    ActionContext, BoxJoinLaneInit, DownlinkSpawnOnDone, HandlerAction, HandlerFuture, LaneSpawnOnDone,
    LaneSpawner, LinkSpawner, Spawner, StepResult,
};
use swimos_agent::event_handler::{BoxHandlerAction, HandlerActionExt};
use swimos_agent::lanes::demand::Demand;
use swimos_agent::lanes::demand_map::demand_map_handler;
use swimos_agent::lanes::demand_map::lifecycle::keys::Keys;
use swimos_agent::lanes::demand_map::lifecycle::on_cue_key::OnCueKey;
use swimos_agent::model::{MapMessage, Text};
use swimos_agent::{AgentItem, AgentMetadata};
use swimos_agent_protocol::encoding::lane::{
    MapLaneResponseDecoder, RawMapLaneResponseDecoder, RawValueLaneResponseDecoder, ValueLaneResponseDecoder,
};
use swimos_agent_protocol::{LaneResponse, MapOperation};
use swimos_api::address::Address;
use swimos_api::agent::{AgentConfig, WarpLaneKind};
use swimos_api::error::{CommanderRegistrationError, DynamicRegistrationError};
use swimos_utilities::routing::RouteUri;
use tokio_util::codec::Decoder;
use uuid::Uuid;

#[derive(AgentLaneModel)]
#[projections]
pub struct LAgent {
    v: ValueLane<i32>,
    c: CommandLane<i32>,
    s: SupplyLane<i32>,
    d: DemandLane<i32>,
    m: MapLane<i32, i32>,
    om: MapLane<i32, i32, BTreeMap<i32, i32>>,
    sm: MapLane<String, i32, BTreeMap<String, i32>>,
    dm: DemandMapLane<i32, i32>,
}

const STEP_BUDGET: usize = 100_000;

struct NoSpawn;
impl Spawner<LAgent> for NoSpawn {
    fn spawn_suspend(&self, _: HandlerFuture<LAgent>) {
        panic!("harness: no suspended futures expected");
    }
    fn schedule_timer(&self, _at: tokio::time::Instant, _id: u64) {
        panic!("harness: no timers expected");
    }
}
impl LinkSpawner<LAgent> for NoSpawn {
    fn spawn_downlink(&self, _p: Address<Text>, _m: BoxDownlinkChannelFactory<LAgent>, _o: DownlinkSpawnOnDone<LAgent>) {
        panic!("harness: no downlinks expected");
    }
    fn register_commander(&self, _path: Address<Text>) -> Result<u16, CommanderRegistrationError> {
        panic!("harness: no commanders expected");
    }
}
impl LaneSpawner<LAgent> for NoSpawn {
    fn spawn_warp_lane(&self, _n: &str, _k: WarpLaneKind, _o: LaneSpawnOnDone<LAgent>) -> Result<(), DynamicRegistrationError> {
        panic!("harness: no dynamic lanes expected");
    }
}

/// Runs a handler to completion the way the agent task does, collecting the ids of the items it reports as modified.
fn run<H: HandlerAction<LAgent>>(agent: &LAgent, mut h: H) -> Result<Vec<u64>, String> {
    let uri: RouteUri = "/lanes".parse().unwrap();
    let params = HashMap::new();
    let config = AgentConfig::default();
    let meta = AgentMetadata::new(&uri, &params, &config);
    let mut join_lane_init: HashMap<u64, BoxJoinLaneInit<'static, LAgent>> = HashMap::new();
    let mut command_buffer = BytesMut::new();
    let sp = NoSpawn;
    let mut ctx = ActionContext::new(&sp, &sp, &sp, &mut join_lane_init, &mut command_buffer);
    let mut modified = vec![];
    for _ in 0..STEP_BUDGET {
        match h.step(&mut ctx, meta, agent) {
            StepResult::Continue { modified_item } => {
                if let Some(m) = modified_item {
                    modified.push(m.id());
                }
            }
            StepResult::Fail(e) => return Err(format!("handler failed: {}", e)),
            StepResult::Complete { modified_item, .. } => {
                if let Some(m) = modified_item {
                    modified.push(m.id());
                }
                return Ok(modified);
            }
        }
    }
    panic!("handler did not complete within the step budget");
}

fn bytes_of<T: std::fmt::Display>(x: T) -> BytesMut {
    BytesMut::from(format!("{}", x).as_bytes())
}

fn res_name(r: WriteResult) -> &'static str {
    match r {
        WriteResult::NoData => "nodata",
        WriteResult::Done => "done",
        WriteResult::DataStillAvailable => "more",
        WriteResult::RequiresEvent => "reqev",
    }
}

fn id_str(id: Uuid) -> String {
    id.as_u128().to_string()
}

fn uuid_of(v: &Value) -> Uuid {
    Uuid::from_u128(v.as_str().expect("id").parse::<u128>().expect("u128"))
}

fn text(b: &[u8]) -> String {
    String::from_utf8_lossy(b).to_string()
}

/// Decodes everything a value-like lane wrote: typed (i32) and raw (the body text), frame by frame.
fn decode_value(buf: &BytesMut) -> Value {
    let mut typed = buf.clone();
    let mut raw = buf.clone();
    let mut td = ValueLaneResponseDecoder::<i32>::default();
    let mut rd = RawValueLaneResponseDecoder::default();
    let mut frames = vec![];
    let mut err = Value::Null;
    while !typed.is_empty() {
        let t = match td.decode(&mut typed) {
            Ok(Some(t)) => t,
            Ok(None) => {
                err = json!(format!("incomplete frame: {} bytes left", typed.len()));
                break;
            }
            Err(e) => {
                err = json!(format!("undecodable: {}", e));
                break;
            }
        };
        let r = match rd.decode(&mut raw) {
            Ok(Some(r)) => r,
            other => {
                err = json!(format!("raw decoder disagrees: {:?}", other.map(|o| o.is_some())));
                break;
            }
        };
        frames.push(match (t, r) {
            (LaneResponse::StandardEvent(v), LaneResponse::StandardEvent(b)) => json!({"t": "event", "v": v, "vt": text(&b)}),
            (LaneResponse::SyncEvent(id, v), LaneResponse::SyncEvent(id2, b)) if id == id2 => {
                json!({"t": "sync", "id": id_str(id), "v": v, "vt": text(&b)})
            }
            (LaneResponse::Synced(id), LaneResponse::Synced(id2)) if id == id2 => json!({"t": "synced", "id": id_str(id)}),
            (LaneResponse::Initialized, _) => json!({"t": "initialized"}),
            _ => json!({"t": "mismatch"}),
        });
    }
    json!({"frames": frames, "err": err, "bytes": buf.len()})
}

fn map_op_json<K: serde::Serialize>(op: MapOperation<K, i32>, raw: MapOperation<BytesMut, BytesMut>) -> Option<Value> {
    Some(match (op, raw) {
        (MapOperation::Update { key, value }, MapOperation::Update { key: kb, value: vb }) => {
            json!({"op": "upd", "key": key, "v": value, "kt": text(&kb), "vt": text(&vb)})
        }
        (MapOperation::Remove { key }, MapOperation::Remove { key: kb }) => json!({"op": "rem", "key": key, "kt": text(&kb)}),
        (MapOperation::Clear, MapOperation::Clear) => json!({"op": "clr"}),
        _ => return None,
    })
}

macro_rules! decode_map {
    ($buf:expr, $K:ty) => {{
        let buf: &BytesMut = $buf;
        let mut typed = buf.clone();
        let mut raw = buf.clone();
        let mut td = MapLaneResponseDecoder::<$K, i32>::default();
        let mut rd = RawMapLaneResponseDecoder::default();
        let mut frames = vec![];
        let mut err = Value::Null;
        while !typed.is_empty() {
            let t = match td.decode(&mut typed) {
                Ok(Some(t)) => t,
                Ok(None) => {
                    err = json!(format!("incomplete frame: {} bytes left", typed.len()));
                    break;
                }
                Err(e) => {
                    err = json!(format!("undecodable: {}", e));
                    break;
                }
            };
            let r = match rd.decode(&mut raw) {
                Ok(Some(r)) => r,
                other => {
                    err = json!(format!("raw decoder disagrees: {:?}", other.map(|o| o.is_some())));
                    break;
                }
            };
            let f = match (t, r) {
                (LaneResponse::StandardEvent(op), LaneResponse::StandardEvent(rop)) => map_op_json(op, rop).map(|mut o| {
                    o["t"] = json!("event");
                    o
                }),
                (LaneResponse::SyncEvent(id, op), LaneResponse::SyncEvent(id2, rop)) if id == id2 => map_op_json(op, rop).map(|mut o| {
                    o["t"] = json!("sync");
                    o["id"] = json!(id_str(id));
                    o
                }),
                (LaneResponse::Synced(id), LaneResponse::Synced(id2)) if id == id2 => Some(json!({"t": "synced", "id": id_str(id)})),
                (LaneResponse::Initialized, _) => Some(json!({"t": "initialized"})),
                _ => None,
            };
            frames.push(f.unwrap_or_else(|| json!({"t": "mismatch"})));
        }
        json!({"frames": frames, "err": err, "bytes": buf.len()})
    }};
}

fn write_obs(res: Option<WriteResult>, decoded: Value) -> Value {
    let mut o = decoded;
    o["res"] = json!(res.map(res_name).unwrap_or("nolane"));
    o
}

fn handler_obs(lane_id: u64, r: Result<Vec<u64>, String>) -> Value {
    match r {
        Ok(ids) => json!({"mod": ids.contains(&lane_id), "nmod": ids.iter().filter(|i| **i == lane_id).count(), "other": ids.iter().any(|i| *i != lane_id)}),
        Err(e) => json!({"fail": e}),
    }
}

/// The map lanes differ in key type and backing map only; `MapOps` (the bound a generic function would need)
/// is not public, so the calls are written once as a macro.
macro_rules! map_act {
    ($agent:expr, $deser:expr, $buf:expr, $name:expr, $field:ident, $PROJ:expr, $K:ty, $key_of:expr, $a:expr) => {{
        let agent: &LAgent = $agent;
        let a: &Value = $a;
        let hc: HandlerContext<LAgent> = HandlerContext::default();
        let lane_id = agent.$field.id();
        let key_of = $key_of;
        let via = a["via"].as_str().unwrap_or("cmd");
        let mut o = match a["k"].as_str().unwrap_or("") {
            "upd" => {
                let key: $K = key_of(&a["key"]);
                let v = a["v"].as_i64().unwrap() as i32;
                if via == "h" {
                    handler_obs(lane_id, run(agent, hc.update($PROJ, key, v)))
                } else {
                    let msg = MapMessage::Update { key: recon_key(&key), value: bytes_of(v) };
                    let h = agent.on_map_command($deser, $name, msg).expect("no map command handler");
                    handler_obs(lane_id, run(agent, h))
                }
            }
            "rem" => {
                let key: $K = key_of(&a["key"]);
                if via == "h" {
                    handler_obs(lane_id, run(agent, hc.remove($PROJ, key)))
                } else {
                    let msg = MapMessage::Remove { key: recon_key(&key) };
                    let h = agent.on_map_command($deser, $name, msg).expect("no map command handler");
                    handler_obs(lane_id, run(agent, h))
                }
            }
            "clr" => {
                if via == "h" {
                    handler_obs(lane_id, run(agent, hc.clear($PROJ)))
                } else {
                    let h = agent.on_map_command($deser, $name, MapMessage::Clear).expect("no map command handler");
                    handler_obs(lane_id, run(agent, h))
                }
            }
            "take" | "drop" => {
                let n = a["n"].as_u64().unwrap();
                let msg = if a["k"] == "take" { MapMessage::Take(n) } else { MapMessage::Drop(n) };
                let h = agent.on_map_command($deser, $name, msg).expect("no map command handler");
                handler_obs(lane_id, run(agent, h))
            }
            "tr" => {
                let key: $K = key_of(&a["key"]);
                let to = a["to"].as_i64().map(|x| x as i32);
                if via == "h" {
                    handler_obs(lane_id, run(agent, hc.transform_entry($PROJ, key, move |_| to)))
                } else {
                    let _ = agent.$field.transform_entry(key, move |_| to);
                    json!({})
                }
            }
            "badcmd" => {
                // an update (or a remove) whose key / value text is not a Recon value of the lane's types
                let kt = BytesMut::from(a["kt"].as_str().unwrap().as_bytes());
                let msg = match a["vt"].as_str() {
                    Some(vt) => MapMessage::Update { key: kt, value: BytesMut::from(vt.as_bytes()) },
                    None => MapMessage::Remove { key: kt },
                };
                let h = agent.on_map_command($deser, $name, msg).expect("no map command handler");
                handler_obs(lane_id, run(agent, h))
            }
            "sync" => {
                let h = agent.on_sync($name, uuid_of(&a["id"])).expect("no sync handler");
                handler_obs(lane_id, run(agent, h))
            }
            "write" => {
                let buf: &mut BytesMut = $buf;
                let res = agent.write_event($name, buf);
                let o = write_obs(res, decode_map!(&*buf, $K));
                let _ = buf.split();
                o
            }
            other => panic!("harness: unknown map action {}", other),
        };
        let mut cur: Vec<($K, i32)> = agent.$field.get_map(|m| m.iter().map(|(k, v)| (k.clone(), *v)).collect());
        cur.sort();
        o["cur"] = json!(cur);
        o
    }};
}

fn recon_key<K: swimos_form::write::StructuralWritable>(k: &K) -> BytesMut {
    BytesMut::from(format!("{}", swimos_recon::print_recon_compact(k)).as_bytes())
}

fn value_like_act(agent: &LAgent, deser: &mut <LAgent as AgentSpec>::Deserializers, buf: &mut BytesMut, lane: &str, a: &Value) -> Value {
    let hc: HandlerContext<LAgent> = HandlerContext::default();
    let via = a["via"].as_str().unwrap_or("cmd");
    let k = a["k"].as_str().unwrap_or("");
    let num = |f: &str| a[f].as_i64().expect("number") as i32;
    let lane_id = match lane {
        "v" => agent.v.id(),
        "c" => agent.c.id(),
        "s" => agent.s.id(),
        "d" => agent.d.id(),
        _ => panic!("harness: unknown lane"),
    };
    let mut o = match (lane, k) {
        ("v", "set") => match via {
            "h" => handler_obs(lane_id, run(agent, hc.set_value(LAgent::V, num("v")))),
            "replace" => {
                let x = num("v");
                agent.v.replace(|_| x);
                json!({})
            }
            _ => {
                let h = agent.on_value_command(deser, "v", bytes_of(num("v"))).expect("no command handler");
                handler_obs(lane_id, run(agent, h))
            }
        },
        ("c", "command") => match via {
            "h" => handler_obs(lane_id, run(agent, hc.command(LAgent::C, num("v")))),
            _ => {
                let h = agent.on_value_command(deser, "c", bytes_of(num("v"))).expect("no command handler");
                handler_obs(lane_id, run(agent, h))
            }
        },
        ("v", "badcmd") | ("c", "badcmd") => {
            let body = BytesMut::from(a["body"].as_str().unwrap().as_bytes());
            let h = agent.on_value_command(deser, lane, body).expect("no command handler");
            handler_obs(lane_id, run(agent, h))
        }
        ("s", "push") => handler_obs(lane_id, run(agent, hc.supply(LAgent::S, num("v")))),
        ("d", "cue") => {
            // the Cue reports the lane as modified with the trigger flag: the agent then runs the lane's
            // on_cue lifecycle event (a Demand handler around the user's computation) before it writes
            let r1 = run(agent, hc.cue(LAgent::D));
            let r2 = run(agent, Demand::new(LAgent::D, hc.value(num("v"))));
            match (r1, r2) {
                (Ok(mut x), Ok(y)) => {
                    x.extend(y);
                    handler_obs(lane_id, Ok(x))
                }
                (Err(e), _) | (_, Err(e)) => handler_obs(lane_id, Err(e)),
            }
        }
        ("d", "dsync") => {
            let h = agent.on_sync("d", uuid_of(&a["id"])).expect("no sync handler");
            let r1 = run(agent, h);
            let r2 = run(agent, Demand::new(LAgent::D, hc.value(num("v"))));
            match (r1, r2) {
                (Ok(mut x), Ok(y)) => {
                    x.extend(y);
                    handler_obs(lane_id, Ok(x))
                }
                (Err(e), _) | (_, Err(e)) => handler_obs(lane_id, Err(e)),
            }
        }
        (_, "sync") => {
            let h = agent.on_sync(lane, uuid_of(&a["id"])).expect("no sync handler");
            handler_obs(lane_id, run(agent, h))
        }
        (_, "write") => {
            let res = agent.write_event(lane, buf);
            let o = write_obs(res, decode_value(buf));
            let _ = buf.split();
            o
        }
        _ => panic!("harness: unknown action {} on lane {}", k, lane),
    };
    if lane == "v" {
        o["cur"] = json!(agent.v.read(|x| *x));
    }
    o
}

// ---------------------------------------------------------------------------------------------------------------
// Probe (informational, not part of Lanes.tla): a DemandMapLane over a source map owned by the harness, driven the way
// the agent task drives it: a modification carrying the trigger flag runs the lane's event handler
// (`demand_map_handler`), and so does the completion of a write that returned RequiresEvent ("event").

struct Src(std::sync::Arc<std::sync::Mutex<BTreeMap<i32, i32>>>);

impl Keys<i32, LAgent> for Src {
    type KeysHandler<'a> = BoxHandlerAction<'a, LAgent, std::collections::HashSet<i32>> where Self: 'a;
    fn keys(&self) -> Self::KeysHandler<'_> {
        let ks: std::collections::HashSet<i32> = self.0.lock().unwrap().keys().copied().collect();
        HandlerContext::<LAgent>::default().value(ks).boxed()
    }
}

impl OnCueKey<i32, i32, LAgent> for Src {
    type OnCueKeyHandler<'a> = BoxHandlerAction<'a, LAgent, Option<i32>> where Self: 'a;
    fn on_cue_key(&self, key: i32) -> Self::OnCueKeyHandler<'_> {
        let v = self.0.lock().unwrap().get(&key).copied();
        HandlerContext::<LAgent>::default().value(v).boxed()
    }
}

/// like `run`, but reports for each modification of `lane_id` whether it asks for the lane's event handler to be run
/// (the flags are not public: they are read off the Debug form of the Modification)
fn run_flags<H: HandlerAction<LAgent>>(agent: &LAgent, mut h: H, lane_id: u64) -> Result<(bool, bool), String> {
    let uri: RouteUri = "/lanes".parse().unwrap();
    let params = HashMap::new();
    let config = AgentConfig::default();
    let meta = AgentMetadata::new(&uri, &params, &config);
    let mut join_lane_init: HashMap<u64, BoxJoinLaneInit<'static, LAgent>> = HashMap::new();
    let mut command_buffer = BytesMut::new();
    let sp = NoSpawn;
    let mut ctx = ActionContext::new(&sp, &sp, &sp, &mut join_lane_init, &mut command_buffer);
    let (mut modified, mut trigger) = (false, false);
    for _ in 0..STEP_BUDGET {
        let (m, done) = match h.step(&mut ctx, meta, agent) {
            StepResult::Continue { modified_item } => (modified_item, false),
            StepResult::Fail(e) => return Err(format!("handler failed: {}", e)),
            StepResult::Complete { modified_item, .. } => (modified_item, true),
        };
        if let Some(m) = m {
            if m.id() == lane_id {
                modified = true;
                trigger |= format!("{:?}", m).contains("TRIGGER_HANDLER");
            }
        }
        if done {
            return Ok((modified, trigger));
        }
    }
    panic!("handler did not complete within the step budget");
}

fn dm_probe(case: &Value) -> Value {
    let agent = LAgent::default();
    let src = Src(Default::default());
    let lane_id = agent.dm.id();
    let mut buf = BytesMut::new();
    let mut obs = vec![];
    // the agent task: run the lane's event handler while handlers keep asking for it
    let events = |agent: &LAgent, src: &Src, mut trig: bool| -> usize {
        let mut n = 0;
        while trig && n < 100 {
            n += 1;
            let (_, t) = run_flags(agent, demand_map_handler(agent, LAgent::DM, src), lane_id).expect("event handler failed");
            trig = t;
        }
        n
    };
    for a in case["acts"].as_array().expect("acts") {
        let o = match a["k"].as_str().unwrap_or("") {
            "src" => {
                let k = a["key"].as_i64().unwrap() as i32;
                match a["v"].as_i64() {
                    Some(v) => src.0.lock().unwrap().insert(k, v as i32),
                    None => src.0.lock().unwrap().remove(&k),
                };
                json!({})
            }
            "cuekey" => {
                let hc: HandlerContext<LAgent> = HandlerContext::default();
                let (m, t) = run_flags(&agent, hc.cue_key(LAgent::DM, a["key"].as_i64().unwrap() as i32), lane_id).unwrap();
                json!({"mod": m, "trigger": t, "events": events(&agent, &src, t)})
            }
            "sync" => {
                let h = agent.on_sync("dm", uuid_of(&a["id"])).expect("no sync handler");
                let (m, t) = run_flags(&agent, h, lane_id).unwrap();
                json!({"mod": m, "trigger": t, "events": events(&agent, &src, t)})
            }
            "event" => json!({"events": events(&agent, &src, true)}),
            "write" => {
                let res = agent.write_event("dm", &mut buf);
                let o = write_obs(res, decode_map!(&buf, i32));
                let _ = buf.split();
                o
            }
            other => panic!("harness: unknown probe action {}", other),
        };
        obs.push(o);
    }
    json!({ "obs": obs })
}

fn run_case(case: &Value) -> Value {
    if case["cfg"]["lane"] == "dm" {
        return dm_probe(case);
    }
    let lane = case["cfg"]["lane"].as_str().expect("cfg.lane").to_string();
    let agent = LAgent::default();
    let mut deser = agent.initialize_deserializers();
    let mut buf = BytesMut::new();
    let mut obs = vec![];
    for a in case["acts"].as_array().expect("acts") {
        let r = catch_unwind(AssertUnwindSafe(|| match lane.as_str() {
            "m" => map_act!(&agent, &mut deser, &mut buf, "m", m, LAgent::M, i32, |v: &Value| v.as_i64().unwrap() as i32, a),
            "om" => map_act!(&agent, &mut deser, &mut buf, "om", om, LAgent::OM, i32, |v: &Value| v.as_i64().unwrap() as i32, a),
            "sm" => map_act!(&agent, &mut deser, &mut buf, "sm", sm, LAgent::SM, String, |v: &Value| v.as_str().unwrap().to_string(), a),
            _ => value_like_act(&agent, &mut deser, &mut buf, &lane, a),
        }));
        match r {
            Ok(o) => obs.push(o),
            Err(e) => {
                let msg = if let Some(s) = e.downcast_ref::<String>() {
                    s.clone()
                } else if let Some(s) = e.downcast_ref::<&str>() {
                    s.to_string()
                } else {
                    "panic".to_string()
                };
                obs.push(json!({ "panic": msg }));
                break;
            }
        }
    }
    json!({ "obs": obs })
}

fn main() {
    drive(run_case);
}

//! C11 harness.  Two modes, selected per case by "mode":
//!
//! * "pure": for each concrete envelope, the real writer (swimos_remote::verif_hooks::ReconEncoder)
//!   produces the text frame and the real reader (swimos_messages::warp::peel_envelope_header_str
//!   and the byte-slice variant) reads it back.
//!
//! * "task" (config T): a real swimos_remote::RemoteTask runs over a ratchet web socket on
//!   tokio::io::duplex, on a paused single-threaded runtime.  The script attaches / detaches
//!   downlinks, lets downlinks and agents write, lets the peer write text frames (made by the real
//!   encoder, or raw), answers FindNode requests, and records - in one log, in the order things
//!   happen - every action and everything any downlink, agent or the peer reads.
use bytes::BytesMut;
use futures::{FutureExt, SinkExt, StreamExt};
use parking_lot::Mutex;
use ratchet::{NoExt, Role, WebSocket, WebSocketConfig};
use serde_json::{json, Value};
use std::collections::{HashMap, HashSet};
use std::num::NonZeroUsize;
use std::panic::AssertUnwindSafe;
use std::sync::Arc;
use std::time::Duration;
use swimos_api::address::RelativeAddress;
use swimos_messages::protocol::{
    BytesRequestMessage, BytesResponseMessage, Notification, Operation, RawRequestMessageDecoder,
    RawRequestMessageEncoder, RawResponseMessageDecoder, RawResponseMessageEncoder, RequestMessage,
    ResponseMessage,
};
use swimos_messages::remote_protocol::{AttachClient, FindNode, NoSuchAgent, NodeConnectionRequest};
use swimos_messages::warp::{peel_envelope_header, peel_envelope_header_str, RawEnvelope};
use swimos_model::Text;
use swimos_remote::verif_hooks::ReconEncoder;
use swimos_remote::RemoteTask;
use swimos_utilities::byte_channel::{byte_channel, ByteReader, ByteWriter};
use swimos_utilities::encoding::BytesStr;
use swimos_utilities::trigger;
use tokio::io::duplex;
use tokio::sync::{mpsc, oneshot};
use tokio::task::JoinHandle;
use tokio_util::codec::{Encoder, FramedRead, FramedWrite};
use uuid::Uuid;

// ------------------------------------------------------------------------------------------ pure

fn s<'a>(v: &'a Value, k: &str) -> &'a str {
    v[k].as_str().unwrap_or("")
}

fn path(node: &str, lane: &str) -> RelativeAddress<BytesStr> {
    RelativeAddress::new(BytesStr::from(node), BytesStr::from(lane))
}

/// The real writer: message -> text frame.
fn encode_text(m: &Value) -> Result<String, String> {
    let (kind, node, lane, body) = (s(m, "kind"), s(m, "node"), s(m, "lane"), s(m, "body"));
    let id = Uuid::from_u128(7);
    let b = bytes::Bytes::copy_from_slice(body.as_bytes());
    let mut enc = ReconEncoder;
    let mut dst = BytesMut::new();
    let req = |op: Operation<bytes::Bytes>| BytesRequestMessage { origin: id, path: path(node, lane), envelope: op };
    let res = |n: Notification<bytes::Bytes, bytes::Bytes>| BytesResponseMessage { origin: id, path: path(node, lane), envelope: n };
    let r = match kind {
        "link" => enc.encode(req(Operation::Link), &mut dst),
        "sync" => enc.encode(req(Operation::Sync), &mut dst),
        "unlink" => enc.encode(req(Operation::Unlink), &mut dst),
        "command" => enc.encode(req(Operation::Command(b)), &mut dst),
        "linked" => enc.encode(res(Notification::Linked), &mut dst),
        "synced" => enc.encode(res(Notification::Synced), &mut dst),
        "unlinked" => enc.encode(res(Notification::Unlinked(if body.is_empty() { None } else { Some(b) })), &mut dst),
        "unlinked_some" => enc.encode(res(Notification::Unlinked(Some(b))), &mut dst),
        "event" => enc.encode(res(Notification::Event(b)), &mut dst),
        "notfound" => enc.encode(NoSuchAgent { node: Text::new(node), lane: Some(Text::new(lane)) }, &mut dst),
        other => return Err(format!("unknown kind {}", other)),
    };
    r.map_err(|e| e.to_string())?;
    String::from_utf8(dst.to_vec()).map_err(|e| format!("writer produced invalid UTF-8: {}", e))
}

fn env_json(env: &RawEnvelope<'_>) -> Value {
    let mk = |k: &str, n: &str, l: &str, b: &str| json!({"kind": k, "node": n, "lane": l, "body": b});
    match env {
        RawEnvelope::Auth(_) => json!({"kind": "auth"}),
        RawEnvelope::DeAuth(_) => json!({"kind": "auth"}),
        RawEnvelope::Link { node_uri, lane_uri, body, .. } => mk("link", node_uri, lane_uri, body),
        RawEnvelope::Sync { node_uri, lane_uri, body, .. } => mk("sync", node_uri, lane_uri, body),
        RawEnvelope::Unlink { node_uri, lane_uri, body } => mk("unlink", node_uri, lane_uri, body),
        RawEnvelope::Command { node_uri, lane_uri, body } => mk("command", node_uri, lane_uri, body),
        RawEnvelope::Linked { node_uri, lane_uri, body, .. } => mk("linked", node_uri, lane_uri, body),
        RawEnvelope::Synced { node_uri, lane_uri, body } => mk("synced", node_uri, lane_uri, body),
        RawEnvelope::Unlinked { node_uri, lane_uri, body } => mk("unlinked", node_uri, lane_uri, body),
        RawEnvelope::Event { node_uri, lane_uri, body } => mk("event", node_uri, lane_uri, body),
    }
}

/// The real reader: text frame -> envelope (both entry points must agree).
fn decode_text(text: &str) -> Value {
    let a = match peel_envelope_header_str(text) {
        Ok(env) => env_json(&env),
        Err(e) => json!({"err": e.to_string()}),
    };
    let b = match peel_envelope_header(text.as_bytes()) {
        Ok(env) => env_json(&env),
        Err(e) => json!({"err": e.to_string()}),
    };
    if a == b {
        a
    } else {
        json!({"err": "peel_envelope_header_str and peel_envelope_header disagree", "str": a, "bytes": b})
    }
}

fn run_pure(case: &Value) -> Value {
    let mut res = Vec::new();
    for m in case["cases"].as_array().unwrap() {
        match encode_text(m) {
            Ok(text) => {
                let back = decode_text(&text);
                res.push(json!({"text": text, "back": back}));
            }
            Err(e) => res.push(json!({"err": e})),
        }
    }
    json!({ "res": res })
}

// ------------------------------------------------------------------------------------------ task

type Log = Arc<Mutex<Vec<Value>>>;

fn response_json(m: &BytesResponseMessage) -> Value {
    let (kind, body): (&str, Vec<u8>) = match &m.envelope {
        Notification::Linked => ("linked", vec![]),
        Notification::Synced => ("synced", vec![]),
        Notification::Unlinked(b) => ("unlinked", b.as_ref().map(|b| b.to_vec()).unwrap_or_default()),
        Notification::Event(b) => ("event", b.to_vec()),
    };
    json!({"kind": kind, "node": m.path.node.as_str(), "lane": m.path.lane.as_str(),
           "body": String::from_utf8_lossy(&body)})
}

fn request_json(m: &BytesRequestMessage) -> Value {
    let (kind, body): (&str, Vec<u8>) = match &m.envelope {
        Operation::Link => ("link", vec![]),
        Operation::Sync => ("sync", vec![]),
        Operation::Unlink => ("unlink", vec![]),
        Operation::Command(b) => ("command", b.to_vec()),
    };
    json!({"kind": kind, "node": m.path.node.as_str(), "lane": m.path.lane.as_str(),
           "body": String::from_utf8_lossy(&body)})
}

struct Dl {
    writer: Option<FramedWrite<ByteWriter, RawRequestMessageEncoder>>,
    done: Option<oneshot::Receiver<Result<(), swimos_messages::remote_protocol::LinkError>>>,
    reader: Option<JoinHandle<()>>,
    attached: bool,
}

struct Agent {
    inst: u64,
    writer: Option<FramedWrite<ByteWriter, RawResponseMessageEncoder>>,
    reader: Option<JoinHandle<()>>,
}

type Agents = Arc<Mutex<HashMap<String, Agent>>>;

fn spawn_dl_reader(rx: ByteReader, d: u64, log: Log, my_id: Uuid) -> JoinHandle<()> {
    tokio::spawn(async move {
        let mut r = FramedRead::new(rx, RawResponseMessageDecoder);
        while let Some(item) = r.next().await {
            match item {
                Ok(m) => {
                    let mut e = json!({"k": "recv", "to": ["dl", "-", d], "msg": response_json(&m)});
                    if m.origin != my_id {
                        e["origin"] = json!("wrong");
                    }
                    log.lock().push(e)
                }
                Err(e) => {
                    log.lock().push(json!({"k": "decode_error", "to": ["dl", "-", d], "err": e.to_string()}));
                    break;
                }
            }
        }
    })
}

fn spawn_agent_reader(rx: ByteReader, node: String, inst: u64, log: Log) -> JoinHandle<()> {
    tokio::spawn(async move {
        let mut r = FramedRead::new(rx, RawRequestMessageDecoder);
        while let Some(item) = r.next().await {
            match item {
                Ok(m) => log.lock().push(json!({"k": "recv", "to": ["ag", node, inst], "msg": request_json(&m)})),
                Err(e) => {
                    log.lock().push(json!({"k": "decode_error", "to": ["ag", node, inst], "err": e.to_string()}));
                    break;
                }
            }
        }
    })
}

/// One client-to-server web socket frame (masked, as RFC 6455 requires of a client).
fn ws_frame(fin: bool, opcode: u8, payload: &[u8]) -> Vec<u8> {
    let key = [0x37u8, 0xfa, 0x21, 0x3d];
    let mut f = Vec::with_capacity(payload.len() + 14);
    f.push(if fin { 0x80 | opcode } else { opcode });
    if payload.len() < 126 {
        f.push(0x80 | payload.len() as u8);
    } else if payload.len() <= 0xFFFF {
        f.push(0x80 | 126);
        f.extend_from_slice(&(payload.len() as u16).to_be_bytes());
    } else {
        f.push(0x80 | 127);
        f.extend_from_slice(&(payload.len() as u64).to_be_bytes());
    }
    f.extend_from_slice(&key);
    f.extend(payload.iter().enumerate().map(|(i, b)| b ^ key[i % 4]));
    f
}

async fn write_peer(w: &mut tokio::io::WriteHalf<tokio::io::DuplexStream>, frame: &[u8], log: &Log) {
    use tokio::io::AsyncWriteExt;
    let r = tokio::time::timeout(Duration::from_secs(3600), w.write_all(frame)).await;
    if !matches!(r, Ok(Ok(()))) {
        log.lock().push(json!({"k": "peer_write_failed"}));
    }
}

/// One server-to-client frame: (fin, opcode, payload); None at end of stream.
async fn read_ws_frame(r: &mut tokio::io::ReadHalf<tokio::io::DuplexStream>) -> Result<Option<(bool, u8, Vec<u8>)>, String> {
    use tokio::io::AsyncReadExt;
    let mut h = [0u8; 2];
    match r.read_exact(&mut h).await {
        Ok(_) => {}
        Err(e) if e.kind() == std::io::ErrorKind::UnexpectedEof => return Ok(None),
        Err(e) => return Err(e.to_string()),
    }
    let fin = h[0] & 0x80 != 0;
    if h[0] & 0x70 != 0 {
        return Err("reserved bits set in a frame from the task".to_string());
    }
    let opcode = h[0] & 0x0F;
    let masked = h[1] & 0x80 != 0;
    let mut len = (h[1] & 0x7F) as u64;
    if len == 126 {
        let mut b = [0u8; 2];
        r.read_exact(&mut b).await.map_err(|e| e.to_string())?;
        len = u16::from_be_bytes(b) as u64;
    } else if len == 127 {
        let mut b = [0u8; 8];
        r.read_exact(&mut b).await.map_err(|e| e.to_string())?;
        len = u64::from_be_bytes(b);
    }
    let mut key = [0u8; 4];
    if masked {
        r.read_exact(&mut key).await.map_err(|e| e.to_string())?;
    }
    let mut payload = vec![0u8; len as usize];
    r.read_exact(&mut payload).await.map_err(|e| e.to_string())?;
    if masked {
        for (i, b) in payload.iter_mut().enumerate() {
            *b ^= key[i % 4];
        }
    }
    Ok(Some((fin, opcode, payload)))
}

async fn settle() {
    // paused clock: the sleep elapses only when every other task is parked - an exact barrier
    tokio::time::sleep(Duration::from_nanos(1)).await;
}

async fn run_task_async(case: &Value) -> Value {
    let cfg = &case["cfg"];
    let server_mode = cfg["server"].as_bool().unwrap_or(true);
    let exists: HashSet<String> = cfg["exists"].as_array().map(|a| a.iter().map(|v| v.as_str().unwrap().to_string()).collect()).unwrap_or_default();
    let max_inst = cfg["max_inst"].as_u64().unwrap_or(2);
    let buf = NonZeroUsize::new(cfg["buf"].as_u64().unwrap_or(4096) as usize).unwrap();
    let reg_buf = NonZeroUsize::new(cfg["reg_buf"].as_u64().unwrap_or(8) as usize).unwrap();
    let acts = case["acts"].as_array().unwrap();
    let log: Log = Arc::new(Mutex::new(Vec::new()));
    let task_id = Uuid::from_u128(1484);

    let (server, client) = duplex(cfg["duplex"].as_u64().unwrap_or(1 << 16) as usize);
    let config = WebSocketConfig::default();
    let server = WebSocket::from_upgraded(config, server, Some(NoExt), BytesMut::new(), Role::Server);
    let (stop_tx, stop_rx) = trigger::trigger();
    let (attach_tx, attach_rx) = mpsc::channel::<AttachClient>(reg_buf.get());
    let (find_tx, mut find_rx) = mpsc::channel::<FindNode>(reg_buf.get());
    let find_opt = if server_mode { Some(find_tx) } else { drop(find_tx); None };

    let remote = RemoteTask::new(task_id, stop_rx, server, attach_rx, find_opt, reg_buf, Duration::from_secs(5));
    {
        let log = log.clone();
        tokio::spawn(async move {
            let r = AssertUnwindSafe(remote.run()).catch_unwind().await;
            log.lock().push(json!({"k": "task_end", "panic": r.is_err()}));
        });
    }

    // the peer: speaks RFC 6455 frames directly on its end of the duplex stream, so that it can frame a text
    // message any way a peer may (fragments, control frames at any point, also between fragments)
    let (mut peer_rx, mut peer_tx) = tokio::io::split(client);
    {
        let log = log.clone();
        tokio::spawn(async move {
            let mut message: Vec<u8> = Vec::new();
            loop {
                let (fin, opcode, payload) = match read_ws_frame(&mut peer_rx).await {
                    Ok(Some(f)) => f,
                    Ok(None) => break, // the task dropped the socket
                    Err(e) => {
                        log.lock().push(json!({"k": "ws_error", "err": e}));
                        break;
                    }
                };
                match opcode {
                    0x0 | 0x1 => {
                        message.extend_from_slice(&payload);
                        if !fin {
                            continue;
                        }
                        let bytes = std::mem::take(&mut message);
                        match std::str::from_utf8(&bytes) {
                            Ok(text) => {
                                let back = decode_text(text);
                                if back.get("err").is_some() {
                                    log.lock().push(json!({"k": "bad_frame", "text": text, "err": back}));
                                } else {
                                    log.lock().push(json!({"k": "wire_out", "msg": back, "text": text}));
                                }
                            }
                            Err(_) => log.lock().push(json!({"k": "bad_frame", "text": "<invalid utf-8>"})),
                        }
                    }
                    0x2 => log.lock().push(json!({"k": "bad_frame", "text": "<binary>"})),
                    0x8 => {
                        let code = if payload.len() >= 2 { u16::from_be_bytes([payload[0], payload[1]]) } else { 0 };
                        log.lock().push(json!({"k": "ws_closed", "reason": format!("{} {}", code, String::from_utf8_lossy(payload.get(2..).unwrap_or(&[])))}));
                        break;
                    }
                    _ => {} // ping / pong from the task (its replies to our pings)
                }
            }
        });
    }

    // the plane: answers FindNode
    let agents: Agents = Arc::new(Mutex::new(HashMap::new()));
    {
        let log = log.clone();
        let agents = agents.clone();
        tokio::spawn(async move {
            let mut count: HashMap<String, u64> = HashMap::new();
            while let Some(FindNode { node, lane, request }) = find_rx.recv().await {
                if let NodeConnectionRequest::Warp { promise, source } = request {
                    let n = node.to_string();
                    let c = count.entry(n.clone()).or_insert(0);
                    let found = exists.contains(&n) && *c < max_inst;
                    let mut e = json!({"k": "find", "node": n, "lane": lane.as_ref().map(|l| l.to_string()).unwrap_or_default(), "found": found});
                    if source != task_id {
                        e["source"] = json!("wrong");
                    }
                    log.lock().push(e);
                    if found {
                        *c += 1;
                        let (in_tx, in_rx) = byte_channel(buf);
                        let (out_tx, out_rx) = byte_channel(buf);
                        let reader = spawn_agent_reader(in_rx, n.clone(), *c, log.clone());
                        agents.lock().insert(n.clone(), Agent { inst: *c, writer: Some(FramedWrite::new(out_tx, RawResponseMessageEncoder)), reader: Some(reader) });
                        let _ = promise.send(Ok((in_tx, out_rx)));
                    } else {
                        let _ = promise.send(Err(NoSuchAgent { node, lane }.into()));
                    }
                }
            }
        });
    }

    let mut dls: HashMap<u64, Dl> = HashMap::new();
    for a in acts {
        let k = a["k"].as_str().unwrap();
        match k {
            "attach_req" => {
                let d = a["d"].as_u64().unwrap();
                let (tx1, rx1) = byte_channel(buf);
                let (tx2, rx2) = byte_channel(buf);
                let (done_tx, done_rx) = oneshot::channel();
                log.lock().push(a.clone());
                let req = AttachClient::AttachDownlink {
                    downlink_id: Uuid::from_u128(100 + d as u128),
                    path: RelativeAddress::text(s(a, "node"), s(a, "lane")),
                    sender: tx1,
                    receiver: rx2,
                    done: done_tx,
                };
                let ok = tokio::time::timeout(Duration::from_secs(60), attach_tx.send(req)).await;
                if !matches!(ok, Ok(Ok(()))) {
                    log.lock().push(json!({"k": "attach_failed", "d": d, "at": "send"}));
                }
                let reader = spawn_dl_reader(rx1, d, log.clone(), task_id);
                dls.insert(d, Dl { writer: Some(FramedWrite::new(tx2, RawRequestMessageEncoder)), done: Some(done_rx), reader: Some(reader), attached: false });
            }
            "attach_oneway" => {
                let d = a["d"].as_u64().unwrap();
                let (tx2, rx2) = byte_channel(buf);
                let (done_tx, done_rx) = oneshot::channel();
                log.lock().push(a.clone());
                let req = AttachClient::OneWay { agent_id: Uuid::from_u128(100 + d as u128), path: None, receiver: rx2, done: done_tx };
                let ok = tokio::time::timeout(Duration::from_secs(60), attach_tx.send(req)).await;
                if !matches!(ok, Ok(Ok(()))) {
                    log.lock().push(json!({"k": "attach_failed", "d": d, "at": "send"}));
                }
                dls.insert(d, Dl { writer: Some(FramedWrite::new(tx2, RawRequestMessageEncoder)), done: Some(done_rx), reader: None, attached: false });
            }
            "attach_done" => {
                let d = a["d"].as_u64().unwrap();
                let done = dls.get_mut(&d).and_then(|x| x.done.take());
                let ok = match done {
                    Some(rx) => matches!(tokio::time::timeout(Duration::from_secs(3600), rx).await, Ok(Ok(Ok(())))),
                    None => false,
                };
                if ok {
                    if let Some(x) = dls.get_mut(&d) {
                        x.attached = true;
                    }
                    log.lock().push(a.clone());
                } else {
                    log.lock().push(json!({"k": "attach_failed", "d": d, "at": "done"}));
                }
            }
            "dl_send" => {
                let d = a["d"].as_u64().unwrap();
                let m = &a["msg"];
                let body = bytes::Bytes::copy_from_slice(s(m, "body").as_bytes());
                let op = match s(m, "kind") {
                    "link" => Operation::Link,
                    "sync" => Operation::Sync,
                    "unlink" => Operation::Unlink,
                    _ => Operation::Command(body),
                };
                let msg = RequestMessage { origin: Uuid::from_u128(100 + d as u128), path: RelativeAddress::new(s(m, "node"), s(m, "lane")), envelope: op };
                if let Some(w) = dls.get_mut(&d).and_then(|x| if x.attached { x.writer.as_mut() } else { None }) {
                    log.lock().push(a.clone());
                    if tokio::time::timeout(Duration::from_secs(3600), w.send(msg)).await.map(|r| r.is_err()).unwrap_or(true) {
                        log.lock().push(json!({"k": "send_failed", "d": d}));
                    }
                } else {
                    log.lock().push(json!({"k": "skip", "what": "dl_send", "d": d}));
                }
            }
            "dl_detach" => {
                let d = a["d"].as_u64().unwrap();
                log.lock().push(a.clone());
                if let Some(mut x) = dls.remove(&d) {
                    x.writer = None;
                    if let Some(h) = x.reader.take() {
                        h.abort();
                        let _ = h.await;
                    }
                }
            }
            "agent_send" => {
                let node = s(a, "node").to_string();
                let m = &a["msg"];
                let body = bytes::Bytes::copy_from_slice(s(m, "body").as_bytes());
                let n: Notification<bytes::Bytes, bytes::Bytes> = match s(m, "kind") {
                    "linked" => Notification::Linked,
                    "synced" => Notification::Synced,
                    "unlinked" => Notification::Unlinked(if body.is_empty() { None } else { Some(body) }),
                    _ => Notification::Event(body),
                };
                let msg = ResponseMessage { origin: Uuid::from_u128(9000), path: RelativeAddress::new(s(m, "node"), s(m, "lane")), envelope: n };
                let w = agents.lock().get_mut(&node).and_then(|x| x.writer.take());
                let inst = agents.lock().get(&node).map(|x| x.inst).unwrap_or(0);
                if let Some(mut w) = w {
                    let mut e = a.clone();
                    e["inst"] = json!(inst);
                    log.lock().push(e);
                    if tokio::time::timeout(Duration::from_secs(3600), w.send(msg)).await.map(|r| r.is_err()).unwrap_or(true) {
                        log.lock().push(json!({"k": "send_failed", "node": node}));
                    }
                    if let Some(x) = agents.lock().get_mut(&node) {
                        x.writer = Some(w);
                    }
                } else {
                    // the environment's move is not enabled in this run (no live agent for the node): skipped
                    log.lock().push(json!({"k": "skip", "what": "agent_send", "node": node}));
                }
            }
            "agent_stop" => {
                let node = s(a, "node").to_string();
                let x = agents.lock().get_mut(&node).map(|x| (x.writer.take(), x.reader.take()));
                match x {
                    Some((Some(w), r)) => {
                        log.lock().push(a.clone());
                        drop(w);
                        if let Some(h) = r {
                            h.abort();
                            let _ = h.await;
                        }
                    }
                    _ => log.lock().push(json!({"k": "skip", "what": "agent_stop", "node": node})),
                }
            }
            "peer_send" => {
                log.lock().push(a.clone());
                let text = match a.get("text").and_then(|t| t.as_str()) {
                    Some(t) => t.to_string(),
                    None => encode_text(&a["msg"]).expect("encode"),
                };
                // optional extra header slots (rate / prio) as other WARP writers produce them: only for
                // kinds without a body, whose text ends with the header's closing parenthesis
                let text = match a.get("slots").and_then(|t| t.as_str()) {
                    Some(extra) if text.ends_with(')') => format!("{}{})", &text[..text.len() - 1], extra),
                    _ => text,
                };
                write_peer(&mut peer_tx, &ws_frame(true, 0x1, text.as_bytes()), &log).await;
            }
            "peer_frag" => {
                // fragment `part` of `of` of the text of `msg`, cut at the byte offsets given as fractions in `cuts`
                // (a cut may fall inside a UTF-8 sequence, as RFC 6455 allows)
                log.lock().push(a.clone());
                let text = match a.get("text").and_then(|t| t.as_str()) {
                    Some(t) => t.to_string(),
                    None => encode_text(&a["msg"]).expect("encode"),
                };
                let bytes = text.as_bytes();
                let n = a["of"].as_u64().unwrap() as usize;
                let j = a["part"].as_u64().unwrap() as usize;
                let mut offs: Vec<usize> = a["cuts"].as_array().map(|c| c.iter().map(|f| ((f.as_f64().unwrap_or(0.5) * bytes.len() as f64) as usize).min(bytes.len())).collect()).unwrap_or_default();
                offs.resize(n - 1, bytes.len());
                offs.sort();
                let lo = if j == 1 { 0 } else { offs[j - 2] };
                let hi = if j == n { bytes.len() } else { offs[j - 1] };
                write_peer(&mut peer_tx, &ws_frame(j == n, if j == 1 { 0x1 } else { 0x0 }, &bytes[lo..hi]), &log).await;
            }
            "peer_ctl" => {
                log.lock().push(a.clone());
                let frame = match s(a, "c") {
                    "ping" => ws_frame(true, 0x9, b"hb"),
                    "pong" => ws_frame(true, 0xA, b""),
                    _ => ws_frame(true, 0x8, &[0x03, 0xE8]),
                };
                write_peer(&mut peer_tx, &frame, &log).await;
            }
            "settle" => {
                settle().await;
                log.lock().push(json!({"k": "settle"}));
            }
            other => panic!("bad action {}", other),
        }
    }
    settle().await;
    log.lock().push(json!({"k": "settle"}));
    let out = log.lock().clone();
    drop(stop_tx);
    json!({ "log": out })
}

fn run_task(case: &Value) -> Value {
    let rt = tokio::runtime::Builder::new_current_thread().enable_all().start_paused(true).build().unwrap();
    let v = rt.block_on(run_task_async(case));
    drop(rt);
    v
}

fn main() {
    h_common::drive(|case| match case["mode"].as_str() {
        Some("pure") => run_pure(case),
        _ => run_task(case),
    });
}

//! KSERVER harness (checks/k_server.py, specs/ServerPlane.tla): the REAL server runtime task
//! (`swimos_server_app` `SwimServer::run`, exposed under `--cfg swimos_verif`) stood up in-process on a paused,
//! single-threaded tokio runtime with
//!   * an in-memory `ExternalConnections` (tokio duplex streams, imitating the crate's own test networking) and a
//!     `Websockets` implementation that skips the HTTP upgrade,
//!   * peers that speak raw RFC 6455 frames on their end of the duplex stream and record everything they read,
//!   * test agents (one `Agent` per route) with a single value lane `lane`: an instance logs its node URI, the route it
//!     was made from, the route parameters it was given and its per-URI instance number when it is created / started,
//!     logs every lane request it receives, answers a sync with its state, turns a command into an event whose body
//!     names the instance, and stops when the runtime closes its lane (optionally holding its termination until the
//!     script releases it) or fails when the script tells it to.
//!
//! Case: {"id", "cfg": {"routes": [pattern...], "persist": bool, "inactive_ms": n, "hold": bool, ...},
//!        "groups": [ [env act, ...], ... ]}   - the acts of one group are executed back to back, then the system is
//! left to settle.  Result: {"obs": [ {"ev": [events logged during the group, in order]}, ... ], "end": [...]}.
use bytes::BytesMut;
use futures::future::{ready, BoxFuture};
use futures::stream::BoxStream;
use futures::{FutureExt, SinkExt, Stream, StreamExt};
use parking_lot::Mutex;
use ratchet::{ExtensionProvider, NoExtProvider, Role, WebSocket, WebSocketConfig, WebSocketStream};
use serde_json::{json, Value};
use std::collections::HashMap;
use std::net::{IpAddr, Ipv4Addr, SocketAddr};
use std::num::NonZeroUsize;
use std::panic::AssertUnwindSafe;
use std::pin::Pin;
use std::sync::Arc;
use std::time::Duration;
use swimos_agent_protocol::encoding::lane::{RawValueLaneRequestDecoder, RawValueLaneResponseEncoder};
use swimos_agent_protocol::{LaneRequest, LaneResponse};
use swimos_api::agent::{Agent, AgentConfig, AgentContext, AgentInitResult, WarpLaneKind};
use swimos_api::error::{AgentInitError, AgentTaskError};
use swimos_api::error::StoreError;
use swimos_api::persistence::{NodePersistence, PlanePersistence, ServerPersistence, StoreDisabled};
use swimos_messages::remote_protocol::FindNode;
use swimos_messages::warp::{peel_envelope_header, RawEnvelope};
use swimos_remote::dns::{BoxDnsResolver, DnsFut, DnsResolver};
use swimos_remote::websocket::{RatchetError, WebsocketClient, WebsocketServer, WsOpenFuture};
use swimos_remote::{ConnectionError, ExternalConnections, Listener, ListenerError, ListenerResult, Scheme};
use swimos_server_app::verif_hooks::{InMemoryPersistence, PlaneBuilder, SwimServer, Transport};
use swimos_server_app::{IntrospectionConfig, Server, ServerHandle, SwimServerConfig};
use swimos_utilities::routing::{RoutePattern, RouteUri};
use tokio::io::{self, duplex, AsyncReadExt, AsyncWriteExt, DuplexStream, ReadHalf, WriteHalf};
use tokio::sync::{mpsc, oneshot};
use tokio::task::JoinHandle;
use tokio_stream::wrappers::UnboundedReceiverStream;
use tokio_util::codec::{FramedRead, FramedWrite};

type Log = Arc<Mutex<Vec<Value>>>;

const LANE: &str = "lane";

// ------------------------------------------------------------------------------------ networking (in memory)

type Acc = Pin<Box<dyn Stream<Item = ListenerResult<(DuplexStream, Scheme, SocketAddr)>> + Send + Sync + 'static>>;

/// The listener is the stream of sockets the script "accepts"; nothing can be opened outwards.
#[derive(Clone)]
struct MemNet {
    incoming: Arc<Mutex<Option<mpsc::UnboundedReceiver<(SocketAddr, DuplexStream)>>>>,
}

struct MemListener(Acc);

impl std::fmt::Debug for MemListener {
    fn fmt(&self, f: &mut std::fmt::Formatter<'_>) -> std::fmt::Result {
        f.debug_tuple("MemListener").finish()
    }
}

impl Listener<DuplexStream> for MemListener {
    type AcceptStream = Acc;
    fn into_stream(self) -> Self::AcceptStream {
        self.0
    }
}

impl DnsResolver for MemNet {
    type ResolveFuture = DnsFut;
    fn resolve(&self, _host: String, _port: u16) -> Self::ResolveFuture {
        ready(Err(io::Error::from(io::ErrorKind::NotFound))).boxed()
    }
}

impl ExternalConnections for MemNet {
    type Socket = DuplexStream;
    type ListenerType = MemListener;

    fn bind(&self, addr: SocketAddr) -> BoxFuture<'static, Result<(SocketAddr, Self::ListenerType), ConnectionError>> {
        let r = match self.incoming.lock().take() {
            Some(rx) => {
                let s: Acc = Box::pin(UnboundedReceiverStream::new(rx).map(|(a, s)| Ok((s, Scheme::Ws, a))));
                Ok((addr, MemListener(s)))
            }
            None => Err(io::Error::from(io::ErrorKind::AddrInUse).into()),
        };
        ready(r).boxed()
    }

    fn try_open(&self, _scheme: Scheme, _host: Option<&str>, _addr: SocketAddr) -> BoxFuture<'static, Result<Self::Socket, ConnectionError>> {
        ready(Err(io::Error::from(io::ErrorKind::ConnectionAborted).into())).boxed()
    }

    fn lookup(&self, host: String, port: u16) -> BoxFuture<'static, io::Result<Vec<SocketAddr>>> {
        self.resolve(host, port)
    }

    fn dns_resolver(&self) -> BoxDnsResolver {
        Box::new(self.clone())
    }
}

/// Web sockets without the HTTP upgrade (as the crate's own `TestWs`).
#[derive(Default)]
struct MemWs {
    config: WebSocketConfig,
}

impl WebsocketClient for MemWs {
    fn open_connection<'a, Sock, Provider>(&self, socket: Sock, _provider: &'a Provider, _addr: String) -> WsOpenFuture<'a, Sock, Provider::Extension, RatchetError>
    where
        Sock: WebSocketStream + Send,
        Provider: ExtensionProvider + Send + Sync + 'static,
        Provider::Extension: Send + Sync + 'static,
    {
        ready(Ok(WebSocket::from_upgraded(self.config, socket, None, BytesMut::new(), Role::Client))).boxed()
    }
}

impl WebsocketServer for MemWs {
    type WsStream<Sock, Ext> = BoxStream<'static, Result<(WebSocket<Sock, Ext>, SocketAddr), ListenerError>>;

    fn wrap_listener<Sock, L, Provider>(&self, listener: L, _provider: Provider, _find: mpsc::Sender<FindNode>) -> Self::WsStream<Sock, Provider::Extension>
    where
        Sock: io::AsyncRead + io::AsyncWrite + Unpin + Send + Sync + 'static,
        L: Listener<Sock> + Send + 'static,
        Provider: ExtensionProvider + Send + Sync + Unpin + 'static,
        Provider::Extension: Send + Sync + Unpin + 'static,
    {
        let config = self.config;
        listener
            .into_stream()
            .map(move |result| result.map(|(sock, _, addr)| (WebSocket::from_upgraded(config, sock, None, BytesMut::new(), Role::Server), addr)))
            .boxed()
    }
}


// ------------------------------------------------------------------------------------ a store that tells when it is dropped

/// Wraps the configured `ServerPersistence`: behaves exactly like it, and logs when a node store is handed to an agent
/// runtime (`rt_open`) and when that runtime lets go of it (`rt_end`: the write task - the last part of the runtime to
/// finish - has ended).  This is the only way to see from outside that an instance's runtime is really over.
struct ObsServer<S> {
    inner: S,
    log: Log,
}

#[derive(Clone)]
struct ObsPlane<P> {
    inner: P,
    log: Log,
}

struct ObsNode<N> {
    inner: N,
    uri: String,
    log: Log,
}

impl<S: ServerPersistence> ServerPersistence for ObsServer<S> {
    type PlaneStore = ObsPlane<S::PlaneStore>;
    fn open_plane(&self, name: &str) -> Result<Self::PlaneStore, StoreError> {
        Ok(ObsPlane { inner: self.inner.open_plane(name)?, log: self.log.clone() })
    }
}

impl<P: PlanePersistence> PlanePersistence for ObsPlane<P> {
    type Node = ObsNode<P::Node>;
    fn node_store(&self, node_uri: &str) -> BoxFuture<'static, Result<Self::Node, StoreError>> {
        let fut = self.inner.node_store(node_uri);
        let log = self.log.clone();
        let uri = node_uri.to_string();
        async move {
            let inner = fut.await?;
            log.lock().push(json!({"k": "rt_open", "u": uri}));
            Ok(ObsNode { inner, uri, log })
        }
        .boxed()
    }
}

impl<N> Drop for ObsNode<N> {
    fn drop(&mut self) {
        self.log.lock().push(json!({"k": "rt_end", "u": self.uri}));
    }
}

impl<N: NodePersistence> NodePersistence for ObsNode<N> {
    type MapCon<'a> = N::MapCon<'a> where Self: 'a;
    type LaneId = N::LaneId;
    fn id_for(&self, name: &str) -> Result<Self::LaneId, StoreError> {
        self.inner.id_for(name)
    }
    fn get_value(&self, id: Self::LaneId, buffer: &mut BytesMut) -> Result<Option<usize>, StoreError> {
        self.inner.get_value(id, buffer)
    }
    fn put_value(&mut self, id: Self::LaneId, value: &[u8]) -> Result<(), StoreError> {
        self.inner.put_value(id, value)
    }
    fn delete_value(&mut self, id: Self::LaneId) -> Result<(), StoreError> {
        self.inner.delete_value(id)
    }
    fn update_map(&mut self, id: Self::LaneId, key: &[u8], value: &[u8]) -> Result<(), StoreError> {
        self.inner.update_map(id, key, value)
    }
    fn remove_map(&mut self, id: Self::LaneId, key: &[u8]) -> Result<(), StoreError> {
        self.inner.remove_map(id, key)
    }
    fn clear_map(&mut self, id: Self::LaneId) -> Result<(), StoreError> {
        self.inner.clear_map(id)
    }
    fn read_map(&self, id: Self::LaneId) -> Result<Self::MapCon<'_>, StoreError> {
        self.inner.read_map(id)
    }
}

// ------------------------------------------------------------------------------------ the test agents

enum Ctl {
    /// the agent task returns an error (a failing event handler)
    Fail,
    /// the agent task returns Ok although nobody asked it to stop
    Finish,
    /// when the runtime closes the lane, do not terminate before `Release`
    Hold,
    Release,
}

struct Shared {
    log: Log,
    /// control channel of the latest instance of each node URI
    ctl: Mutex<HashMap<String, mpsc::UnboundedSender<Ctl>>>,
    /// instances created so far, per node URI
    counts: Mutex<HashMap<String, u64>>,
    /// every instance holds its termination until released
    hold_all: bool,
    /// end of the script: nobody holds any more
    release_all: std::sync::atomic::AtomicBool,
    /// `Agent::run` fails for the instance with this number (of any node)
    fail_init: Option<u64>,
}

struct TestAgent {
    route: usize,
    shared: Arc<Shared>,
}

type LaneIn = FramedRead<swimos_utilities::byte_channel::ByteReader, RawValueLaneRequestDecoder>;
type LaneOut = FramedWrite<swimos_utilities::byte_channel::ByteWriter, RawValueLaneResponseEncoder>;

#[derive(Debug)]
struct Told;
impl std::fmt::Display for Told {
    fn fmt(&self, f: &mut std::fmt::Formatter<'_>) -> std::fmt::Result {
        write!(f, "the script told this agent to fail")
    }
}
impl std::error::Error for Told {}

impl Agent for TestAgent {
    fn run(&self, route: RouteUri, route_params: HashMap<String, String>, config: AgentConfig, context: Box<dyn AgentContext + Send>) -> BoxFuture<'static, AgentInitResult> {
        let shared = self.shared.clone();
        let uri = route.to_string();
        let n = {
            let mut c = shared.counts.lock();
            let e = c.entry(uri.clone()).or_insert(0);
            *e += 1;
            *e
        };
        let mut params: Vec<(String, String)> = route_params.into_iter().collect();
        params.sort();
        let params: serde_json::Map<String, Value> = params.into_iter().map(|(k, v)| (k, json!(v))).collect();
        shared.log.lock().push(json!({"k": "agent_run", "u": uri, "route": self.route, "params": params, "n": n}));
        let (ctl_tx, mut ctl_rx) = mpsc::unbounded_channel();
        shared.ctl.lock().insert(uri.clone(), ctl_tx);
        async move {
            if shared.fail_init == Some(n) {
                shared.log.lock().push(json!({"k": "init_failed", "u": uri, "n": n}));
                return Err(AgentInitError::UserCodeError(Box::new(Told)));
            }
            let lane_conf = config.default_lane_config.unwrap_or_default();
            let (tx, rx) = context.add_lane(LANE, WarpLaneKind::Value, lane_conf).await?;
            let mut input: LaneIn = FramedRead::new(rx, RawValueLaneRequestDecoder::default());
            let mut output: LaneOut = FramedWrite::new(tx, RawValueLaneResponseEncoder::default());
            let mut state: Option<String> = None;
            if !lane_conf.transient {
                loop {
                    match input.next().await {
                        Some(Ok(LaneRequest::Command(body))) => state = Some(String::from_utf8_lossy(&body).to_string()),
                        Some(Ok(LaneRequest::InitComplete)) => break,
                        other => {
                            shared.log.lock().push(json!({"k": "lane_init_error", "u": uri, "n": n, "what": format!("{:?}", other.map(|r| r.map(|_| ())))}));
                            return Err(AgentInitError::FailedToStart);
                        }
                    }
                }
                if output.send(LaneResponse::<BytesMut>::Initialized).await.is_err() {
                    return Err(AgentInitError::FailedToStart);
                }
            }
            let task: BoxFuture<'static, Result<(), AgentTaskError>> = async move {
                shared.log.lock().push(json!({"k": "started", "u": uri, "n": n, "restored": state}));
                let mut hold = shared.hold_all;
                let mut ctl_open = true;
                let mut state = state.unwrap_or_else(|| "\"\"".to_string());
                loop {
                    tokio::select! {
                        biased;
                        c = ctl_rx.recv(), if ctl_open => match c {
                            Some(Ctl::Fail) => {
                                shared.log.lock().push(json!({"k": "failed", "u": uri, "n": n}));
                                return Err(AgentTaskError::UserCodeError(Box::new(Told)));
                            }
                            Some(Ctl::Finish) => {
                                shared.log.lock().push(json!({"k": "finished", "u": uri, "n": n}));
                                return Ok(());
                            }
                            Some(Ctl::Hold) => hold = true,
                            Some(Ctl::Release) => hold = false,
                            None => ctl_open = false,
                        },
                        r = input.next() => match r {
                            Some(Ok(LaneRequest::Command(body))) => {
                                let body = String::from_utf8_lossy(&body).to_string();
                                shared.log.lock().push(json!({"k": "deliver", "u": uri, "n": n, "op": "command", "body": body}));
                                state = format!("\"{}#{}:{}\"", uri, n, body.replace('"', "'"));
                                if output.send(LaneResponse::StandardEvent(state.as_bytes())).await.is_err() {
                                    break;
                                }
                            }
                            Some(Ok(LaneRequest::Sync(id))) => {
                                shared.log.lock().push(json!({"k": "deliver", "u": uri, "n": n, "op": "sync"}));
                                if output.send(LaneResponse::SyncEvent(id, state.as_bytes())).await.is_err() || output.send(LaneResponse::<&[u8]>::Synced(id)).await.is_err() {
                                    break;
                                }
                            }
                            Some(Ok(LaneRequest::InitComplete)) => {}
                            Some(Err(e)) => {
                                shared.log.lock().push(json!({"k": "lane_error", "u": uri, "n": n, "err": e.to_string()}));
                                break;
                            }
                            None => break,
                        }
                    }
                }
                // the runtime closed the lane: this instance is being stopped
                shared.log.lock().push(json!({"k": "stopping", "u": uri, "n": n}));
                while hold && !shared.release_all.load(std::sync::atomic::Ordering::SeqCst) {
                    match ctl_rx.recv().await {
                        Some(Ctl::Release) | None => hold = false,
                        _ => {}
                    }
                }
                drop(input);
                drop(output);
                drop(context);
                shared.log.lock().push(json!({"k": "stopped", "u": uri, "n": n}));
                Ok(())
            }
            .boxed();
            Ok(task)
        }
        .boxed()
    }
}

// ------------------------------------------------------------------------------------ peers (raw RFC 6455)

/// One client-to-server web socket frame (masked, as RFC 6455 requires of a client).
fn ws_frame(fin: bool, opcode: u8, payload: &[u8]) -> Vec<u8> {
    let key = [0x37u8, 0xfa, 0x21, 0x3d];
    let mut f = Vec::with_capacity(payload.len() + 14);
    f.push(if fin { 0x80 | opcode } else { opcode });
    if payload.len() < 126 {
        f.push(0x80 | payload.len() as u8);
    } else if payload.len() <= 0xFFFF {
        f.push(0x80 | 126);
        f.extend_from_slice(&(payload.len() as u16).to_be_bytes());
    } else {
        f.push(0x80 | 127);
        f.extend_from_slice(&(payload.len() as u64).to_be_bytes());
    }
    f.extend_from_slice(&key);
    f.extend(payload.iter().enumerate().map(|(i, b)| b ^ key[i % 4]));
    f
}

/// One server-to-client frame: (fin, opcode, payload); None at end of stream.
async fn read_ws_frame(r: &mut ReadHalf<DuplexStream>) -> Result<Option<(bool, u8, Vec<u8>)>, String> {
    let mut h = [0u8; 2];
    match r.read_exact(&mut h).await {
        Ok(_) => {}
        Err(e) if e.kind() == std::io::ErrorKind::UnexpectedEof => return Ok(None),
        Err(e) => return Err(e.to_string()),
    }
    let fin = h[0] & 0x80 != 0;
    let opcode = h[0] & 0x0F;
    let masked = h[1] & 0x80 != 0;
    let mut len = (h[1] & 0x7F) as u64;
    if len == 126 {
        let mut b = [0u8; 2];
        r.read_exact(&mut b).await.map_err(|e| e.to_string())?;
        len = u16::from_be_bytes(b) as u64;
    } else if len == 127 {
        let mut b = [0u8; 8];
        r.read_exact(&mut b).await.map_err(|e| e.to_string())?;
        len = u64::from_be_bytes(b);
    }
    let mut key = [0u8; 4];
    if masked {
        r.read_exact(&mut key).await.map_err(|e| e.to_string())?;
    }
    let mut payload = vec![0u8; len as usize];
    r.read_exact(&mut payload).await.map_err(|e| e.to_string())?;
    if masked {
        for (i, b) in payload.iter_mut().enumerate() {
            *b ^= key[i % 4];
        }
    }
    Ok(Some((fin, opcode, payload)))
}

fn env_json(env: &RawEnvelope<'_>) -> Value {
    let mk = |k: &str, n: &str, l: &str, b: &str| json!({"kind": k, "node": n, "lane": l, "body": b});
    match env {
        RawEnvelope::Auth(_) => json!({"kind": "auth"}),
        RawEnvelope::DeAuth(_) => json!({"kind": "deauth"}),
        RawEnvelope::Link { node_uri, lane_uri, body, .. } => mk("link", node_uri, lane_uri, body),
        RawEnvelope::Sync { node_uri, lane_uri, body, .. } => mk("sync", node_uri, lane_uri, body),
        RawEnvelope::Unlink { node_uri, lane_uri, body } => mk("unlink", node_uri, lane_uri, body),
        RawEnvelope::Command { node_uri, lane_uri, body } => mk("command", node_uri, lane_uri, body),
        RawEnvelope::Linked { node_uri, lane_uri, body, .. } => mk("linked", node_uri, lane_uri, body),
        RawEnvelope::Synced { node_uri, lane_uri, body } => mk("synced", node_uri, lane_uri, body),
        RawEnvelope::Unlinked { node_uri, lane_uri, body } => mk("unlinked", node_uri, lane_uri, body),
        RawEnvelope::Event { node_uri, lane_uri, body } => mk("event", node_uri, lane_uri, body),
    }
}

struct Peer {
    tx: Option<WriteHalf<DuplexStream>>,
    reader: Option<JoinHandle<()>>,
    /// true: the peer does not read from its socket (a slow consumer)
    paused: tokio::sync::watch::Sender<bool>,
}

fn spawn_peer_reader(mut rx: ReadHalf<DuplexStream>, r: u64, log: Log, mut paused: tokio::sync::watch::Receiver<bool>) -> JoinHandle<()> {
    tokio::spawn(async move {
        let mut message: Vec<u8> = Vec::new();
        loop {
            while *paused.borrow() {
                if paused.changed().await.is_err() {
                    return;
                }
            }
            let (fin, opcode, payload) = match read_ws_frame(&mut rx).await {
                Ok(Some(f)) => f,
                Ok(None) => {
                    log.lock().push(json!({"k": "eof", "r": r}));
                    break;
                }
                Err(e) => {
                    log.lock().push(json!({"k": "ws_error", "r": r, "err": e}));
                    break;
                }
            };
            match opcode {
                0x0 | 0x1 => {
                    message.extend_from_slice(&payload);
                    if !fin {
                        continue;
                    }
                    let bytes = std::mem::take(&mut message);
                    match peel_envelope_header(&bytes) {
                        Ok(env) => log.lock().push(json!({"k": "recv", "r": r, "msg": env_json(&env)})),
                        Err(e) => log.lock().push(json!({"k": "bad_frame", "r": r, "text": String::from_utf8_lossy(&bytes), "err": e.to_string()})),
                    }
                }
                0x2 => log.lock().push(json!({"k": "bad_frame", "r": r, "text": "<binary>"})),
                0x8 => {
                    let code = if payload.len() >= 2 { u16::from_be_bytes([payload[0], payload[1]]) } else { 0 };
                    log.lock().push(json!({"k": "closed", "r": r, "code": code, "reason": String::from_utf8_lossy(payload.get(2..).unwrap_or(&[]))}));
                }
                _ => {}
            }
        }
    })
}

// ------------------------------------------------------------------------------------ the script

async fn settle() {
    // paused clock: the sleep elapses only when every other task is parked - an exact barrier
    tokio::time::sleep(Duration::from_nanos(1)).await;
}

fn addr_of(r: u64) -> SocketAddr {
    SocketAddr::new(IpAddr::V4(Ipv4Addr::new(192, 168, 0, r as u8)), 50000)
}

fn s<'a>(v: &'a Value, k: &str) -> &'a str {
    v[k].as_str().unwrap_or("")
}

fn start_server<S>(store: S, plane: swimos_server_app::verif_hooks::PlaneModel, net: MemNet, config: SwimServerConfig, intro: Option<IntrospectionConfig>) -> (BoxFuture<'static, Result<(), swimos_server_app::ServerError>>, ServerHandle)
where
    S: ServerPersistence + Send + Sync + 'static,
{
    let addr = SocketAddr::new(IpAddr::V4(Ipv4Addr::new(0, 0, 0, 0)), 8080);
    let server = SwimServer::new(plane, addr, Transport::new(net, MemWs::default(), NoExtProvider), config, store, intro);
    server.run()
}

fn envelope_text(a: &Value) -> String {
    if let Some(t) = a.get("text").and_then(|t| t.as_str()) {
        return t.to_string();
    }
    let (op, u) = (s(a, "op"), s(a, "u"));
    let lane = a.get("lane").and_then(|l| l.as_str()).unwrap_or(LANE);
    match op {
        "command" => format!("@command(node:\"{}\",lane:{}) {}", u, lane, a["body"].as_str().map(|b| b.to_string()).unwrap_or_else(|| a["e"].to_string())),
        other => format!("@{}(node:\"{}\",lane:{})", other, u, lane),
    }
}

async fn run_case_async(case: &Value) -> Value {
    let cfg = &case["cfg"];
    let log: Log = Arc::new(Mutex::new(Vec::new()));
    let hours = Duration::from_secs(3600 * 24);
    let ms = |k: &str, d: Duration| cfg[k].as_u64().map(Duration::from_millis).unwrap_or(d);
    let inactive = ms("inactive_ms", Duration::from_secs(60));
    let shared = Arc::new(Shared {
        log: log.clone(),
        ctl: Mutex::new(HashMap::new()),
        counts: Mutex::new(HashMap::new()),
        hold_all: cfg["hold"].as_bool().unwrap_or(false),
        release_all: std::sync::atomic::AtomicBool::new(false),
        fail_init: cfg["fail_init"].as_u64(),
    });

    let mut pb = PlaneBuilder::with_name("plane");
    for (i, p) in cfg["routes"].as_array().expect("cfg.routes").iter().enumerate() {
        let pat = match RoutePattern::parse_str(p.as_str().unwrap()) {
            Ok(p) => p,
            Err(e) => return json!({"bad_pattern": e.to_string()}),
        };
        pb.add_route(pat, TestAgent { route: i + 1, shared: shared.clone() });
    }
    let plane = match pb.build() {
        Ok(p) => p,
        Err(e) => return json!({"build_error": e.to_string()}),
    };
    // what ServerBuilder::build would say about this plane when introspection is on (PlaneModel::check_meta_collisions)
    let meta_collision = plane.check_meta_collisions().is_err();
    let mut config = SwimServerConfig::default();
    config.agent_runtime.inactive_timeout = inactive;
    config.agent_runtime.prune_remote_delay = ms("prune_ms", hours);
    config.agent_runtime.shutdown_timeout = ms("shutdown_ms", Duration::from_secs(30));
    config.agent_runtime.item_init_timeout = ms("item_init_ms", Duration::from_secs(5));
    config.attachment_timeout = ms("attach_ms", Duration::from_secs(30));
    config.remote.close_timeout = ms("close_ms", Duration::from_secs(5));
    if let Some(n) = cfg["find_chan"].as_u64() {
        config.find_route_channel_size = NonZeroUsize::new(n as usize).unwrap();
    }
    if let Some(n) = cfg["agent_buf"].as_u64() {
        config.agent_runtime_buffer_size = NonZeroUsize::new(n as usize).unwrap();
    }
    let intro = if cfg["introspection"].as_bool().unwrap_or(false) { Some(IntrospectionConfig::default()) } else { None };

    let (incoming_tx, incoming_rx) = mpsc::unbounded_channel();
    let net = MemNet { incoming: Arc::new(Mutex::new(Some(incoming_rx))) };
    let (task, mut handle) = if cfg["persist"].as_bool().unwrap_or(false) {
        start_server(ObsServer { inner: InMemoryPersistence::default(), log: log.clone() }, plane, net, config, intro)
    } else {
        start_server(ObsServer { inner: StoreDisabled, log: log.clone() }, plane, net, config, intro)
    };
    let (end_tx, mut end_rx) = oneshot::channel::<()>();
    {
        let log = log.clone();
        tokio::spawn(async move {
            let r = AssertUnwindSafe(task).catch_unwind().await;
            let e = match r {
                Ok(Ok(())) => json!({"k": "server_end", "ok": true}),
                Ok(Err(e)) => json!({"k": "server_end", "ok": false, "err": e.to_string()}),
                Err(_) => json!({"k": "server_end", "ok": false, "panic": true}),
            };
            log.lock().push(e);
            let _ = end_tx.send(());
        });
    }
    settle().await;

    let dup = cfg["duplex"].as_u64().unwrap_or(1 << 16) as usize;
    let mut peers: HashMap<u64, Peer> = HashMap::new();
    let mut obs: Vec<Value> = Vec::new();
    let mut mark = log.lock().len();
    let mut ended = false;
    let mut returning: Vec<(u64, oneshot::Receiver<WriteHalf<DuplexStream>>)> = Vec::new();
    for group in case["groups"].as_array().expect("groups") {
        for a in group.as_array().expect("group") {
            let k = s(a, "k");
            log.lock().push(a.clone());
            match k {
                "connect" => {
                    let r = a["r"].as_u64().unwrap();
                    let (client, server_sock) = duplex(dup);
                    if incoming_tx.send((addr_of(r), server_sock)).is_err() {
                        log.lock().push(json!({"k": "connect_refused", "r": r}));
                    }
                    let (rx, tx) = tokio::io::split(client);
                    let (ptx, prx) = tokio::sync::watch::channel(false);
                    let reader = spawn_peer_reader(rx, r, log.clone(), prx);
                    peers.insert(r, Peer { tx: Some(tx), reader: Some(reader), paused: ptx });
                }
                "send" => {
                    let r = a["r"].as_u64().unwrap();
                    let text = envelope_text(a);
                    let ok = match peers.get_mut(&r).and_then(|p| p.tx.as_mut()) {
                        Some(tx) => matches!(tokio::time::timeout(Duration::from_millis(1), tx.write_all(&ws_frame(true, 0x1, text.as_bytes()))).await, Ok(Ok(()))),
                        None => false,
                    };
                    if !ok {
                        log.lock().push(json!({"k": "peer_write_failed", "r": r}));
                    }
                }
                "pause" | "resume" => {
                    if let Some(p) = peers.get(&a["r"].as_u64().unwrap()) {
                        let _ = p.paused.send(k == "pause");
                    }
                }
                "send_at" => {
                    // the peer's frame is written at an exact instant of the (paused) clock: now + ns
                    let r = a["r"].as_u64().unwrap();
                    let text = envelope_text(a);
                    let ns = a["ns"].as_u64().unwrap();
                    if let Some(mut tx) = peers.get_mut(&r).and_then(|p| p.tx.take()) {
                        let (back_tx, back_rx) = oneshot::channel();
                        let log = log.clone();
                        let mut rec = a.clone();
                        rec["k"] = json!("send");
                        tokio::spawn(async move {
                            tokio::time::sleep(Duration::from_nanos(ns)).await;
                            log.lock().push(rec);
                            let _ = tx.write_all(&ws_frame(true, 0x1, text.as_bytes())).await;
                            let _ = back_tx.send(tx);
                        });
                        returning.push((r, back_rx));
                    }
                }
                "disconnect" => {
                    let r = a["r"].as_u64().unwrap();
                    if let Some(p) = peers.get_mut(&r) {
                        if let Some(mut tx) = p.tx.take() {
                            if s(a, "how") != "drop" {
                                let _ = tokio::time::timeout(Duration::from_millis(1), tx.write_all(&ws_frame(true, 0x8, &[0x03, 0xE8]))).await;
                            }
                            let _ = tokio::time::timeout(Duration::from_millis(1), tx.shutdown()).await;
                        }
                        if s(a, "how") == "drop" {
                            if let Some(h) = p.reader.take() {
                                h.abort();
                                let _ = h.await;
                            }
                        }
                    }
                }
                "fail" | "finish" | "hold" | "release" => {
                    let c = match k {
                        "fail" => Ctl::Fail,
                        "finish" => Ctl::Finish,
                        "hold" => Ctl::Hold,
                        _ => Ctl::Release,
                    };
                    let ok = shared.ctl.lock().get(s(a, "u")).map(|tx| tx.send(c).is_ok()).unwrap_or(false);
                    if !ok {
                        log.lock().push(json!({"k": "skip", "what": k, "u": s(a, "u")}));
                    }
                }
                "advance" => {
                    // let (paused) time pass: every timer up to now + ms fires, in order
                    tokio::time::sleep(Duration::from_millis(a["ms"].as_u64().unwrap())).await;
                }
                "timeout" => {
                    // every instance that has been idle gives up: one inactivity period (and a bit) passes
                    tokio::time::sleep(inactive + Duration::from_millis(a["extra_ms"].as_u64().unwrap_or(10))).await;
                }
                "start_agent" => {
                    // ServerHandle::start_agent: start an instance without any envelope
                    let uri: Result<RouteUri, _> = s(a, "u").parse();
                    match uri {
                        Ok(uri) => {
                            let r = tokio::time::timeout(Duration::from_secs(1), handle.start_agent(uri)).await;
                            let e = match r {
                                Ok(Ok(())) => json!({"k": "start_result", "u": s(a, "u"), "ok": true}),
                                Ok(Err(e)) => json!({"k": "start_result", "u": s(a, "u"), "ok": false, "err": e.to_string()}),
                                Err(_) => json!({"k": "start_result", "u": s(a, "u"), "ok": false, "err": "no answer"}),
                            };
                            log.lock().push(e);
                        }
                        Err(_) => log.lock().push(json!({"k": "skip", "what": "start_agent", "u": s(a, "u")})),
                    }
                }
                "shutdown" => {
                    handle.stop();
                }
                "settle" => {}
                other => panic!("harness: bad action {}", other),
            }
        }
        settle().await;
        let mut keep = Vec::new();
        for (r, mut rx) in returning.drain(..) {
            match rx.try_recv() {
                Ok(tx) => {
                    if let Some(p) = peers.get_mut(&r) {
                        p.tx = Some(tx);
                    }
                }
                Err(_) => keep.push((r, rx)),
            }
        }
        returning = keep;
        if !ended && end_rx.try_recv().is_ok() {
            ended = true;
        }
        let l = log.lock();
        obs.push(json!({"ev": l[mark..].to_vec()}));
        mark = l.len();
    }
    // end of script: stop the server (if the script did not) and let it finish, bounded
    for p in peers.values() {
        let _ = p.paused.send(false);
    }
    shared.release_all.store(true, std::sync::atomic::Ordering::SeqCst);
    for tx in shared.ctl.lock().values() {
        let _ = tx.send(Ctl::Release);
    }
    handle.stop();
    let finished = ended || tokio::time::timeout(Duration::from_secs(600), &mut end_rx).await.is_ok();
    settle().await;
    let l = log.lock();
    let end: Vec<Value> = l[mark..].to_vec();
    json!({"obs": obs, "end": end, "server_finished": finished, "meta_collision": meta_collision})
}

fn run_case(case: &Value) -> Value {
    let rt = tokio::runtime::Builder::new_current_thread().enable_all().start_paused(true).build().unwrap();
    let v = rt.block_on(run_case_async(case));
    drop(rt);
    v
}

fn main() {
    h_common::drive(run_case);
}

fn main() {}

use serde_json::{json, Value};
use std::io::{BufRead, Write};
use std::panic::{catch_unwind, AssertUnwindSafe};
use std::sync::atomic::{AtomicUsize, Ordering};
use std::sync::Arc;
use std::task::{Wake, Waker};

/// Reads cases from stdin, runs each (catching panics: a panic in the code under test is data),
/// writes one result line per case.
pub fn drive<F: Fn(&Value) -> Value>(f: F) {
    std::panic::set_hook(Box::new(|_| {}));
    let stdin = std::io::stdin();
    let stdout = std::io::stdout();
    let mut out = std::io::BufWriter::new(stdout.lock());
    for line in stdin.lock().lines() {
        let line = line.expect("stdin");
        if line.trim().is_empty() {
            continue;
        }
        let case: Value = serde_json::from_str(&line).expect("case json");
        let id = case.get("id").cloned().unwrap_or(Value::Null);
        let res = catch_unwind(AssertUnwindSafe(|| f(&case)));
        let mut v = match res {
            Ok(v) => v,
            Err(e) => {
                let msg = if let Some(s) = e.downcast_ref::<String>() {
                    s.clone()
                } else if let Some(s) = e.downcast_ref::<&str>() {
                    s.to_string()
                } else {
                    "panic".to_string()
                };
                json!({ "panic": msg })
            }
        };
        v["id"] = id;
        serde_json::to_writer(&mut out, &v).unwrap();
        out.write_all(b"\n").unwrap();
    }
    out.flush().unwrap();
}

pub struct CountWaker(pub AtomicUsize);

impl Wake for CountWaker {
    fn wake(self: Arc<Self>) {
        self.0.fetch_add(1, Ordering::SeqCst);
    }
    fn wake_by_ref(self: &Arc<Self>) {
        self.0.fetch_add(1, Ordering::SeqCst);
    }
}

pub fn count_waker() -> (Arc<CountWaker>, Waker) {
    let c = Arc::new(CountWaker(AtomicUsize::new(0)));
    (c.clone(), Waker::from(c))
}

impl CountWaker {
    pub fn get(&self) -> usize {
        self.0.load(Ordering::SeqCst)
    }
}

//! C10 - replays fragmentation schedules generated from specs/Framing.tla on the real tokio_util
//! Encoder / Decoder pairs of swimos_agent_protocol::encoding, swimos_messages::protocol,
//! swimos_utilities::encoding and swimos_recon.
//!
//! One case = one codec pair + one message sequence (+ optional byte overwrites of the encoded
//! stream) + any number of fragmentation schedules ("runs", each a list of piece sizes).  For each
//! run a fresh decoder is driven exactly as tokio_util::codec::FramedRead drives it: after every
//! piece `decode` is called until it returns None; after the last piece `decode_eof` is called until
//! it returns None.  Every call is logged: kind, outcome, bytes consumed by that call, and whether
//! the decoded message is identical to the message that was encoded at that position.
//!
//! stdin : {"id", "codec", "msgs":[..], "mut":[{"at":n,"set":hex}], "runs":[[n1,n2,..],..], "dump":bool}
//! stdout: {"id", "ends":[cumulative frame ends], "len":n, "stream":hex?, "runs":[{"ev":[..],"left":n}]}
//!   ev entries: ["r", n] | ["d"|"e", "some"|"none"|"err"|"panic"|"hang", consumed, m, info]
//!   m = 1-based index of the encoded message the decoded one is equal to (0 = differs / surplus)
use bytes::{Buf, Bytes, BytesMut};
use serde_json::{json, Value as J};
use std::fmt::Debug;
use std::io::{BufRead, Write};
use std::marker::PhantomData;
use std::panic::{catch_unwind, AssertUnwindSafe};
use swimos_agent_protocol::encoding::{command::*, downlink::*, lane::*, map::*, store::*};
use swimos_agent_protocol::{
    CommandMessage, DownlinkNotification, DownlinkOperation, LaneRequest, LaneResponse, MapMessage,
    MapOperation, StoreInitMessage, StoreInitialized, StoreResponse,
};
use swimos_api::address::{Address, RelativeAddress};
use swimos_form::read::RecognizerReadable;
use swimos_messages::protocol::{
    Notification, Operation, RawRequestMessageDecoder, RawRequestMessageEncoder,
    RawResponseMessageDecoder, RawResponseMessageEncoder, RequestMessage, RequestMessageDecoder,
    ResponseMessage, ResponseMessageEncoder,
};
use swimos_model::{Text, Value};
use swimos_recon::parser::parse_recognize;
use swimos_recon::{print_recon_compact, WithLenRecognizerDecoder, WithLenReconEncoder};
use swimos_utilities::encoding::{BytesStr, WithLengthBytesCodec};
use tokio_util::codec::{Decoder, Encoder};
use uuid::Uuid;

// ------------------------------------------------------------------------------------------ json

fn hex(b: &[u8]) -> String {
    let mut s = String::with_capacity(b.len() * 2);
    for x in b {
        s.push_str(&format!("{:02x}", x));
    }
    s
}

fn unhex(s: &str) -> Vec<u8> {
    (0..s.len() / 2)
        .map(|i| u8::from_str_radix(&s[2 * i..2 * i + 2], 16).expect("hex"))
        .collect()
}

fn st(j: &J, k: &str) -> String {
    j[k].as_str().unwrap_or_else(|| panic!("harness: missing string field {}", k)).to_string()
}

fn raw_in(j: &J) -> Vec<u8> {
    unhex(j.as_str().expect("harness: body must be a hex string"))
}

fn raw_out<B: AsRef<[u8]>>(b: B) -> J {
    J::String(hex(b.as_ref()))
}

/// typed bodies travel as the hex of their canonical compact Recon text
fn val_in(j: &J) -> Value {
    let bytes = raw_in(j);
    let text = std::str::from_utf8(&bytes).expect("harness: typed body must be utf8");
    parse_recognize::<Value>(text, false).expect("harness: typed body must be valid recon")
}

fn val_out(v: Value) -> J {
    J::String(hex(format!("{}", print_recon_compact(&v)).as_bytes()))
}

fn uuid_in(j: &J) -> Uuid {
    Uuid::from_u128(u128::from_str_radix(j.as_str().expect("harness: id"), 16).expect("harness: id hex"))
}

fn uuid_out(u: Uuid) -> J {
    J::String(format!("{:032x}", u.as_u128()))
}

// ------------------------------------------------------------------------------------ conversions

fn mm_in<K, V>(j: &J, fk: &dyn Fn(&J) -> K, fv: &dyn Fn(&J) -> V) -> MapMessage<K, V> {
    match j["t"].as_str().unwrap() {
        "update" => MapMessage::Update { key: fk(&j["key"]), value: fv(&j["value"]) },
        "remove" => MapMessage::Remove { key: fk(&j["key"]) },
        "clear" => MapMessage::Clear,
        "take" => MapMessage::Take(j["n"].as_u64().unwrap()),
        "drop" => MapMessage::Drop(j["n"].as_u64().unwrap()),
        o => panic!("harness: bad map message kind {}", o),
    }
}

fn mm_out<K, V>(m: MapMessage<K, V>, tk: &dyn Fn(K) -> J, tv: &dyn Fn(V) -> J) -> J {
    match m {
        MapMessage::Update { key, value } => json!({"t": "update", "key": tk(key), "value": tv(value)}),
        MapMessage::Remove { key } => json!({"t": "remove", "key": tk(key)}),
        MapMessage::Clear => json!({"t": "clear"}),
        MapMessage::Take(n) => json!({"t": "take", "n": n}),
        MapMessage::Drop(n) => json!({"t": "drop", "n": n}),
    }
}

fn mo_in<K, V>(j: &J, fk: &dyn Fn(&J) -> K, fv: &dyn Fn(&J) -> V) -> MapOperation<K, V> {
    match j["t"].as_str().unwrap() {
        "update" => MapOperation::Update { key: fk(&j["key"]), value: fv(&j["value"]) },
        "remove" => MapOperation::Remove { key: fk(&j["key"]) },
        "clear" => MapOperation::Clear,
        o => panic!("harness: bad map operation kind {}", o),
    }
}

fn mo_out<K, V>(m: MapOperation<K, V>, tk: &dyn Fn(K) -> J, tv: &dyn Fn(V) -> J) -> J {
    match m {
        MapOperation::Update { key, value } => json!({"t": "update", "key": tk(key), "value": tv(value)}),
        MapOperation::Remove { key } => json!({"t": "remove", "key": tk(key)}),
        MapOperation::Clear => json!({"t": "clear"}),
    }
}

fn rmm_in(j: &J) -> MapMessage<Vec<u8>, Vec<u8>> {
    mm_in(j, &raw_in, &raw_in)
}
fn rmm_out<B: AsRef<[u8]>>(m: MapMessage<B, B>) -> J {
    mm_out(m, &|k| raw_out(k), &|v| raw_out(v))
}
fn vmm_in(j: &J) -> MapMessage<Value, Value> {
    mm_in(j, &val_in, &val_in)
}
fn vmm_out(m: MapMessage<Value, Value>) -> J {
    mm_out(m, &val_out, &val_out)
}
fn rmo_in(j: &J) -> MapOperation<Vec<u8>, Vec<u8>> {
    mo_in(j, &raw_in, &raw_in)
}
fn rmo_out<B: AsRef<[u8]>>(m: MapOperation<B, B>) -> J {
    mo_out(m, &|k| raw_out(k), &|v| raw_out(v))
}
fn vmo_in(j: &J) -> MapOperation<Value, Value> {
    mo_in(j, &val_in, &val_in)
}
fn vmo_out(m: MapOperation<Value, Value>) -> J {
    mo_out(m, &val_out, &val_out)
}

fn lreq_in<T>(j: &J, fb: &dyn Fn(&J) -> T) -> LaneRequest<T> {
    match j["t"].as_str().unwrap() {
        "command" => LaneRequest::Command(fb(&j["body"])),
        "sync" => LaneRequest::Sync(uuid_in(&j["id"])),
        "init_complete" => LaneRequest::InitComplete,
        o => panic!("harness: bad lane request kind {}", o),
    }
}

fn lreq_out<T>(m: LaneRequest<T>, tb: &dyn Fn(T) -> J) -> J {
    match m {
        LaneRequest::Command(b) => json!({"t": "command", "body": tb(b)}),
        LaneRequest::Sync(id) => json!({"t": "sync", "id": uuid_out(id)}),
        LaneRequest::InitComplete => json!({"t": "init_complete"}),
    }
}

fn lresp_in<T>(j: &J, fb: &dyn Fn(&J) -> T) -> LaneResponse<T> {
    match j["t"].as_str().unwrap() {
        "event" => LaneResponse::StandardEvent(fb(&j["body"])),
        "initialized" => LaneResponse::Initialized,
        "sync_event" => LaneResponse::SyncEvent(uuid_in(&j["id"]), fb(&j["body"])),
        "synced" => LaneResponse::Synced(uuid_in(&j["id"])),
        o => panic!("harness: bad lane response kind {}", o),
    }
}

fn lresp_out<T>(m: LaneResponse<T>, tb: &dyn Fn(T) -> J) -> J {
    match m {
        LaneResponse::StandardEvent(b) => json!({"t": "event", "body": tb(b)}),
        LaneResponse::Initialized => json!({"t": "initialized"}),
        LaneResponse::SyncEvent(id, b) => json!({"t": "sync_event", "id": uuid_out(id), "body": tb(b)}),
        LaneResponse::Synced(id) => json!({"t": "synced", "id": uuid_out(id)}),
    }
}

fn sinit_in<T>(j: &J, fb: &dyn Fn(&J) -> T) -> StoreInitMessage<T> {
    match j["t"].as_str().unwrap() {
        "command" => StoreInitMessage::Command(fb(&j["body"])),
        "init_complete" => StoreInitMessage::InitComplete,
        o => panic!("harness: bad store init kind {}", o),
    }
}

fn sinit_out<T>(m: StoreInitMessage<T>, tb: &dyn Fn(T) -> J) -> J {
    match m {
        StoreInitMessage::Command(b) => json!({"t": "command", "body": tb(b)}),
        StoreInitMessage::InitComplete => json!({"t": "init_complete"}),
    }
}

fn dln_in(j: &J) -> DownlinkNotification<Vec<u8>> {
    match j["t"].as_str().unwrap() {
        "linked" => DownlinkNotification::Linked,
        "synced" => DownlinkNotification::Synced,
        "unlinked" => DownlinkNotification::Unlinked,
        "event" => DownlinkNotification::Event { body: raw_in(&j["body"]) },
        o => panic!("harness: bad downlink notification kind {}", o),
    }
}

fn dln_out<T>(m: DownlinkNotification<T>, tb: &dyn Fn(T) -> J) -> J {
    match m {
        DownlinkNotification::Linked => json!({"t": "linked"}),
        DownlinkNotification::Synced => json!({"t": "synced"}),
        DownlinkNotification::Unlinked => json!({"t": "unlinked"}),
        DownlinkNotification::Event { body } => json!({"t": "event", "body": tb(body)}),
    }
}

fn opt_str(j: &J) -> Option<String> {
    j.as_str().map(|s| s.to_string())
}

fn cmd_in<T>(j: &J, fb: &dyn Fn(&J) -> T) -> CommandMessage<String, T> {
    match j["t"].as_str().unwrap() {
        "register" => CommandMessage::Register {
            address: Address::new(opt_str(&j["host"]), st(j, "node"), st(j, "lane")),
            id: j["reg"].as_u64().unwrap() as u16,
        },
        "addressed" => CommandMessage::Addressed {
            target: Address::new(opt_str(&j["host"]), st(j, "node"), st(j, "lane")),
            command: fb(&j["body"]),
            overwrite_permitted: j["ow"].as_bool().unwrap(),
        },
        "registered" => CommandMessage::Registered {
            target: j["reg"].as_u64().unwrap() as u16,
            command: fb(&j["body"]),
            overwrite_permitted: j["ow"].as_bool().unwrap(),
        },
        o => panic!("harness: bad command message kind {}", o),
    }
}

fn cmd_out<S: AsRef<str>, T>(m: CommandMessage<S, T>, tb: &dyn Fn(T) -> J) -> J {
    let h = |a: &Address<S>| match &a.host {
        Some(h) => J::String(h.as_ref().to_string()),
        None => J::Null,
    };
    match m {
        CommandMessage::Register { address, id } => {
            json!({"t": "register", "host": h(&address), "node": address.node.as_ref(), "lane": address.lane.as_ref(), "reg": id})
        }
        CommandMessage::Addressed { target, command, overwrite_permitted } => {
            json!({"t": "addressed", "host": h(&target), "node": target.node.as_ref(), "lane": target.lane.as_ref(),
                   "body": tb(command), "ow": overwrite_permitted})
        }
        CommandMessage::Registered { target, command, overwrite_permitted } => {
            json!({"t": "registered", "reg": target, "body": tb(command), "ow": overwrite_permitted})
        }
    }
}

fn req_in(j: &J) -> RequestMessage<String, Vec<u8>> {
    let origin = uuid_in(&j["origin"]);
    let path = RelativeAddress::new(st(j, "node"), st(j, "lane"));
    let envelope = match j["t"].as_str().unwrap() {
        "link" => Operation::Link,
        "sync" => Operation::Sync,
        "unlink" => Operation::Unlink,
        "command" => Operation::Command(raw_in(&j["body"])),
        o => panic!("harness: bad request kind {}", o),
    };
    RequestMessage { origin, path, envelope }
}

fn req_out<P: AsRef<str>, T>(m: RequestMessage<P, T>, tb: &dyn Fn(T) -> J) -> J {
    let RequestMessage { origin, path, envelope } = m;
    let mut o = json!({"origin": uuid_out(origin), "node": path.node.as_ref(), "lane": path.lane.as_ref()});
    match envelope {
        Operation::Link => o["t"] = json!("link"),
        Operation::Sync => o["t"] = json!("sync"),
        Operation::Unlink => o["t"] = json!("unlink"),
        Operation::Command(b) => {
            o["t"] = json!("command");
            o["body"] = tb(b);
        }
    }
    o
}

/// `Unlinked(None)` and `Unlinked(Some(empty))` have the same encoding (documented leniency): both
/// are rendered as "body": null.
fn unlinked_body<B: AsRef<[u8]>>(b: Option<B>) -> J {
    match b {
        Some(b) if !b.as_ref().is_empty() => raw_out(b),
        _ => J::Null,
    }
}

fn resp_in<T>(j: &J, fb: &dyn Fn(&J) -> T) -> ResponseMessage<String, T, Vec<u8>> {
    let origin = uuid_in(&j["origin"]);
    let path = RelativeAddress::new(st(j, "node"), st(j, "lane"));
    let envelope = match j["t"].as_str().unwrap() {
        "linked" => Notification::Linked,
        "synced" => Notification::Synced,
        "unlinked" => Notification::Unlinked(if j["body"].is_null() { None } else { Some(raw_in(&j["body"])) }),
        "event" => Notification::Event(fb(&j["body"])),
        o => panic!("harness: bad response kind {}", o),
    };
    ResponseMessage { origin, path, envelope }
}

fn resp_out<P: AsRef<str>, T: AsRef<[u8]>, U: AsRef<[u8]>>(m: ResponseMessage<P, T, U>) -> J {
    let ResponseMessage { origin, path, envelope } = m;
    let mut o = json!({"origin": uuid_out(origin), "node": path.node.as_ref(), "lane": path.lane.as_ref()});
    match envelope {
        Notification::Linked => o["t"] = json!("linked"),
        Notification::Synced => o["t"] = json!("synced"),
        Notification::Unlinked(b) => {
            o["t"] = json!("unlinked");
            o["body"] = unlinked_body(b);
        }
        Notification::Event(b) => {
            o["t"] = json!("event");
            o["body"] = raw_out(b);
        }
    }
    o
}

// ------------------------------------------------------------------------------------------ pairs

trait Pair {
    fn encode(&mut self, m: &J, dst: &mut BytesMut);
    fn decode(&mut self, src: &mut BytesMut, eof: bool) -> Result<Option<J>, String>;
}

struct P<E, D, I, FI, FO> {
    enc: E,
    dec: D,
    fi: FI,
    fo: FO,
    _i: PhantomData<I>,
}

impl<E, D, I, FI, FO> Pair for P<E, D, I, FI, FO>
where
    E: Encoder<I>,
    E::Error: Debug,
    D: Decoder,
    D::Error: Debug,
    FI: Fn(&J) -> I,
    FO: Fn(D::Item) -> J,
{
    fn encode(&mut self, m: &J, dst: &mut BytesMut) {
        let item = (self.fi)(m);
        self.enc.encode(item, dst).expect("harness: encoder failed");
    }

    fn decode(&mut self, src: &mut BytesMut, eof: bool) -> Result<Option<J>, String> {
        let r = if eof { self.dec.decode_eof(src) } else { self.dec.decode(src) };
        match r {
            Ok(Some(item)) => Ok(Some((self.fo)(item))),
            Ok(None) => Ok(None),
            Err(e) => Err(format!("{:?}", e)),
        }
    }
}

fn pair<E, D, I, FI, FO>(enc: E, dec: D, fi: FI, fo: FO) -> Box<dyn Pair>
where
    E: Encoder<I> + 'static,
    E::Error: Debug,
    D: Decoder + 'static,
    D::Error: Debug,
    I: 'static,
    FI: Fn(&J) -> I + 'static,
    FO: Fn(D::Item) -> J + 'static,
{
    Box::new(P { enc, dec, fi, fo, _i: PhantomData })
}

/// Encoder for the body of a map downlink event: the runtime encodes the map message with
/// RawMapMessageEncoder and sends it as the body of a DownlinkNotification::Event.
struct MapEventEncoder;

impl Encoder<J> for MapEventEncoder {
    type Error = std::io::Error;
    fn encode(&mut self, j: J, dst: &mut BytesMut) -> Result<(), Self::Error> {
        let not: DownlinkNotification<Vec<u8>> = match j["t"].as_str().unwrap() {
            "event" => {
                let mut body = BytesMut::new();
                RawMapMessageEncoder::default().encode(rmm_in(&j["body"]), &mut body)?;
                DownlinkNotification::Event { body: body.to_vec() }
            }
            _ => dln_in(&j),
        };
        DownlinkNotificationEncoder.encode(not, dst)
    }
}

fn make(codec: &str) -> Box<dyn Pair> {
    match codec {
        // ---- swimos_utilities::encoding / swimos_recon building blocks
        "with_len_bytes" => pair(
            WithLengthBytesCodec,
            WithLengthBytesCodec,
            |j: &J| raw_in(&j["body"]),
            |b: BytesMut| json!({"t": "bytes", "body": raw_out(b)}),
        ),
        "with_len_recon" => pair(
            WithLenReconEncoder,
            WithLenRecognizerDecoder::new(Value::make_recognizer()),
            |j: &J| val_in(&j["body"]),
            |v: Value| json!({"t": "bytes", "body": val_out(v)}),
        ),
        // ---- lane requests
        "lane_req_raw_value" => pair(
            RawValueLaneRequestEncoder::default(),
            RawValueLaneRequestDecoder::default(),
            |j: &J| lreq_in(j, &raw_in),
            |m| lreq_out(m, &|b: BytesMut| raw_out(b)),
        ),
        "lane_req_value" => pair(
            ValueLaneRequestEncoder::default(),
            ValueLaneRequestDecoder::<Value>::default(),
            |j: &J| lreq_in(j, &val_in),
            |m| lreq_out(m, &val_out),
        ),
        "lane_req_raw_map" => pair(
            RawMapLaneRequestEncoder::default(),
            RawMapLaneRequestDecoder::default(),
            |j: &J| lreq_in(j, &rmm_in),
            |m| lreq_out(m, &|b| rmm_out(b)),
        ),
        "lane_req_map" => pair(
            MapLaneRequestEncoder::default(),
            MapLaneRequestDecoder::<Value, Value>::default(),
            |j: &J| lreq_in(j, &vmm_in),
            |m| lreq_out(m, &vmm_out),
        ),
        // ---- lane responses
        "lane_resp_raw_value" => pair(
            RawValueLaneResponseEncoder::default(),
            RawValueLaneResponseDecoder::default(),
            |j: &J| lresp_in(j, &raw_in),
            |m| lresp_out(m, &|b: BytesMut| raw_out(b)),
        ),
        "lane_resp_value" => pair(
            ValueLaneResponseEncoder::default(),
            ValueLaneResponseDecoder::<Value>::default(),
            |j: &J| lresp_in(j, &val_in),
            |m| lresp_out(m, &val_out),
        ),
        "lane_resp_raw_map" => pair(
            RawMapLaneResponseEncoder::default(),
            RawMapLaneResponseDecoder::default(),
            |j: &J| lresp_in(j, &rmo_in),
            |m| lresp_out(m, &|b| rmo_out(b)),
        ),
        "lane_resp_map" => pair(
            MapLaneResponseEncoder::default(),
            MapLaneResponseDecoder::<Value, Value>::default(),
            |j: &J| lresp_in(j, &vmo_in),
            |m| lresp_out(m, &vmo_out),
        ),
        // ---- map messages / operations
        "map_msg_raw" => pair(
            RawMapMessageEncoder::default(),
            RawMapMessageDecoder::default(),
            |j: &J| rmm_in(j),
            |m| rmm_out(m),
        ),
        "map_msg" => pair(
            MapMessageEncoder::default(),
            MapMessageDecoder::<Value, Value>::default(),
            |j: &J| vmm_in(j),
            vmm_out,
        ),
        // messages written with the raw encoder (Recon text as bytes) read by the typed decoder:
        // this is how the runtime and the agent actually talk to each other
        "map_msg_raw_to_typed" => pair(
            RawMapMessageEncoder::default(),
            MapMessageDecoder::<Value, Value>::default(),
            |j: &J| rmm_in(j),
            vmm_out,
        ),
        "map_op_raw" => pair(
            RawMapOperationEncoder,
            RawMapOperationDecoder,
            |j: &J| rmo_in(j),
            |m| rmo_out(m),
        ),
        "map_op" => pair(
            MapOperationEncoder,
            MapOperationDecoder::<Value, Value>::default(),
            |j: &J| vmo_in(j),
            vmo_out,
        ),
        // typed encoder read back as raw bytes (agent -> runtime direction)
        "map_op_typed_to_raw" => pair(
            MapOperationEncoder,
            RawMapOperationDecoder,
            |j: &J| vmo_in(j),
            |m| rmo_out(m),
        ),
        // ---- store initialisation and responses
        "store_init_raw_value" => pair(
            RawValueStoreInitEncoder::default(),
            RawValueStoreInitDecoder::default(),
            |j: &J| sinit_in(j, &raw_in),
            |m| sinit_out(m, &|b: BytesMut| raw_out(b)),
        ),
        "store_init_value" => pair(
            RawValueStoreInitEncoder::default(),
            ValueStoreInitDecoder::<Value>::default(),
            |j: &J| sinit_in(j, &raw_in),
            |m| sinit_out(m, &val_out),
        ),
        "store_init_raw_map" => pair(
            RawMapStoreInitEncoder::default(),
            RawMapStoreInitDecoder::default(),
            |j: &J| sinit_in(j, &rmm_in),
            |m| sinit_out(m, &|b| rmm_out(b)),
        ),
        "store_init_map" => pair(
            RawMapStoreInitEncoder::default(),
            MapStoreInitDecoder::<Value, Value>::default(),
            |j: &J| sinit_in(j, &rmm_in),
            |m| sinit_out(m, &vmm_out),
        ),
        "store_initialized" => pair(
            StoreInitializedCodec,
            StoreInitializedCodec,
            |_j: &J| StoreInitialized,
            |_m: StoreInitialized| json!({"t": "initialized"}),
        ),
        "store_resp_value" => pair(
            ValueStoreResponseEncoder::default(),
            RawValueStoreResponseDecoder::default(),
            |j: &J| StoreResponse::new(val_in(&j["body"])),
            |m: StoreResponse<BytesMut>| json!({"t": "event", "body": raw_out(m.message)}),
        ),
        "store_resp_map" => pair(
            MapStoreResponseEncoder::default(),
            RawMapStoreResponseDecoder::default(),
            |j: &J| StoreResponse::new(vmo_in(&j["body"])),
            |m: StoreResponse<MapOperation<BytesMut, BytesMut>>| json!({"t": "event", "body": rmo_out(m.message)}),
        ),
        // ---- downlinks
        "dl_not_value" => pair(
            DownlinkNotificationEncoder,
            ValueNotificationDecoder::<Value>::default(),
            |j: &J| dln_in(j),
            |m| dln_out(m, &val_out),
        ),
        "dl_not_map" => pair(
            MapEventEncoder,
            MapNotificationDecoder::<Value, Value>::default(),
            |j: &J| j.clone(),
            |m| dln_out(m, &vmm_out),
        ),
        "dl_op" => pair(
            DownlinkOperationEncoder::default(),
            DownlinkOperationDecoder,
            |j: &J| DownlinkOperation::new(val_in(&j["body"])),
            |m: DownlinkOperation<Bytes>| json!({"t": "op", "body": raw_out(m.body)}),
        ),
        // ---- ad hoc commands
        "cmd_raw" => pair(
            RawCommandMessageEncoder::default(),
            RawCommandMessageDecoder::<BytesStr>::default(),
            |j: &J| cmd_in(j, &raw_in),
            |m| cmd_out(m, &|b: BytesMut| raw_out(b)),
        ),
        "cmd" => pair(
            CommandMessageEncoder::default(),
            CommandMessageDecoder::<Text, Value>::default(),
            |j: &J| cmd_in(j, &val_in),
            |m| cmd_out(m, &val_out),
        ),
        // ---- routed requests / responses (swimos_messages::protocol)
        "req_raw" => pair(
            RawRequestMessageEncoder,
            RawRequestMessageDecoder,
            |j: &J| req_in(j),
            |m: RequestMessage<BytesStr, Bytes>| req_out(m, &|b: Bytes| raw_out(b)),
        ),
        "req" => pair(
            RawRequestMessageEncoder,
            RequestMessageDecoder::new(Value::make_recognizer()),
            |j: &J| req_in(j),
            |m: RequestMessage<Text, Value>| req_out(m, &val_out),
        ),
        "resp_raw" => pair(
            RawResponseMessageEncoder,
            RawResponseMessageDecoder,
            |j: &J| resp_in(j, &raw_in),
            |m| resp_out(m),
        ),
        "resp" => pair(
            ResponseMessageEncoder,
            RawResponseMessageDecoder,
            |j: &J| resp_in(j, &val_in),
            |m| resp_out(m),
        ),
        o => panic!("harness: unknown codec {}", o),
    }
}

// -------------------------------------------------------------------------------------------- run

fn one_run(codec: &str, msgs: &[J], stream: &[u8], pieces: &[usize]) -> J {
    let mut p = make(codec);
    let mut buf = BytesMut::new();
    let mut ev: Vec<J> = Vec::new();
    let mut pos = 0usize;
    let mut emitted = 0usize;
    let budget = 4 * (msgs.len() + pieces.len() + 8);
    let mut calls = 0usize;
    let mut dead = false;

    // returns false when the driver has to stop calling this decoder
    let call = |p: &mut Box<dyn Pair>, buf: &mut BytesMut, eof: bool, ev: &mut Vec<J>, emitted: &mut usize| -> (bool, bool) {
        let tag = if eof { "e" } else { "d" };
        let before = buf.remaining();
        let r = catch_unwind(AssertUnwindSafe(|| p.decode(buf, eof)));
        let after = buf.remaining();
        let c = before as i64 - after as i64;
        match r {
            Err(e) => {
                let msg = if let Some(s) = e.downcast_ref::<String>() {
                    s.clone()
                } else if let Some(s) = e.downcast_ref::<&str>() {
                    s.to_string()
                } else {
                    "panic".to_string()
                };
                ev.push(json!([tag, "panic", c, 0, msg]));
                (false, false)
            }
            Ok(Ok(Some(m))) => {
                let idx = *emitted;
                *emitted += 1;
                if idx < msgs.len() && msgs[idx] == m {
                    ev.push(json!([tag, "some", c, idx + 1]));
                } else {
                    ev.push(json!([tag, "some", c, 0, m]));
                }
                (true, true)
            }
            Ok(Ok(None)) => {
                ev.push(json!([tag, "none", c, 0]));
                (true, false)
            }
            Ok(Err(e)) => {
                ev.push(json!([tag, "err", c, 0, e]));
                (false, false)
            }
        }
    };

    'outer: for n in pieces {
        let n = (*n).min(stream.len() - pos);
        buf.extend_from_slice(&stream[pos..pos + n]);
        pos += n;
        ev.push(json!(["r", n]));
        loop {
            calls += 1;
            if calls > budget {
                ev.push(json!(["d", "hang", 0, 0]));
                dead = true;
                break 'outer;
            }
            let (alive, again) = call(&mut p, &mut buf, false, &mut ev, &mut emitted);
            if !alive {
                dead = true;
                break 'outer;
            }
            if !again {
                break;
            }
        }
    }
    if !dead {
        loop {
            calls += 1;
            if calls > budget {
                ev.push(json!(["e", "hang", 0, 0]));
                break;
            }
            let (alive, again) = call(&mut p, &mut buf, true, &mut ev, &mut emitted);
            if !alive || !again {
                break;
            }
        }
    }
    json!({"ev": ev, "left": buf.remaining()})
}

fn run_case(case: &J) -> J {
    if let Some(pool) = case.get("canon") {
        // self check of the typed body pool: parse + print must be the identity
        let out: Vec<J> = pool
            .as_array()
            .unwrap()
            .iter()
            .map(|h| match catch_unwind(AssertUnwindSafe(|| val_out(val_in(h)))) {
                Ok(v) => v,
                Err(_) => J::Null,
            })
            .collect();
        return json!({ "canon": out });
    }
    let codec = case["codec"].as_str().expect("codec");
    let msgs = case["msgs"].as_array().expect("msgs");
    let mut enc = make(codec);
    let mut stream = BytesMut::new();
    let mut ends = Vec::with_capacity(msgs.len());
    for m in msgs {
        enc.encode(m, &mut stream);
        ends.push(stream.len());
    }
    let mut stream = stream.to_vec();
    if let Some(muts) = case.get("mut").and_then(|m| m.as_array()) {
        for m in muts {
            let at = m["at"].as_u64().unwrap() as usize;
            let set = unhex(m["set"].as_str().unwrap());
            for (i, b) in set.iter().enumerate() {
                if at + i < stream.len() {
                    stream[at + i] = *b;
                }
            }
        }
    }
    let mut runs = Vec::new();
    if let Some(rs) = case.get("runs").and_then(|r| r.as_array()) {
        for r in rs {
            let pieces: Vec<usize> = r.as_array().unwrap().iter().map(|x| x.as_u64().unwrap() as usize).collect();
            runs.push(one_run(codec, msgs, &stream, &pieces));
        }
    }
    let mut out = json!({"ends": ends, "len": stream.len(), "runs": runs});
    if case.get("dump").and_then(|d| d.as_bool()).unwrap_or(false) {
        out["stream"] = J::String(hex(&stream));
    }
    out
}

fn main() {
    std::panic::set_hook(Box::new(|_| {}));
    let stdin = std::io::stdin();
    let stdout = std::io::stdout();
    let mut out = std::io::BufWriter::new(stdout.lock());
    for line in stdin.lock().lines() {
        let line = line.expect("stdin");
        if line.trim().is_empty() {
            continue;
        }
        let case: J = serde_json::from_str(&line).expect("case json");
        let id = case.get("id").cloned().unwrap_or(J::Null);
        let mut v = match catch_unwind(AssertUnwindSafe(|| run_case(&case))) {
            Ok(v) => v,
            Err(e) => {
                let msg = if let Some(s) = e.downcast_ref::<String>() {
                    s.clone()
                } else if let Some(s) = e.downcast_ref::<&str>() {
                    s.to_string()
                } else {
                    "panic".to_string()
                };
                json!({ "panic": msg })
            }
        };
        v["id"] = id;
        serde_json::to_writer(&mut out, &v).unwrap();
        out.write_all(b"\n").unwrap();
        // flushed per case: a corrupt length can make the code under test abort the process
        // (allocation failure); the driver then knows which case did it
        out.flush().unwrap();
    }
}

//! Binds specs/Trigger.tla to the one-shot trigger and the promise of swimos_trigger
//! (swimos_utilities::trigger = /repo/swimos_utilities/swimos_trigger/src/{trigger,promise}/mod.rs).
//!
//! `trigger`          replays call sequences by hand-polling any number of receivers (clones made at any point) with
//!                    counting wakers; every public call is one step (the implementation takes a mutex around the waiter
//!                    slab and clones / wakes the wakers under it: a call of the sender cannot be placed inside a poll).
//! `trigger stress`   one sender thread and up to three receiver threads (each with its own receiver and waker) with
//!                    seeded pauses; invocation / response events stamped by a global atomic counter; a receiver parks after
//!                    `pending` until its waker fires, or reports `idle` once the sender has finished and it still has not.
use futures::future::FusedFuture;
use h_common::count_waker;
use serde_json::{json, Value};
use std::future::Future;
use std::pin::Pin;
use std::sync::atomic::{AtomicBool, AtomicU64, AtomicUsize, Ordering};
use std::sync::{Arc, Mutex};
use std::task::{Context, Poll};
use swimos_utilities::trigger::{self, promise};

enum Tx {
    T(trigger::Sender),
    P(promise::Sender<Arc<u64>>),
}

#[derive(Clone)]
enum Rx {
    T(trigger::Receiver),
    P(promise::Receiver<Arc<u64>>),
}

fn make(kind: &str) -> (Tx, Rx) {
    if kind == "promise" {
        let (tx, rx) = promise::promise::<Arc<u64>>();
        (Tx::P(tx), Rx::P(rx))
    } else {
        let (tx, rx) = trigger::trigger();
        (Tx::T(tx), Rx::T(rx))
    }
}

/// "pending" | "ok" | "err" | "ok_wrong" (a promise that completes with something else than the value provided)
fn poll_rx(rx: &mut Rx, cx: &mut Context<'_>, provided: &Arc<u64>) -> &'static str {
    match rx {
        Rx::T(r) => match Pin::new(r).poll(cx) {
            Poll::Pending => "pending",
            Poll::Ready(Ok(())) => "ok",
            Poll::Ready(Err(_)) => "err",
        },
        Rx::P(r) => match Pin::new(r).poll(cx) {
            Poll::Pending => "pending",
            Poll::Ready(Ok(v)) => {
                if Arc::ptr_eq(&v, provided) {
                    "ok"
                } else {
                    "ok_wrong"
                }
            }
            Poll::Ready(Err(_)) => "err",
        },
    }
}

/// Sender::trigger / Sender::provide: "true" | "false" ("false_wrong": provide handed back another value)
fn fire(tx: Tx, provided: &Arc<u64>) -> &'static str {
    match tx {
        Tx::T(t) => {
            if t.trigger() {
                "true"
            } else {
                "false"
            }
        }
        Tx::P(p) => match p.provide(provided.clone()) {
            Ok(()) => "true",
            Err(back) => {
                if Arc::ptr_eq(&back, provided) {
                    "false"
                } else {
                    "false_wrong"
                }
            }
        },
    }
}

pub fn run_case(case: &Value) -> Value {
    let kind = case["cfg"]["kind"].as_str().unwrap_or("trigger");
    let nw = case["cfg"]["nw"].as_u64().unwrap_or(1).max(1) as usize;
    let acts = case["acts"].as_array().unwrap();
    let provided = Arc::new(4711u64);
    let (tx, rx) = make(kind);
    let mut tx = Some(tx);
    let mut rxs: Vec<Option<Rx>> = vec![Some(rx)];
    let ws: Vec<_> = (0..nw).map(|_| count_waker()).collect();
    let mut obs: Vec<Value> = Vec::with_capacity(acts.len());
    for a in acts {
        let k = a["k"].as_str().unwrap();
        let c0: Vec<usize> = ws.iter().map(|(c, _)| c.get()).collect();
        let ri = a["r"].as_u64().unwrap_or(1).max(1) as usize - 1;
        let mut o = match k {
            "poll" => {
                let wi = (a["w"].as_u64().unwrap_or(1).max(1) as usize - 1).min(nw - 1);
                let mut cx = Context::from_waker(&ws[wi].1);
                let rx = rxs[ri].as_mut().expect("poll of a dropped receiver");
                json!({"res": poll_rx(rx, &mut cx, &provided)})
            }
            "clone" => {
                let c = rxs[ri].as_ref().expect("clone of a dropped receiver").clone();
                let same = match (&c, rxs[ri].as_ref().unwrap()) {
                    (Rx::T(a), Rx::T(b)) => trigger::Receiver::same_receiver(a, b),
                    (Rx::P(a), Rx::P(b)) => promise::Receiver::same_promise(a, b),
                    _ => false,
                };
                rxs.push(Some(c));
                json!({"res": if same { "done" } else { "not_same" }, "id": rxs.len()})
            }
            "dropR" => {
                rxs[ri] = None;
                json!({"res": "done"})
            }
            "check" => match rxs[ri].as_ref().expect("check of a dropped receiver") {
                Rx::T(r) => {
                    let st = match r.check_state() {
                        None => "none",
                        Some(Ok(())) => "ok",
                        Some(Err(_)) => "err",
                    };
                    json!({"res": st, "term": r.is_terminated()})
                }
                Rx::P(_) => panic!("promise receivers have no check_state"),
            },
            "trigger" => json!({"res": fire(tx.take().expect("sender used twice"), &provided)}),
            "dropS" => {
                tx = None;
                json!({"res": "done"})
            }
            other => panic!("bad action {}", other),
        };
        let woke: Vec<usize> = (0..nw).map(|x| ws[x].0.get() - c0[x]).collect();
        o["woke"] = json!(woke);
        obs.push(o);
    }
    json!({ "obs": obs })
}

// ------------------------------------------------------------------------------------------ stress

struct Rng(u64);
impl Rng {
    fn next(&mut self) -> u64 {
        let mut x = self.0;
        x ^= x << 13;
        x ^= x >> 7;
        x ^= x << 17;
        self.0 = x;
        x
    }
    fn pause(&mut self, heavy: u64) {
        let r = self.next();
        match r % 8 {
            0..=2 => {}
            3 | 4 => {
                for _ in 0..((r >> 8) % 64) {
                    std::hint::spin_loop();
                }
            }
            5 => {
                for _ in 0..((r >> 8) % (200 * heavy + 1)) {
                    std::hint::spin_loop();
                }
            }
            6 => std::thread::yield_now(),
            _ => {
                for _ in 0..((r >> 8) % (2000 * heavy + 1)) {
                    std::hint::spin_loop();
                }
            }
        }
    }
}

fn start_line(b: &AtomicUsize, n: usize) {
    b.fetch_add(1, Ordering::SeqCst);
    while b.load(Ordering::SeqCst) < n {
        std::hint::spin_loop();
    }
}

struct DoneGuard(Arc<AtomicBool>);
impl Drop for DoneGuard {
    fn drop(&mut self) {
        self.0.store(true, Ordering::SeqCst);
    }
}

/// cfg: kind, nrecv (1..3), mode "trigger" | "drop" | "keep", late (clones made after receiver 1 was polled), seed, heavy
/// events: {"k":"inv","t":"S"|"R<j>","op":..} / {"k":"res","t":..,"r":..} / {"k":"idle","t":"R<j>"} / {"k":"clone","r":j,"from":1}
fn stress_case(case: &Value) -> Value {
    let cfg = &case["cfg"];
    let kind = cfg["kind"].as_str().unwrap_or("trigger").to_string();
    let nrecv = cfg["nrecv"].as_u64().unwrap_or(2).clamp(1, 3) as usize;
    let mode = cfg["mode"].as_str().unwrap_or("trigger").to_string();
    let late = cfg["late"].as_bool().unwrap_or(false);
    let seed = cfg["seed"].as_u64().unwrap_or(1);
    let heavy = cfg["heavy"].as_u64().unwrap_or(1);
    let provided = Arc::new(4711u64);
    let (tx, rx0) = make(&kind);
    let clock = Arc::new(AtomicU64::new(1));
    let sender_done = Arc::new(AtomicBool::new(false));
    let line = Arc::new(AtomicUsize::new(0));
    let wakers: Vec<_> = (0..nrecv).map(|_| count_waker()).collect();
    let mut pre: Vec<(u64, String, Value)> = Vec::new();
    let mut rxs: Vec<Rx> = vec![rx0];
    if late {
        // receiver 1 is polled (with its own waker) before the clones are made
        let mut cx = Context::from_waker(&wakers[0].1);
        let t0 = clock.fetch_add(1, Ordering::SeqCst);
        let r = poll_rx(&mut rxs[0], &mut cx, &provided);
        let t1 = clock.fetch_add(1, Ordering::SeqCst);
        pre.push((t0, "R1".into(), json!({"k": "inv", "t": "R1", "op": "poll", "w": 1})));
        pre.push((t1, "R1".into(), json!({"k": "res", "t": "R1", "r": r})));
    }
    for j in 1..nrecv {
        let c = rxs[0].clone();
        rxs.push(c);
        let t = clock.fetch_add(1, Ordering::SeqCst);
        pre.push((t, "M".into(), json!({"k": "clone", "r": j + 1, "from": 1})));
    }
    let first_pending = late;
    let nthreads = nrecv + 1;

    let (clock_s, done_s, line_s, mode_s, prov_s) = (clock.clone(), sender_done.clone(), line.clone(), mode.clone(), provided.clone());
    let s = std::thread::spawn(move || {
        let mut tx = Some(tx);
        let mut rng = Rng(seed.wrapping_mul(0x9E3779B97F4A7C15) | 1);
        let mut log: Vec<(u64, Value)> = Vec::new();
        let _guard = DoneGuard(done_s.clone());
        start_line(&line_s, nthreads);
        rng.pause(heavy);
        rng.pause(heavy);
        if mode_s == "trigger" {
            let t0 = clock_s.fetch_add(1, Ordering::SeqCst);
            let r = fire(tx.take().unwrap(), &prov_s);
            let t1 = clock_s.fetch_add(1, Ordering::SeqCst);
            log.push((t0, json!({"k": "inv", "t": "S", "op": "trigger"})));
            log.push((t1, json!({"k": "res", "t": "S", "r": r})));
        } else if mode_s == "drop" {
            let t0 = clock_s.fetch_add(1, Ordering::SeqCst);
            tx = None;
            let t1 = clock_s.fetch_add(1, Ordering::SeqCst);
            log.push((t0, json!({"k": "inv", "t": "S", "op": "dropS"})));
            log.push((t1, json!({"k": "res", "t": "S", "r": "done"})));
        }
        done_s.store(true, Ordering::SeqCst);
        (log, tx)
    });

    let mut handles = Vec::new();
    for (j, rx) in rxs.into_iter().enumerate() {
        let (clock_r, done_r, line_r, prov_r) = (clock.clone(), sender_done.clone(), line.clone(), provided.clone());
        let (cnt, waker) = (wakers[j].0.clone(), wakers[j].1.clone());
        let parked0 = j == 0 && first_pending;
        handles.push(std::thread::spawn(move || {
            let mut rx = rx;
            let name = format!("R{}", j + 1);
            let mut rng = Rng(seed.wrapping_mul(0xD1B54A32D192ED03).wrapping_add(j as u64 * 7919) | 1);
            let mut log: Vec<(u64, Value)> = Vec::new();
            let mut polls = 0;
            let mut after = 0;
            // receiver 1 of a `late` run is already parked (its pending poll was made before the clones)
            let mut parked = parked0;
            let mut c0 = 0usize;
            start_line(&line_r, nthreads);
            loop {
                if parked {
                    let mut idle = false;
                    loop {
                        if cnt.get() > c0 {
                            break;
                        }
                        if done_r.load(Ordering::SeqCst) {
                            if cnt.get() > c0 {
                                break;
                            }
                            idle = true;
                            break;
                        }
                        std::hint::spin_loop();
                        if rng.next() % 64 == 0 {
                            std::thread::yield_now();
                        }
                    }
                    if idle {
                        let t = clock_r.fetch_add(1, Ordering::SeqCst);
                        log.push((t, json!({"k": "idle", "t": name})));
                        break;
                    }
                    parked = false;
                }
                rng.pause(heavy);
                polls += 1;
                if polls > 20 {
                    break;
                }
                c0 = cnt.get();
                let mut cx = Context::from_waker(&waker);
                let t0 = clock_r.fetch_add(1, Ordering::SeqCst);
                let r = poll_rx(&mut rx, &mut cx, &prov_r);
                let t1 = clock_r.fetch_add(1, Ordering::SeqCst);
                log.push((t0, json!({"k": "inv", "t": name, "op": "poll", "w": j + 1})));
                log.push((t1, json!({"k": "res", "t": name, "r": r})));
                if r == "pending" {
                    parked = true;
                } else {
                    // the result never changes afterwards: one more poll
                    after += 1;
                    if after >= 2 {
                        break;
                    }
                }
            }
            (log, rx)
        }));
    }
    let (slog, tx_left) = s.join().expect("sender thread");
    let mut all: Vec<(u64, Value)> = pre.into_iter().map(|(t, _, v)| (t, v)).collect();
    all.extend(slog);
    let mut keep = Vec::new();
    for h in handles {
        let (l, rx) = h.join().expect("receiver thread");
        all.extend(l);
        keep.push(rx);
    }
    drop(tx_left);
    drop(keep);
    all.sort_by_key(|e| e.0);
    let events: Vec<Value> = all.into_iter().map(|e| e.1).collect();
    json!({ "events": events })
}

// ------------------------------------------------------------------------------------------ driver

/// Like h_common::drive (one JSON case per stdin line, one result line per case, panics are data), with a watchdog: a call
/// of the code under test that does not return (a mutex taken twice) is answered with {"hang": true, "panic": ...} and the
/// process exits with status 3; the caller starts a new process for the remaining cases.  Every result line is flushed.
fn drive_guarded<F: Fn(&Value) -> Value>(f: F) {
    use std::io::{BufRead, Write};
    use std::panic::{catch_unwind, AssertUnwindSafe};
    std::panic::set_hook(Box::new(|_| {}));
    let limit = std::time::Duration::from_secs(std::env::var("HARNESS_HANG_SECS").ok().and_then(|s| s.parse().ok()).unwrap_or(20));
    let cur: Arc<Mutex<Option<(Value, std::time::Instant)>>> = Arc::new(Mutex::new(None));
    let cur_w = cur.clone();
    std::thread::spawn(move || loop {
        std::thread::sleep(std::time::Duration::from_millis(100));
        let g = cur_w.lock().unwrap();
        if let Some((id, t0)) = &*g {
            if t0.elapsed() > limit {
                let v = json!({"id": id, "hang": true, "panic": format!("hang: a call of the code under test did not return within {} s", limit.as_secs())});
                let mut out = std::io::stdout().lock();
                serde_json::to_writer(&mut out, &v).unwrap();
                out.write_all(b"\n").unwrap();
                out.flush().unwrap();
                std::process::exit(3);
            }
        }
    });
    let stdin = std::io::stdin();
    for line in stdin.lock().lines() {
        let line = line.expect("stdin");
        if line.trim().is_empty() {
            continue;
        }
        let case: Value = serde_json::from_str(&line).expect("case json");
        let id = case.get("id").cloned().unwrap_or(Value::Null);
        *cur.lock().unwrap() = Some((id.clone(), std::time::Instant::now()));
        let res = catch_unwind(AssertUnwindSafe(|| f(&case)));
        let mut v = match res {
            Ok(v) => v,
            Err(e) => {
                let msg = if let Some(s) = e.downcast_ref::<String>() {
                    s.clone()
                } else if let Some(s) = e.downcast_ref::<&str>() {
                    s.to_string()
                } else {
                    "panic".to_string()
                };
                json!({ "panic": msg })
            }
        };
        v["id"] = id;
        let mut g = cur.lock().unwrap();
        *g = None;
        let mut out = std::io::stdout().lock();
        serde_json::to_writer(&mut out, &v).unwrap();
        out.write_all(b"\n").unwrap();
        out.flush().unwrap();
        drop(out);
        drop(g);
    }
}

fn main() {
    let args: Vec<String> = std::env::args().collect();
    if args.get(1).map(|s| s.as_str()) == Some("stress") {
        drive_guarded(stress_case);
    } else {
        drive_guarded(run_case);
    }
}

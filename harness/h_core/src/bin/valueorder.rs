//! C19: observation of `swimos_model::Value`'s `PartialEq`, `Ord` and `Hash` on a pool of values.
//!
//! The pool is produced from specs/ValueOrder.tla (TLC enumerates the abstract values, the check
//! module turns every abstract number into its exact decimal / IEEE-754 bit pattern).  This binary
//! only builds the real `Value`s and records what the real implementation answers:
//!
//!   case   {"id", "pool": [descriptor], "ops": [op]}
//!   result {"disp": [..], "kind": [..], "eq": [[bool]], "cmp": [[-1|0|1|9]], "hash": ["hex"], "ops": [..]}
//!
//! descriptor: {"k":"extant"} | {"k":"bool","v":b} | {"k":"text","v":s} | {"k":"data","v":[u8]}
//!           | {"k":"i32"|"i64"|"u32"|"u64"|"bigint"|"biguint","v":"<decimal>"} | {"k":"f64","bits":"<hex u64>"}
//!           | {"k":"record","attrs":[{"name":s,"value":d}],"items":[{"value":d}|{"key":d,"value":d}]}
//! cmp code 9 = the comparison panicked (a panic in the code under test is data).
//!
//! ops (the collections the property statement talks about, run on pool indices chosen by TLC):
//!   {"op":"sort","xs":[i..]}      -> {"panic":bool,"order":[i..]}       slice::sort_by(Value::cmp) as drop_or_take does
//!   {"op":"btree","xs":[i..]}     -> {"panic":bool,"keys":[i..]}        BTreeMap insertion (first index kept per key), iteration order
//!   {"op":"hashmap","xs":[i..]}   -> {"panic":bool,"len":n,"found":[bool..]}  HashMap insertion, then lookup of every xs
use serde_json::{json, Value as J};
use std::cmp::Ordering;
use std::collections::hash_map::DefaultHasher;
use std::collections::{BTreeMap, HashMap};
use std::hash::{Hash, Hasher};
use std::panic::{catch_unwind, AssertUnwindSafe};
use std::str::FromStr;
use swimos_model::{Attr, BigInt, BigUint, Blob, Item, Text, Value};

fn build(d: &J) -> Value {
    let k = d["k"].as_str().expect("descriptor kind");
    let dec = || d["v"].as_str().expect("decimal string");
    match k {
        "extant" => Value::Extant,
        "bool" => Value::BooleanValue(d["v"].as_bool().unwrap()),
        "text" => Value::Text(Text::new(d["v"].as_str().unwrap())),
        "data" => Value::Data(Blob::from_vec(
            d["v"].as_array().unwrap().iter().map(|b| b.as_u64().unwrap() as u8).collect(),
        )),
        "i32" => Value::Int32Value(i32::from_str(dec()).expect("i32")),
        "i64" => Value::Int64Value(i64::from_str(dec()).expect("i64")),
        "u32" => Value::UInt32Value(u32::from_str(dec()).expect("u32")),
        "u64" => Value::UInt64Value(u64::from_str(dec()).expect("u64")),
        "bigint" => Value::BigInt(BigInt::from_str(dec()).expect("bigint")),
        "biguint" => Value::BigUint(BigUint::from_str(dec()).expect("biguint")),
        "f64" => {
            let bits = u64::from_str_radix(d["bits"].as_str().unwrap().trim_start_matches("0x"), 16).expect("bits");
            Value::Float64Value(f64::from_bits(bits))
        }
        "record" => {
            let attrs = d["attrs"]
                .as_array()
                .map(|a| a.iter().map(|x| Attr::of((x["name"].as_str().unwrap(), build(&x["value"])))).collect())
                .unwrap_or_default();
            let items = d["items"]
                .as_array()
                .map(|a| {
                    a.iter()
                        .map(|x| {
                            if x.get("key").is_some() {
                                Item::Slot(build(&x["key"]), build(&x["value"]))
                            } else {
                                Item::ValueItem(build(&x["value"]))
                            }
                        })
                        .collect()
                })
                .unwrap_or_default();
            Value::Record(attrs, items)
        }
        ow => panic!("unknown descriptor kind {}", ow),
    }
}

fn hash_of(v: &Value) -> String {
    let mut h = DefaultHasher::new();
    v.hash(&mut h);
    format!("{:016x}", h.finish())
}

fn ord_code(o: Ordering) -> i64 {
    match o {
        Ordering::Less => -1,
        Ordering::Equal => 0,
        Ordering::Greater => 1,
    }
}

fn idxs(op: &J) -> Vec<usize> {
    op["xs"].as_array().unwrap().iter().map(|x| x.as_u64().unwrap() as usize).collect()
}

/// A key that remembers which pool element it is; all trait impls delegate to the real `Value`.
#[derive(Clone)]
struct Key(usize, Value);
impl PartialEq for Key {
    fn eq(&self, o: &Self) -> bool {
        self.1 == o.1
    }
}
impl Eq for Key {}
impl PartialOrd for Key {
    fn partial_cmp(&self, o: &Self) -> Option<Ordering> {
        Some(self.cmp(o))
    }
}
impl Ord for Key {
    fn cmp(&self, o: &Self) -> Ordering {
        self.1.cmp(&o.1)
    }
}
impl Hash for Key {
    fn hash<H: Hasher>(&self, h: &mut H) {
        self.1.hash(h)
    }
}

fn run_op(op: &J, pool: &[Value]) -> J {
    let xs = idxs(op);
    match op["op"].as_str().unwrap() {
        "sort" => {
            let r = catch_unwind(AssertUnwindSafe(|| {
                let mut v: Vec<(Value, usize)> = xs.iter().map(|i| (pool[*i].clone(), *i)).collect();
                // exactly what swimos_agent::map_storage::drop_or_take does with the keys
                v.sort_by(|(k1, _), (k2, _)| k1.cmp(k2));
                v.into_iter().map(|(_, i)| i).collect::<Vec<_>>()
            }));
            match r {
                Ok(order) => json!({"panic": false, "order": order}),
                Err(_) => json!({"panic": true, "order": []}),
            }
        }
        "btree" => {
            let r = catch_unwind(AssertUnwindSafe(|| {
                let mut m: BTreeMap<Key, usize> = BTreeMap::new();
                for i in &xs {
                    m.entry(Key(*i, pool[*i].clone())).or_insert(*i);
                }
                m.keys().map(|k| k.0).collect::<Vec<_>>()
            }));
            match r {
                Ok(keys) => json!({"panic": false, "keys": keys}),
                Err(_) => json!({"panic": true, "keys": []}),
            }
        }
        "hashmap" => {
            let r = catch_unwind(AssertUnwindSafe(|| {
                let mut m: HashMap<Key, usize> = HashMap::new();
                for i in &xs {
                    m.entry(Key(*i, pool[*i].clone())).or_insert(*i);
                }
                let found: Vec<bool> = xs.iter().map(|i| m.contains_key(&Key(*i, pool[*i].clone()))).collect();
                (m.len(), found)
            }));
            match r {
                Ok((len, found)) => json!({"panic": false, "len": len, "found": found}),
                Err(_) => json!({"panic": true, "len": 0, "found": []}),
            }
        }
        ow => panic!("unknown op {}", ow),
    }
}

fn run_case(case: &J) -> J {
    let pool: Vec<Value> = case["pool"].as_array().unwrap().iter().map(build).collect();
    let n = pool.len();
    let mut eq = Vec::with_capacity(n);
    let mut cmp = Vec::with_capacity(n);
    for a in &pool {
        let mut er = Vec::with_capacity(n);
        let mut cr = Vec::with_capacity(n);
        for b in &pool {
            er.push(match catch_unwind(AssertUnwindSafe(|| a == b)) {
                Ok(x) => json!(x),
                Err(_) => json!("panic"),
            });
            cr.push(match catch_unwind(AssertUnwindSafe(|| a.cmp(b))) {
                Ok(o) => ord_code(o),
                Err(_) => 9,
            });
        }
        eq.push(er);
        cmp.push(cr);
    }
    let hash: Vec<String> = pool.iter().map(hash_of).collect();
    let disp: Vec<String> = pool
        .iter()
        .map(|v| catch_unwind(AssertUnwindSafe(|| format!("{}", v))).unwrap_or_else(|_| format!("{:?}", v)))
        .collect();
    let kind: Vec<String> = pool.iter().map(|v| format!("{:?}", v.kind())).collect();
    let ops: Vec<J> = case["ops"].as_array().map(|o| o.iter().map(|op| run_op(op, &pool)).collect()).unwrap_or_default();
    json!({"n": n, "eq": eq, "cmp": cmp, "hash": hash, "disp": disp, "kind": kind, "ops": ops})
}

fn main() {
    h_common::drive(run_case);
}

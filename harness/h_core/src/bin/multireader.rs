//! Replays call sequences generated from specs/MultiReader.tla on the real
//! swimos_multi_reader::MultiReader, polling by hand with a counting waker (no runtime): one
//! poll_next call is one atomic step, so a replayed path is an exact schedule.
//!
//! Sources are scripted streams: `push` makes the next item (source id, sequence number)
//! available, `close` ends the source; both invoke the waker the reader handed to the source on
//! its last Pending poll (once).  `pad` idle sources that never produce anything are attached
//! first, so that the active sources sit at slab keys pad, pad+1, ... (around / beyond the
//! 64-key bucket boundary).
use futures::Stream;
use h_common::count_waker;
use serde_json::{json, Value};
use std::cell::RefCell;
use std::collections::VecDeque;
use std::pin::Pin;
use std::rc::Rc;
use std::task::{Context, Poll, Waker};
use swimos_multi_reader::MultiReader;

#[derive(Default)]
struct Src {
    queue: VecDeque<(u64, u64)>,
    closed: bool,
    waker: Option<Waker>,
    sent: u64,
}

struct Scripted(Rc<RefCell<Src>>);

impl Stream for Scripted {
    type Item = (u64, u64);
    fn poll_next(self: Pin<&mut Self>, cx: &mut Context<'_>) -> Poll<Option<Self::Item>> {
        let mut s = self.0.borrow_mut();
        if let Some(it) = s.queue.pop_front() {
            Poll::Ready(Some(it))
        } else if s.closed {
            Poll::Ready(None)
        } else {
            s.waker = Some(cx.waker().clone());
            Poll::Pending
        }
    }
}

fn fire(src: &Rc<RefCell<Src>>) {
    let w = src.borrow_mut().waker.take();
    if let Some(w) = w {
        w.wake();
    }
}

pub fn run_case(case: &Value) -> Value {
    let pad = case["cfg"]["pad"].as_u64().unwrap_or(0) as usize;
    let n = case["cfg"]["n"].as_u64().unwrap() as usize;
    let drain = case["cfg"]["drain"].as_bool().unwrap_or(true);
    let acts = case["acts"].as_array().unwrap();
    let mut reader: MultiReader<Scripted> = MultiReader::new();
    let mut idle_srcs = Vec::new();
    for _ in 0..pad {
        let s = Rc::new(RefCell::new(Src::default()));
        reader.add(Scripted(s.clone()));
        idle_srcs.push(s);
    }
    let srcs: Vec<Rc<RefCell<Src>>> = (0..=n).map(|_| Rc::new(RefCell::new(Src::default()))).collect();
    let mut added = vec![false; n + 1];
    let (cnt, waker) = count_waker();
    let mut obs: Vec<Value> = Vec::with_capacity(acts.len());

    let poll_once = |reader: &mut MultiReader<Scripted>| -> Value {
        let w0 = cnt.get();
        let mut cx = Context::from_waker(&waker);
        let r = Pin::new(reader).poll_next(&mut cx);
        let wake = cnt.get() > w0;
        match r {
            Poll::Ready(Some((s, j))) => json!({"r": "item", "src": s, "n": j, "wake": wake}),
            Poll::Ready(None) => json!({"r": "done", "wake": wake}),
            Poll::Pending => json!({"r": "pending", "wake": wake}),
        }
    };

    for a in acts {
        let k = a["k"].as_str().unwrap();
        let s = a["s"].as_u64().unwrap_or(0) as usize;
        let w0 = cnt.get();
        let o = match k {
            "add" => {
                assert!(!added[s], "script adds source {} twice", s);
                added[s] = true;
                reader.add(Scripted(srcs[s].clone()));
                json!({"wake": cnt.get() > w0})
            }
            "push" => {
                {
                    let mut b = srcs[s].borrow_mut();
                    b.sent += 1;
                    let j = b.sent;
                    b.queue.push_back((s as u64, j));
                }
                fire(&srcs[s]);
                json!({"wake": cnt.get() > w0})
            }
            "close" => {
                srcs[s].borrow_mut().closed = true;
                fire(&srcs[s]);
                json!({"wake": cnt.get() > w0})
            }
            "poll" => poll_once(&mut reader),
            other => panic!("bad action {}", other),
        };
        obs.push(o);
    }
    // Drain: keep polling as a well-behaved task would (again whenever it was woken or got an item).
    let mut tail = Vec::new();
    if drain {
        let total: u64 = srcs.iter().map(|s| s.borrow().sent).sum();
        let budget = total as usize + 2 * (n + pad) + 8;
        for _ in 0..budget {
            let o = poll_once(&mut reader);
            let stop = o["r"] == "done" || (o["r"] == "pending" && o["wake"] == false);
            tail.push(o);
            if stop {
                break;
            }
        }
    }
    json!({ "obs": obs, "drain": tail })
}

fn main() {
    h_common::drive(run_case);
}

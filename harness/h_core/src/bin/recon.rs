//! C09 harness: Recon printers / one-shot parser / incremental decoders of swimos_recon.
//!
//! Cases are generated from the TLA+ data model specs/Recon.tla (abstract values, typed shapes,
//! token sequences) and from specs/ReconChunk.tla (cut plans).  This binary concretises the
//! abstract symbols from boundary pools, runs the real printers / parser / decoders and records
//! one observation row per case (ids of inputs and outputs, equality bits, per-plan results).
//! The laws are evaluated by TLC over these rows (specs/MC_Recon.tla); nothing is judged here.
//!
//! One JSON case per stdin line, one JSON row per stdout line.  Every case runs on its own
//! thread with a large stack and a wall-clock budget: a panic or a hang is data, not a crash.
use bytes::{BufMut, BytesMut};
use serde_json::{json, Map, Value as J};
use std::collections::{BTreeMap, HashMap};
use std::fmt::{Debug, Write as _};
use std::hash::{Hash, Hasher};
use std::io::{BufRead, Write};
use std::pin::Pin;
use std::sync::mpsc;
use std::task::{Context, Poll};
use std::time::Duration;
use swimos_form::read::RecognizerReadable;
use swimos_form::write::StructuralWritable;
use swimos_form::{Form, Tag};
use swimos_model::{Attr, BigInt, BigUint, Blob, Item, Text, Value};
use swimos_recon::parser::{parse_recognize, parse_recon_document, RecognizerDecoder};
use swimos_recon::{print_recon, print_recon_compact, print_recon_pretty, WithLenRecognizerDecoder};
use tokio::io::{AsyncRead, ReadBuf};
use tokio_util::codec::Decoder;

// ------------------------------------------------------------------------------------------------
// boundary pools

fn pool_int() -> Vec<Value> {
    let two100: BigUint = BigUint::from(1u8) << 100;
    vec![
        Value::Int32Value(0),
        Value::Int32Value(-1),
        Value::Int32Value(i32::MAX),
        Value::Int32Value(i32::MIN),
        Value::Int64Value(i32::MAX as i64 + 1),
        Value::Int64Value(i32::MIN as i64 - 1),
        Value::Int64Value(i64::MAX),
        Value::Int64Value(i64::MIN),
        Value::UInt64Value(i64::MAX as u64 + 1),
        Value::UInt64Value(u64::MAX),
        Value::BigInt(BigInt::from(i64::MIN) - 1),
        Value::BigUint(BigUint::from(u64::MAX) + 1u8),
        Value::BigInt(-BigInt::from(two100.clone())),
        Value::BigUint(two100),
        Value::Int32Value(42),
        Value::Int64Value(u32::MAX as i64),
    ]
}

/// Integer values whose *kind* is not the one the parser would choose for that magnitude.
fn pool_oddint() -> Vec<Value> {
    vec![
        Value::Int64Value(1),
        Value::UInt32Value(5),
        Value::UInt64Value(7),
        Value::BigInt(BigInt::from(-3)),
        Value::BigUint(BigUint::from(3u8)),
        Value::UInt32Value(u32::MAX),
        Value::Int64Value(-1),
        Value::BigInt(BigInt::from(u64::MAX)),
    ]
}

fn pool_float() -> Vec<f64> {
    vec![
        0.0,
        -0.0,
        1.0,
        -1.5,
        0.1,
        f64::MAX,
        f64::MIN_POSITIVE,
        5e-324,
        1e21,
        1e-7,
        123456789.12345679,
        -f64::MAX,
        9007199254740992.0,
        1e16,
        f64::EPSILON,
        1e300,
        -2.2250738585072011e-308,
        3.0e-5,
    ]
}

fn pool_nonfinite() -> Vec<f64> {
    vec![f64::NAN, f64::INFINITY, f64::NEG_INFINITY]
}

fn pool_ident() -> Vec<&'static str> {
    vec!["a", "name", "_x", "a-b", "a1", "\u{2135}", "caf\u{e9}", "\u{10000}", "T", "x_y-z9", "\u{b7}", "e5", "inf", "NaN", "truely", "\u{3042}\u{3044}"]
}

fn pool_qtext() -> Vec<String> {
    let mut v: Vec<String> = [
        "true", "false", "", "1a", "-", "a b", "0x1", "-a", "a.b", "@a", "a:b", "a,b", "{", "}", "(", ")", "%", "%AAAA",
        "#c", "\"", "\\", "\n", "\t", "\r", "\u{8}", "\u{c}", "\u{0}", "\u{1f}", "\u{7f}", "\u{80}", "\u{a0}", "\u{1F600}",
        "\u{2028}", "\\u0041", "a\"b", "\\\\", " ", " a", "a ", "1", "-1", "1.5", "a\u{1F600}b", "\u{feff}", "\u{d7}",
        "\\n", "\"\"", "a\\", "\u{fffe}", "\u{e000}", ";", "a;b", "\r\n", "'", "a'b", "\\\"",
    ]
    .iter()
    .map(|s| s.to_string())
    .collect();
    v.push("long ".repeat(60));
    v.push("\u{1F600}\u{e9}\u{2135}".repeat(20));
    v
}

fn pool_blob() -> Vec<Vec<u8>> {
    vec![
        vec![],
        vec![0],
        vec![255],
        vec![0, 1],
        vec![1, 2, 3],
        (0..=255u8).collect(),
        b"hello".to_vec(),
        vec![0xfb, 0xff, 0xbe],
        vec![0xff; 4],
        vec![0; 7],
    ]
}

fn pool_name_ident() -> Vec<&'static str> {
    vec!["a", "tag", "_n", "\u{2135}", "name-1", "B", "update", "\u{10000}x"]
}

fn pool_name_other() -> Vec<&'static str> {
    vec!["a b", "", "1", "true", "@", "a(b", "\"", "multi\nline", "\u{1F600}", "false", "a)", "-x", "a:b", "\\", " "]
}

struct Concretiser {
    salt: usize,
    counter: usize,
}

impl Concretiser {
    fn pick<T: Clone>(&mut self, pool: &[T]) -> T {
        let i = (self.salt + self.counter * 5) % pool.len();
        self.counter += 1;
        pool[i].clone()
    }

    fn leaf(&mut self, class: &str) -> Value {
        match class {
            "X" => Value::Extant,
            "B" => {
                let b = (self.salt + self.counter) % 2 == 0;
                self.counter += 1;
                Value::BooleanValue(b)
            }
            "I" => self.pick(&pool_int()),
            "O" => self.pick(&pool_oddint()),
            "F" => Value::Float64Value(self.pick(&pool_float())),
            "Z" => Value::Float64Value(self.pick(&pool_nonfinite())),
            "T" => Value::Text(Text::new(self.pick(&pool_ident()))),
            "Q" => Value::Text(Text::new(&self.pick(&pool_qtext()))),
            "D" => Value::Data(Blob::from_vec(self.pick(&pool_blob()))),
            // "N": any number-like scalar, "S": any text
            "N" => {
                let k = (self.salt + self.counter) % 4;
                match k {
                    0 => self.leaf("I"),
                    1 => self.leaf("F"),
                    2 => self.leaf("B"),
                    _ => self.leaf("D"),
                }
            }
            "S" => {
                if (self.salt + self.counter) % 3 == 0 {
                    self.leaf("T")
                } else {
                    self.leaf("Q")
                }
            }
            other => panic!("HARNESS: unknown leaf class {}", other),
        }
    }

    fn name(&mut self, class: &str) -> Text {
        match class {
            "n" => Text::new(self.pick(&pool_name_ident())),
            "q" => Text::new(self.pick(&pool_name_other())),
            other => panic!("HARNESS: unknown name class {}", other),
        }
    }

    /// abstract value (from TLC): {"t":"leaf","c":class} | {"t":"rec","attrs":[{"n":cls,"v":val}],"items":[{"v":val}|{"k":val,"v":val}]}
    /// | {"t":"chain","via":"item|attr|sval|skey|only","depth":d,"leaf":val}
    fn value(&mut self, a: &J) -> Value {
        match a["t"].as_str().unwrap_or("?") {
            "leaf" => self.leaf(a["c"].as_str().unwrap()),
            "rec" => {
                let mut attrs = vec![];
                for at in a["attrs"].as_array().map(|v| v.as_slice()).unwrap_or(&[]) {
                    let n = self.name(at["n"].as_str().unwrap());
                    let v = self.value(&at["v"]);
                    attrs.push(Attr { name: n, value: v });
                }
                let mut items = vec![];
                for it in a["items"].as_array().map(|v| v.as_slice()).unwrap_or(&[]) {
                    if it.get("k").is_some() {
                        let k = self.value(&it["k"]);
                        let v = self.value(&it["v"]);
                        items.push(Item::Slot(k, v));
                    } else {
                        items.push(Item::ValueItem(self.value(&it["v"])));
                    }
                }
                Value::Record(attrs, items)
            }
            "chain" => {
                let d = a["depth"].as_u64().unwrap() as usize;
                let via = a["via"].as_str().unwrap();
                let mut v = self.value(&a["leaf"]);
                for level in 0..d {
                    v = match via {
                        "item" => Value::Record(vec![], vec![Item::ValueItem(v)]),
                        "only" => Value::Record(vec![], vec![Item::ValueItem(Value::Record(vec![], vec![Item::ValueItem(v)]))]),
                        "attr" => Value::Record(vec![Attr { name: Text::new("a"), value: v }], vec![]),
                        "attri" => Value::Record(vec![Attr { name: Text::new("a"), value: Value::Extant }], vec![Item::ValueItem(v)]),
                        "sval" => Value::Record(vec![], vec![Item::Slot(Value::Int32Value(level as i32), v)]),
                        "skey" => Value::Record(vec![], vec![Item::Slot(v, Value::Int32Value(level as i32))]),
                        "mixed" => match level % 4 {
                            0 => Value::Record(vec![], vec![Item::ValueItem(v)]),
                            1 => Value::Record(vec![Attr { name: Text::new("m"), value: v }], vec![]),
                            2 => Value::Record(vec![], vec![Item::Slot(Value::text("k"), v)]),
                            _ => Value::Record(vec![Attr { name: Text::new("h"), value: Value::Extant }], vec![Item::ValueItem(v), Item::ValueItem(Value::Int32Value(1))]),
                        },
                        other => panic!("HARNESS: unknown chain kind {}", other),
                    };
                }
                v
            }
            other => panic!("HARNESS: unknown abstract value tag {}", other),
        }
    }
}

// ------------------------------------------------------------------------------------------------
// canonical form of a model value (exact: kinds, float bits, order)

fn canon(v: &Value, out: &mut String) {
    match v {
        Value::Extant => out.push('E'),
        Value::Int32Value(n) => write!(out, "i32:{}", n).unwrap(),
        Value::Int64Value(n) => write!(out, "i64:{}", n).unwrap(),
        Value::UInt32Value(n) => write!(out, "u32:{}", n).unwrap(),
        Value::UInt64Value(n) => write!(out, "u64:{}", n).unwrap(),
        Value::Float64Value(x) => write!(out, "f64:{:016x}", x.to_bits()).unwrap(),
        Value::BooleanValue(b) => write!(out, "b:{}", b).unwrap(),
        Value::BigInt(n) => write!(out, "bi:{}", n).unwrap(),
        Value::BigUint(n) => write!(out, "bu:{}", n).unwrap(),
        Value::Text(t) => write!(out, "t:{}", serde_json::to_string(t.as_str()).unwrap()).unwrap(),
        Value::Data(b) => {
            out.push_str("d:");
            for x in b.as_ref() {
                write!(out, "{:02x}", x).unwrap();
            }
        }
        Value::Record(attrs, items) => {
            out.push_str("R[");
            for a in attrs {
                write!(out, "@{}=", serde_json::to_string(a.name.as_str()).unwrap()).unwrap();
                canon(&a.value, out);
                out.push(';');
            }
            out.push_str("]{");
            for it in items {
                match it {
                    Item::ValueItem(v) => canon(v, out),
                    Item::Slot(k, v) => {
                        out.push('(');
                        canon(k, out);
                        out.push_str(")=>(");
                        canon(v, out);
                        out.push(')');
                    }
                }
                out.push(',');
            }
            out.push('}');
        }
    }
}

/// concrete value <-> JSON (used by replays, minimisation and samples)
fn to_cv(v: &Value) -> J {
    match v {
        Value::Extant => json!({"x": 0}),
        Value::Int32Value(n) => json!({"i32": n}),
        Value::Int64Value(n) => json!({"i64": n.to_string()}),
        Value::UInt32Value(n) => json!({"u32": n}),
        Value::UInt64Value(n) => json!({"u64": n.to_string()}),
        Value::Float64Value(x) => json!({"f64": format!("{:016x}", x.to_bits())}),
        Value::BooleanValue(b) => json!({"b": b}),
        Value::BigInt(n) => json!({"bi": n.to_string()}),
        Value::BigUint(n) => json!({"bu": n.to_string()}),
        Value::Text(t) => json!({"t": t.as_str()}),
        Value::Data(b) => json!({"d": b.as_ref().iter().map(|x| format!("{:02x}", x)).collect::<String>()}),
        Value::Record(attrs, items) => {
            let a: Vec<J> = attrs.iter().map(|a| json!([a.name.as_str(), to_cv(&a.value)])).collect();
            let i: Vec<J> = items
                .iter()
                .map(|it| match it {
                    Item::ValueItem(v) => to_cv(v),
                    Item::Slot(k, v) => json!({"s": [to_cv(k), to_cv(v)]}),
                })
                .collect();
            json!({"r": [a, i]})
        }
    }
}

fn from_cv(j: &J) -> Value {
    let o = j.as_object().expect("HARNESS: cv object");
    let (k, v) = o.iter().next().expect("HARNESS: cv empty");
    match k.as_str() {
        "x" => Value::Extant,
        "i32" => Value::Int32Value(v.as_i64().unwrap() as i32),
        "i64" => Value::Int64Value(v.as_str().unwrap().parse().unwrap()),
        "u32" => Value::UInt32Value(v.as_u64().unwrap() as u32),
        "u64" => Value::UInt64Value(v.as_str().unwrap().parse().unwrap()),
        "f64" => Value::Float64Value(f64::from_bits(u64::from_str_radix(v.as_str().unwrap(), 16).unwrap())),
        "b" => Value::BooleanValue(v.as_bool().unwrap()),
        "bi" => Value::BigInt(v.as_str().unwrap().parse().unwrap()),
        "bu" => Value::BigUint(v.as_str().unwrap().parse().unwrap()),
        "t" => Value::Text(Text::new(v.as_str().unwrap())),
        "d" => Value::Data(Blob::from_vec(hex_bytes(v.as_str().unwrap()))),
        "r" => {
            let attrs = v[0].as_array().unwrap().iter().map(|a| Attr { name: Text::new(a[0].as_str().unwrap()), value: from_cv(&a[1]) }).collect();
            let items = v[1]
                .as_array()
                .unwrap()
                .iter()
                .map(|it| {
                    if let Some(s) = it.get("s") {
                        Item::Slot(from_cv(&s[0]), from_cv(&s[1]))
                    } else {
                        Item::ValueItem(from_cv(it))
                    }
                })
                .collect();
            Value::Record(attrs, items)
        }
        other => panic!("HARNESS: unknown cv tag {}", other),
    }
}

/// Reference rendering, independent of the printers under test: fully explicit Recon (every record
/// braced, every text quoted, every attribute body parenthesised).  It is only used as a *witness*:
/// if the real parser maps ref_text(v) to exactly v, then v is a value the parser can produce.
fn ref_text(v: &Value, out: &mut String) {
    match v {
        Value::Extant => {}
        Value::Int32Value(n) => write!(out, "{}", n).unwrap(),
        Value::Int64Value(n) => write!(out, "{}", n).unwrap(),
        Value::UInt32Value(n) => write!(out, "{}", n).unwrap(),
        Value::UInt64Value(n) => write!(out, "{}", n).unwrap(),
        Value::Float64Value(x) => {
            let s = format!("{:?}", x);
            out.push_str(&s);
        }
        Value::BooleanValue(b) => write!(out, "{}", b).unwrap(),
        Value::BigInt(n) => write!(out, "{}", n).unwrap(),
        Value::BigUint(n) => write!(out, "{}", n).unwrap(),
        Value::Text(t) => ref_string(t.as_str(), out),
        Value::Data(b) => {
            out.push('%');
            b64(b.as_ref(), out);
        }
        Value::Record(attrs, items) => {
            for a in attrs {
                out.push('@');
                ref_string(a.name.as_str(), out);
                match &a.value {
                    Value::Extant => {}
                    Value::Record(at, its) if at.is_empty() && (its.len() >= 2 || matches!(its.as_slice(), [Item::Slot(_, _)])) => {
                        out.push('(');
                        ref_items(its, out);
                        out.push(')');
                    }
                    other => {
                        out.push('(');
                        ref_text(other, out);
                        out.push(')');
                    }
                }
            }
            out.push('{');
            ref_items(items, out);
            out.push('}');
        }
    }
}

fn b64(data: &[u8], out: &mut String) {
    const A: &[u8; 64] = b"ABCDEFGHIJKLMNOPQRSTUVWXYZabcdefghijklmnopqrstuvwxyz0123456789+/";
    for ch in data.chunks(3) {
        let n = (ch[0] as u32) << 16 | (*ch.get(1).unwrap_or(&0) as u32) << 8 | *ch.get(2).unwrap_or(&0) as u32;
        out.push(A[(n >> 18) as usize & 63] as char);
        out.push(A[(n >> 12) as usize & 63] as char);
        out.push(if ch.len() > 1 { A[(n >> 6) as usize & 63] as char } else { '=' });
        out.push(if ch.len() > 2 { A[n as usize & 63] as char } else { '=' });
    }
}

fn ref_items(items: &[Item], out: &mut String) {
    for (i, it) in items.iter().enumerate() {
        if i > 0 {
            out.push(',');
        }
        match it {
            Item::ValueItem(v) => ref_text(v, out),
            Item::Slot(k, v) => {
                ref_text(k, out);
                out.push(':');
                ref_text(v, out);
            }
        }
    }
}

fn ref_string(s: &str, out: &mut String) {
    out.push('"');
    for c in s.chars() {
        match c {
            '"' => out.push_str("\\\""),
            '\\' => out.push_str("\\\\"),
            '\n' => out.push_str("\\n"),
            '\r' => out.push_str("\\r"),
            '\t' => out.push_str("\\t"),
            c if (c as u32) < 0x20 => write!(out, "\\u{:04x}", c as u32).unwrap(),
            c => out.push(c),
        }
    }
    out.push('"');
}

fn canon_s(v: &Value) -> String {
    let mut s = String::new();
    canon(v, &mut s);
    s
}

fn hid(s: &str) -> String {
    #[allow(deprecated)]
    let mut h = std::hash::SipHasher::new_with_keys(0x5eed, 0xc09);
    s.hash(&mut h);
    format!("{:016x}", h.finish())
}

#[derive(Default)]
struct Facts {
    nonfinite: bool,
    depth: usize,
    nodes: usize,
    records: usize,
    /// shapes named by the signatures in known_findings/C09.json
    feat: std::collections::BTreeSet<&'static str>,
}

/// Independent of swimos_model::identifier (which is code under test): the documented identifier
/// grammar (XML name characters plus '-' and digits after the first character, not a keyword).
fn plain_name(name: &str) -> bool {
    fn start(c: char) -> bool {
        let u = c as u32;
        c.is_ascii_alphabetic()
            || c == '_'
            || u == 0xb7
            || (0xc0..=0xd6).contains(&u)
            || (0xd8..=0xf6).contains(&u)
            || (0xf8..=0x37d).contains(&u)
            || (0x37f..=0x1fff).contains(&u)
            || (0x200c..=0x200d).contains(&u)
            || (0x203f..=0x2040).contains(&u)
            || (0x2070..=0x218f).contains(&u)
            || (0x2c00..=0x2fef).contains(&u)
            || (0x3001..=0xd7ff).contains(&u)
            || (0xf900..=0xfdcf).contains(&u)
            || (0xfdf0..=0xfffd).contains(&u)
            || (0x10000..=0xeffff).contains(&u)
    }
    if name == "true" || name == "false" {
        return false;
    }
    let mut cs = name.chars();
    match cs.next() {
        Some(c) if start(c) => cs.all(|c| start(c) || c == '-' || c.is_ascii_digit()),
        _ => false,
    }
}

fn facts(v: &Value, d: usize, f: &mut Facts) {
    f.nodes += 1;
    f.depth = f.depth.max(d);
    match v {
        Value::Float64Value(x) if !x.is_finite() => f.nonfinite = true,
        Value::Record(attrs, items) => {
            f.records += 1;
            if !attrs.is_empty() && matches!(items.as_slice(), [Item::ValueItem(Value::Record(_, _))]) {
                f.feat.insert("solo_rec_item");
            }
            if matches!(items.as_slice(), [Item::ValueItem(Value::Extant)]) {
                f.feat.insert("solo_extant_item");
            }
            for a in attrs {
                if !plain_name(a.name.as_str()) {
                    f.feat.insert("odd_attr");
                }
                if let Value::Record(at, its) = &a.value {
                    if !at.is_empty() && matches!(its.as_slice(), [Item::Slot(_, _)]) {
                        f.feat.insert("attr_body_solo_slot");
                    }
                }
                facts(&a.value, d + 1, f);
            }
            for it in items {
                match it {
                    Item::ValueItem(v) => facts(v, d + 1, f),
                    Item::Slot(k, v) => {
                        if let Value::Record(at, its) = k {
                            if !at.is_empty() && its.is_empty() {
                                f.feat.insert("attrs_only_key");
                            }
                        }
                        facts(k, d + 1, f);
                        facts(v, d + 1, f);
                    }
                }
            }
        }
        _ => {}
    }
}

fn feat_json(f: &Facts) -> J {
    J::Array(f.feat.iter().map(|s| json!(s)).collect())
}

// ------------------------------------------------------------------------------------------------
// the operations under test

const PRINTERS: [&str; 3] = ["standard", "compact", "pretty"];

fn print_with<T: StructuralWritable>(p: usize, v: &T) -> String {
    match p {
        0 => format!("{}", print_recon(v)),
        1 => format!("{}", print_recon_compact(v)),
        _ => format!("{}", print_recon_pretty(v)),
    }
}

fn one_shot(text: &str) -> Result<Value, String> {
    parse_recognize::<Value>(text, false).map_err(|e| format!("{:?}", e))
}

fn res_id(r: &Result<Value, String>) -> String {
    match r {
        Ok(v) => hid(&canon_s(v)),
        Err(_) => "err".to_string(),
    }
}

fn res_id_t<T: Debug>(r: &Result<T, String>) -> String {
    match r {
        Ok(v) => hid(&format!("{:?}", v)),
        Err(_) => "err".to_string(),
    }
}

/// chunks from cut offsets (strictly increasing, within 1..len-1)
fn chunks<'a>(bytes: &'a [u8], cuts: &[usize]) -> Vec<&'a [u8]> {
    let mut out = vec![];
    let mut prev = 0;
    for &c in cuts {
        let c = c.min(bytes.len());
        if c > prev {
            out.push(&bytes[prev..c]);
            prev = c;
        }
    }
    out.push(&bytes[prev..]);
    out
}

#[derive(Debug, Clone)]
struct Call {
    avail: usize,
    consumed: usize,
    out: &'static str,
}

const MAX_CALLS: usize = 100_000;

/// RecognizerDecoder driven the way `consume_bounded` drives it: `decode` while the frame is
/// incomplete, `decode_eof` once its last byte has arrived.
fn run_rd<R: swimos_form::read::Recognizer>(
    rec: R,
    bytes: &[u8],
    cuts: &[usize],
    calls: &mut Vec<Call>,
) -> Result<R::Target, String> {
    let mut dec = RecognizerDecoder::new(rec);
    let mut buf = BytesMut::new();
    let parts = chunks(bytes, cuts);
    let n = parts.len();
    for (i, part) in parts.into_iter().enumerate() {
        buf.put_slice(part);
        let before = buf.len();
        let last = i + 1 == n;
        let r = if last { dec.decode_eof(&mut buf) } else { dec.decode(&mut buf) };
        let consumed = before - buf.len();
        match r {
            Ok(Some(v)) => {
                calls.push(Call { avail: before, consumed, out: "some" });
                return Ok(v);
            }
            Ok(None) => {
                calls.push(Call { avail: before, consumed, out: "none" });
                if last {
                    return Err("NoValueAtEof".to_string());
                }
            }
            Err(e) => {
                calls.push(Call { avail: before, consumed, out: "err" });
                return Err(format!("{:?}", e));
            }
        }
        if calls.len() > MAX_CALLS {
            return Err("HANG: call budget exceeded".to_string());
        }
    }
    Err("NoValueAtEof".to_string())
}

/// WithLenRecognizerDecoder fed <u64 len><body><sentinel>, the frame cut at the given body
/// offsets (+8); additionally `hdr_cut` (0..8) cuts inside the length prefix.  Returns the
/// result and the number of bytes left in the buffer after the result was delivered (must be
/// exactly the sentinel: the decoder may not read past its frame nor leave frame bytes behind).
fn run_withlen<R: swimos_form::read::Recognizer>(
    rec: R,
    bytes: &[u8],
    cuts: &[usize],
    hdr_cut: usize,
    sentinel: bool,
    calls: &mut Vec<Call>,
) -> (Result<R::Target, String>, usize) {
    // the first bytes of the next frame arrive with the last piece (sentinel) - or the stream pauses
    // exactly at the end of the frame (no sentinel); `left` is reported relative to the expected rest
    const SENTINEL_BYTES: &[u8] = b"\x00\x00\x00\x00\x00\x00\x00\x01Z";
    let SENTINEL: &[u8] = if sentinel { SENTINEL_BYTES } else { b"" };
    let pad = if sentinel { 0 } else { 9 };
    let mut frame = Vec::with_capacity(bytes.len() + 8);
    frame.extend_from_slice(&(bytes.len() as u64).to_be_bytes());
    frame.extend_from_slice(bytes);
    let mut all_cuts: Vec<usize> = vec![];
    if hdr_cut > 0 && hdr_cut <= 8 {
        all_cuts.push(hdr_cut);
    }
    for c in cuts {
        all_cuts.push(c + 8);
    }
    let mut dec = WithLenRecognizerDecoder::new(rec);
    let mut buf = BytesMut::new();
    let parts = chunks(&frame, &all_cuts);
    let n = parts.len();
    for (i, part) in parts.into_iter().enumerate() {
        buf.put_slice(part);
        let last = i + 1 == n;
        if last {
            buf.put_slice(SENTINEL);
        }
        let before = buf.len();
        let r = dec.decode(&mut buf);
        let consumed = before - buf.len();
        match r {
            Ok(Some(v)) => {
                calls.push(Call { avail: before, consumed, out: "some" });
                let left = buf.len() + pad + if last { 0 } else { usize::MAX / 2 };
                return (Ok(v), left);
            }
            Ok(None) => {
                calls.push(Call { avail: before, consumed, out: "none" });
            }
            Err(e) => {
                calls.push(Call { avail: before, consumed, out: "err" });
                let left = buf.len() + pad + if last { 0 } else { usize::MAX / 2 };
                return (Err(format!("{:?}", e)), left);
            }
        }
    }
    (Err("NoValueAtEof".to_string()), buf.len() + pad)
}

/// The same frame twice through ONE decoder (the first cut as planned, the second arriving with the
/// last piece of the first): the decoder must reset itself and stay aligned.  Returns both results
/// and what is left in the buffer (must be nothing).
fn run_withlen_two<R: swimos_form::read::Recognizer>(rec: R, bytes: &[u8], cuts: &[usize]) -> (Vec<Result<R::Target, String>>, usize) {
    let mut frame = Vec::with_capacity(bytes.len() + 8);
    frame.extend_from_slice(&(bytes.len() as u64).to_be_bytes());
    frame.extend_from_slice(bytes);
    let all_cuts: Vec<usize> = cuts.iter().map(|c| c + 8).collect();
    let mut dec = WithLenRecognizerDecoder::new(rec);
    let mut buf = BytesMut::new();
    let parts = chunks(&frame, &all_cuts);
    let n = parts.len();
    let mut results = vec![];
    for (i, part) in parts.into_iter().enumerate() {
        buf.put_slice(part);
        if i + 1 == n {
            buf.put_slice(&frame);
        }
        match dec.decode(&mut buf) {
            Ok(Some(v)) => results.push(Ok(v)),
            Ok(None) => {}
            Err(e) => results.push(Err(format!("{:?}", e))),
        }
    }
    for _ in 0..4 {
        if results.len() >= 2 {
            break;
        }
        match dec.decode(&mut buf) {
            Ok(Some(v)) => results.push(Ok(v)),
            Ok(None) => {}
            Err(e) => results.push(Err(format!("{:?}", e))),
        }
    }
    (results, buf.len())
}

struct ChunkedReader<'a> {
    parts: Vec<&'a [u8]>,
    idx: usize,
    off: usize,
}

impl<'a> AsyncRead for ChunkedReader<'a> {
    fn poll_read(mut self: Pin<&mut Self>, _cx: &mut Context<'_>, buf: &mut ReadBuf<'_>) -> Poll<std::io::Result<()>> {
        while self.idx < self.parts.len() && self.off >= self.parts[self.idx].len() {
            self.idx += 1;
            self.off = 0;
        }
        if self.idx >= self.parts.len() {
            return Poll::Ready(Ok(()));
        }
        let part = &self.parts[self.idx][self.off..];
        let n = part.len().min(buf.remaining());
        buf.put_slice(&part[..n]);
        self.off += n;
        Poll::Ready(Ok(()))
    }
}

/// parse_recon_document over an AsyncRead that hands out exactly the given chunks.
fn run_doc(bytes: &[u8], cuts: &[usize]) -> Result<Value, String> {
    let reader = ChunkedReader { parts: chunks(bytes, cuts), idx: 0, off: 0 };
    let fut = parse_recon_document(reader, false);
    let mut fut = std::pin::pin!(fut);
    let (_c, w) = h_common::count_waker();
    let mut cx = Context::from_waker(&w);
    for _ in 0..MAX_CALLS {
        match std::future::Future::poll(fut.as_mut(), &mut cx) {
            Poll::Ready(r) => return r.map(|items| Value::Record(vec![], items)).map_err(|e| format!("{:?}", e)),
            Poll::Pending => {}
        }
    }
    Err("HANG: poll budget exceeded".to_string())
}

/// cut plans for a byte string of length n: {"single": bool (every single cut 1..n-1), "multi": [[offsets]...],
/// "hdr": bool (with-len: also cut inside the 8 byte length prefix)}
struct Plans {
    list: Vec<Vec<usize>>,
}

fn plans_for(n: usize, spec: &J) -> Plans {
    let mut list: Vec<Vec<usize>> = vec![];
    if spec["single"].as_bool().unwrap_or(false) {
        // every single cut; beyond max_single cuts: all cuts in the first and last 48 bytes and an even stride between
        let cap = spec["max_single"].as_u64().unwrap_or(u64::MAX) as usize;
        if n <= 1 || n - 1 <= cap {
            for k in 1..n {
                list.push(vec![k]);
            }
        } else {
            let stride = (n / cap.max(1)).max(1);
            for k in 1..n {
                if k <= 48 || k + 48 >= n || k % stride == 0 {
                    list.push(vec![k]);
                }
            }
        }
    }
    if let Some(ms) = spec["multi"].as_array() {
        for m in ms {
            let v: Vec<usize> = m.as_array().unwrap().iter().map(|x| x.as_u64().unwrap() as usize).filter(|&c| c > 0 && c < n).collect();
            list.push(v);
        }
    }
    // relative plans: cut positions given in 1/1000 of the length (for texts whose length is not known to the generator)
    if let Some(ms) = spec["permille"].as_array() {
        for m in ms {
            let mut v: Vec<usize> = m.as_array().unwrap().iter().map(|x| (x.as_u64().unwrap() as usize * n) / 1000).filter(|&c| c > 0 && c < n).collect();
            v.sort();
            v.dedup();
            list.push(v);
        }
    }
    if spec["bytewise"].as_bool().unwrap_or(false) && n > 1 {
        list.push((1..n).collect());
    }
    Plans { list }
}

fn calls_json(calls: &[Call]) -> J {
    J::Array(calls.iter().map(|c| json!({"avail": c.avail, "consumed": c.consumed, "out": c.out})).collect())
}

/// Chunk-independence observations for one text and one target type.
fn chunk_obs<T, F>(bytes: &[u8], spec: &J, expect: &str, idf: F) -> J
where
    T: RecognizerReadable,
    F: Fn(&Result<T, String>) -> String,
{
    let n = bytes.len();
    let plans = plans_for(n, spec);
    let hdr = spec["hdr"].as_bool().unwrap_or(false);
    let mut out = Map::new();
    // unchunked runs of the incremental consumers themselves
    let mut calls = vec![];
    let rd0 = idf(&run_rd(T::make_recognizer(), bytes, &[], &mut calls));
    let mut calls0 = vec![];
    let (wl0r, left0) = run_withlen(T::make_recognizer(), bytes, &[], 0, true, &mut calls0);
    let wl0 = idf(&wl0r);
    out.insert("n".into(), json!(n));
    // the frame starts (after blanks) with an unquoted primitive token: the decoder is in state Init when it meets it
    let first = bytes.iter().copied().find(|b| !matches!(b, b' ' | b'\t' | b'\n' | b'\r'));
    out.insert("bare".into(), json!(matches!(first, Some(b) if b != b'"' && b != b'@' && b != b'{')));
    out.insert("plans".into(), json!(plans.list.len()));
    out.insert("rd0".into(), json!(rd0.clone()));
    out.insert("wl0".into(), json!(wl0.clone()));
    out.insert("wl0_left".into(), json!(left0));
    let mut rd_ids: BTreeMap<String, usize> = BTreeMap::new();
    let mut wl_ids: BTreeMap<String, usize> = BTreeMap::new();
    let mut wl_left_bad = 0usize;
    let mut rd_bad: Option<J> = None;
    let mut wl_bad: Option<J> = None;
    let mut runs = 4usize;
    let mut sample: Option<J> = None;
    {
        // unchunked, nothing after the frame
        let mut calls = vec![];
        let (wr, left) = run_withlen(T::make_recognizer(), bytes, &[], 0, false, &mut calls);
        let w = idf(&wr);
        if left != 9 {
            wl_left_bad += 1;
        }
        if (w != expect || left != 9) && wl_bad.is_none() {
            wl_bad = Some(json!({"cuts": [], "hdr_cut": 0, "sentinel": false, "got": w, "left": left, "calls": calls_json(&calls)}));
        }
        *wl_ids.entry(w).or_insert(0) += 1;
        let (rs, left2) = run_withlen_two(T::make_recognizer(), bytes, &[]);
        let ids: Vec<String> = rs.iter().map(|r| idf(r)).collect();
        if !(ids.len() == 2 && ids[0] == expect && ids[1] == expect && left2 == 0) {
            wl_left_bad += if left2 != 0 { 1 } else { 0 };
            if wl_bad.is_none() {
                wl_bad = Some(json!({"cuts": [], "two_frames": ids, "left": left2}));
            }
            *wl_ids.entry(format!("two:{}", ids.join("+"))).or_insert(0) += 1;
        }
    }
    for (pi, cuts) in plans.list.iter().enumerate() {
        let mut calls = vec![];
        let r = idf(&run_rd(T::make_recognizer(), bytes, cuts, &mut calls));
        runs += 1;
        if r != expect && rd_bad.is_none() {
            rd_bad = Some(json!({"cuts": cuts, "got": r, "calls": calls_json(&calls)}));
        }
        *rd_ids.entry(r).or_insert(0) += 1;
        let hdr_cuts: Vec<usize> = if hdr && pi % 7 == 0 { vec![0, 1 + (pi / 7) % 7] } else { vec![0] };
        for hc in hdr_cuts {
            let mut calls = vec![];
            // every third plan: the stream pauses exactly at the end of the frame
            let sentinel = (pi + hc) % 3 != 2;
            let (wr, left) = run_withlen(T::make_recognizer(), bytes, cuts, hc, sentinel, &mut calls);
            let w = idf(&wr);
            runs += 1;
            let left_ok = left == 9;
            if !left_ok {
                wl_left_bad += 1;
            }
            if (w != expect || !left_ok) && wl_bad.is_none() {
                wl_bad = Some(json!({"cuts": cuts, "hdr_cut": hc, "sentinel": sentinel, "got": w, "left": left, "calls": calls_json(&calls)}));
            }
            if pi % 5 == 1 && hc == 0 {
                // two frames through one decoder
                let (rs, left2) = run_withlen_two(T::make_recognizer(), bytes, cuts);
                runs += 1;
                let ids: Vec<String> = rs.iter().map(|r| idf(r)).collect();
                let ok2 = ids.len() == 2 && ids[0] == expect && ids[1] == expect && left2 == 0;
                if !ok2 {
                    wl_left_bad += if left2 != 0 { 1 } else { 0 };
                    if wl_bad.is_none() {
                        wl_bad = Some(json!({"cuts": cuts, "two_frames": ids, "left": left2}));
                    }
                    *wl_ids.entry(format!("two:{}", ids.join("+"))).or_insert(0) += 1;
                }
            }
            if sample.is_none() && cuts.len() >= 1 && calls.len() >= 2 {
                sample = Some(json!({"cuts": cuts, "hdr_cut": hc, "calls": calls_json(&calls)}));
            }
            *wl_ids.entry(w).or_insert(0) += 1;
        }
    }
    // plans that also cut inside (or right after) the 8 byte length prefix: [hdr_cut, body cuts...]
    if let Some(hm) = spec["hdr_multi"].as_array() {
        for m in hm {
            let v: Vec<usize> = m.as_array().unwrap().iter().map(|x| x.as_u64().unwrap() as usize).collect();
            if v.is_empty() {
                continue;
            }
            let hc = v[0];
            let cuts: Vec<usize> = v[1..].iter().copied().filter(|&c| c > 0 && c < n).collect();
            let mut calls = vec![];
            let (wr, left) = run_withlen(T::make_recognizer(), bytes, &cuts, hc, true, &mut calls);
            let w = idf(&wr);
            runs += 1;
            let left_ok = left == 9;
            if !left_ok {
                wl_left_bad += 1;
            }
            if (w != expect || !left_ok) && wl_bad.is_none() {
                wl_bad = Some(json!({"cuts": cuts, "hdr_cut": hc, "got": w, "left": left, "calls": calls_json(&calls)}));
            }
            *wl_ids.entry(w).or_insert(0) += 1;
        }
    }
    out.insert("rd".into(), json!(rd_ids.keys().collect::<Vec<_>>()));
    out.insert("wl".into(), json!(wl_ids.keys().collect::<Vec<_>>()));
    out.insert("wl_left_bad".into(), json!(wl_left_bad));
    out.insert("runs".into(), json!(runs));
    if rd_bad.is_some() || wl_bad.is_some() || rd0 != expect || wl0 != expect {
        out.insert("text".into(), json!(String::from_utf8_lossy(bytes)));
    }
    if let Some(b) = rd_bad {
        out.insert("rd_bad".into(), b);
    }
    if let Some(b) = wl_bad {
        out.insert("wl_bad".into(), b);
    }
    if let Some(s) = sample {
        out.insert("sample".into(), s);
    }
    J::Object(out)
}

/// parse_recon_document: result for every plan must equal its own unchunked result.
fn doc_obs(bytes: &[u8], spec: &J) -> J {
    let n = bytes.len();
    let plans = plans_for(n, spec);
    let d0 = res_id(&run_doc(bytes, &[]));
    let mut ids: BTreeMap<String, usize> = BTreeMap::new();
    let mut bad: Option<J> = None;
    for cuts in plans.list.iter() {
        let r = res_id(&run_doc(bytes, cuts));
        if r != d0 && bad.is_none() {
            bad = Some(json!({"cuts": cuts, "got": r}));
        }
        *ids.entry(r).or_insert(0) += 1;
    }
    let mut o = json!({"doc0": d0, "doc": ids.keys().collect::<Vec<_>>(), "runs": plans.list.len() + 1});
    if let Some(b) = bad {
        o["doc_bad"] = b;
    }
    o
}

// ------------------------------------------------------------------------------------------------
// case kinds

/// Round trip of a model value through the three printers; second cycle from every parse result.
fn value_row(v: &Value, spec: &J, with_text: bool) -> J {
    let cs = canon_s(v);
    let vid = hid(&cs);
    let mut f = Facts::default();
    facts(v, 0, &mut f);
    let mut pr = vec![];
    let mut texts: Vec<String> = vec![];
    for p in 0..3 {
        let text = print_with(p, v);
        let r = one_shot(&text);
        let back = res_id(&r);
        let mut o = json!({"p": PRINTERS[p], "len": text.len(), "back": back, "tid": hid(&text)});
        if with_text || back != vid {
            o["text"] = json!(text);
        }
        if let Err(e) = &r {
            o["err"] = json!(e);
        }
        if let Ok(w) = &r {
            // w is a value the parser produced: it must survive every printer exactly
            let wc = canon_s(w);
            let wid = hid(&wc);
            let mut f2 = Facts::default();
            facts(w, 0, &mut f2);
            let mut again = vec![];
            for q in 0..3 {
                let t2 = print_with(q, w);
                let r2 = one_shot(&t2);
                let mut a = json!({"p": PRINTERS[q], "back": res_id(&r2)});
                let mut unstable = false;
                if res_id(&r2) != wid {
                    a["text"] = json!(t2);
                    unstable = true;
                }
                again.push(a);
                if unstable || with_text {
                    if f2.depth <= 24 {
                        o["norm_cv"] = to_cv(w);
                    }
                    o["norm"] = json!(wc);
                }
            }
            o["again"] = J::Array(again);
            o["feat"] = feat_json(&f2);
            o["nf"] = json!(f2.nonfinite);
        }
        pr.push(o);
        texts.push(text);
    }
    let mut row = json!({
        "k": "value", "vid": vid, "nonfinite": f.nonfinite, "feat": feat_json(&f),
        "depth": f.depth, "nodes": f.nodes, "records": f.records, "pr": pr,
    });
    {
        let mut rt = String::new();
        ref_text(v, &mut rt);
        let produced = matches!(one_shot(&rt), Ok(w) if canon_s(&w) == cs);
        row["produced"] = json!(produced);
        if with_text {
            row["ref"] = json!(rt);
        }
    }
    let any_bad = row["pr"].as_array().unwrap().iter().any(|o| o["back"] != row["vid"] || o.get("norm").is_some());
    if with_text || any_bad {
        row["canon"] = json!(cs);
        if f.depth <= 24 {
            row["cv"] = to_cv(v);
        }
    }
    if !spec.is_null() {
        // chunk independence on the compact text (what the wire carries) and on the pretty text (new lines)
        let mut ch = vec![];
        let which: Vec<usize> = spec["texts"].as_array().map(|a| a.iter().map(|x| x.as_u64().unwrap() as usize).collect()).unwrap_or_else(|| vec![1]);
        for p in which {
            if p != 1 && texts[p] == texts[1] {
                continue;
            }
            let bytes = texts[p].as_bytes();
            let expect = res_id(&one_shot(&texts[p]));
            let mut o = chunk_obs::<Value, _>(bytes, spec, &expect, res_id);
            o["p"] = json!(PRINTERS[p]);
            o["one"] = json!(expect);
            if with_text {
                o["text"] = json!(texts[p]);
            }
            if spec["doc"].as_bool().unwrap_or(false) {
                let d = doc_obs(bytes, spec);
                for (k, v) in d.as_object().unwrap() {
                    if k == "runs" {
                        o["runs"] = json!(o["runs"].as_u64().unwrap() + v.as_u64().unwrap());
                    } else {
                        o[k] = v.clone();
                    }
                }
            }
            ch.push(o);
        }
        row["chunk"] = J::Array(ch);
    }
    row
}

fn text_row(text_bytes: &[u8], spec: &J, with_text: bool) -> J {
    let mut row = json!({"k": "text", "n": text_bytes.len(), "tid": hid(&String::from_utf8_lossy(text_bytes))});
    if with_text {
        row["text"] = json!(String::from_utf8_lossy(text_bytes));
    }
    match std::str::from_utf8(text_bytes) {
        Ok(text) => {
            let r = one_shot(text);
            let one = res_id(&r);
            row["one"] = json!(one);
            // the comment-enabled parser must not panic either (result not compared)
            let rc = parse_recognize::<Value>(text, true);
            row["one_comments"] = json!(match &rc {
                Ok(v) => hid(&canon_s(v)),
                Err(_) => "err".to_string(),
            });
            if let Ok(w) = &r {
                let sub = value_row(w, &J::Null, with_text);
                row["vid"] = sub["vid"].clone();
                row["nonfinite"] = sub["nonfinite"].clone();
                row["feat"] = sub["feat"].clone();
                row["nodes"] = sub["nodes"].clone();
                row["depth"] = sub["depth"].clone();
                row["pr"] = sub["pr"].clone();
                if sub.get("canon").is_some() {
                    // something did not come back: keep the diagnostics
                    row["canon"] = sub["canon"].clone();
                    row["text"] = json!(text);
                }
            } else if let Err(e) = &r {
                row["err"] = json!(e);
            }
            if !spec.is_null() {
                let mut o = chunk_obs::<Value, _>(text_bytes, spec, &one, res_id);
                if spec["doc"].as_bool().unwrap_or(false) {
                    let d = doc_obs(text_bytes, spec);
                    for (k, v) in d.as_object().unwrap() {
                        if k == "runs" {
                            o["runs"] = json!(o["runs"].as_u64().unwrap() + v.as_u64().unwrap());
                        } else {
                            o[k] = v.clone();
                        }
                    }
                }
                o["one"] = json!(one);
                row["chunk"] = json!([o]);
            }
        }
        Err(_) => {
            // not UTF-8: only the byte-level consumers apply; oracle = no panic, no hang, an error or a value
            row["one"] = json!("n/a");
            let mut calls = vec![];
            let r = run_rd(Value::make_recognizer(), text_bytes, &[], &mut calls);
            let expect = res_id(&r);
            if !spec.is_null() {
                let mut o = chunk_obs::<Value, _>(text_bytes, spec, &expect, res_id);
                o["one"] = json!(expect);
                o["binary"] = json!(true);
                row["chunk"] = json!([o]);
            }
        }
    }
    row
}

// ---- typed values ------------------------------------------------------------------------------

#[derive(Form, Debug, Clone, PartialEq)]
struct Unit;

#[derive(Form, Debug, Clone, PartialEq)]
struct Point {
    x: i32,
    y: f64,
}

#[derive(Form, Debug, Clone, PartialEq)]
#[form(tag = "person")]
struct Person {
    #[form(header)]
    id: u64,
    #[form(attr)]
    nick: String,
    name: String,
    #[form(name = "years")]
    age: Option<u32>,
    tags: Vec<String>,
}

#[derive(Form, Debug, Clone, PartialEq)]
struct Wrapper {
    #[form(header_body)]
    key: String,
    #[form(body)]
    inner: Point,
}

#[derive(Form, Debug, Clone, PartialEq)]
struct Tup(i64, String, bool);

#[derive(Form, Debug, Clone, PartialEq)]
#[form(newtype)]
struct NewT(String);

#[derive(Tag, Debug, Clone, Copy, PartialEq, Eq)]
enum Kind {
    Alpha,
    Beta,
    GammaRay,
}

#[derive(Form, Debug, Clone, PartialEq)]
struct Generic {
    #[form(tag)]
    kind: Kind,
    value: Value,
    data: Vec<u8>,
}

#[derive(Form, Debug, Clone, PartialEq)]
enum Shape {
    #[form(tag = "dot")]
    Dot,
    Circle {
        #[form(header)]
        r: f64,
    },
    Rect(i32, i32),
    Labelled {
        #[form(header_body)]
        label: String,
        #[form(body)]
        of: Vec<i32>,
    },
    Nested {
        inner: Option<Point>,
        big: BigInt,
    },
}

struct Syms<'a> {
    syms: &'a [u64],
    pos: usize,
    salt: usize,
}

impl<'a> Syms<'a> {
    fn next(&mut self) -> usize {
        let s = self.syms.get(self.pos).copied().unwrap_or(0) as usize;
        self.pos += 1;
        s
    }
    fn pick<T: Clone>(&mut self, pool: &[T]) -> T {
        // symbol 0 and 1 are the first two pool entries rotated by salt; others spread
        let s = self.next();
        pool[(s * 3 + self.salt + self.pos) % pool.len()].clone()
    }
    fn i32(&mut self) -> i32 {
        self.pick(&[0, -1, 1, i32::MAX, i32::MIN, 42, -1000])
    }
    fn i64(&mut self) -> i64 {
        self.pick(&[0i64, -1, i64::MAX, i64::MIN, i32::MAX as i64 + 1, i32::MIN as i64 - 1, 7])
    }
    fn u32(&mut self) -> u32 {
        self.pick(&[0u32, 1, u32::MAX, i32::MAX as u32 + 1, 99])
    }
    fn u64(&mut self) -> u64 {
        self.pick(&[0u64, 1, u64::MAX, i64::MAX as u64 + 1, u32::MAX as u64 + 1])
    }
    fn f64(&mut self) -> f64 {
        self.pick(&pool_float())
    }
    fn bool(&mut self) -> bool {
        (self.next() + self.salt) % 2 == 0
    }
    fn string(&mut self) -> String {
        let s = self.next();
        let id = pool_ident();
        let q = pool_qtext();
        let k = s * 3 + self.salt + self.pos;
        if k % 3 == 0 {
            id[k % id.len()].to_string()
        } else {
            q[k % q.len()].clone()
        }
    }
    fn bytes(&mut self) -> Vec<u8> {
        self.pick(&pool_blob())
    }
    fn bigint(&mut self) -> BigInt {
        let two100: BigInt = BigInt::from(1u8) << 100;
        self.pick(&[BigInt::from(0), BigInt::from(-1), BigInt::from(i64::MIN) - 1, BigInt::from(u64::MAX) + 1, -two100.clone(), two100])
    }
    fn biguint(&mut self) -> BigUint {
        let two100: BigUint = BigUint::from(1u8) << 100;
        self.pick(&[BigUint::from(0u8), BigUint::from(u64::MAX), BigUint::from(u64::MAX) + 1u8, two100])
    }
    fn len(&mut self) -> usize {
        self.next() % 4
    }
    fn point(&mut self) -> Point {
        Point { x: self.i32(), y: self.f64() }
    }
    fn value(&mut self) -> Value {
        // a parser-producible model value
        let s = self.next();
        match s % 5 {
            0 => Value::Extant,
            1 => self.pick(&pool_int()),
            2 => Value::text(self.string()),
            3 => Value::Record(vec![Attr { name: Text::new("v"), value: Value::Int32Value(1) }], vec![Item::Slot(Value::text("k"), Value::BooleanValue(true))]),
            _ => Value::Record(vec![], vec![Item::ValueItem(Value::Int32Value(1)), Item::ValueItem(Value::text("two words"))]),
        }
    }
}

fn typed_obs<T>(v: T, spec: &J, with_text: bool, float_bits: bool) -> J
where
    T: StructuralWritable + RecognizerReadable + Debug + PartialEq,
{
    let dbg = format!("{:?}", v);
    let vid = hid(&dbg);
    let mut pr = vec![];
    let mut compact = String::new();
    for p in 0..3 {
        let text = print_with(p, &v);
        let r = parse_recognize::<T>(text.as_str(), false).map_err(|e| format!("{:?}", e));
        // exact recovery: == and identical Debug rendering (distinguishes -0.0 / 0.0 where the type holds floats)
        let eq = match &r {
            Ok(w) => *w == v && (!float_bits || format!("{:?}", w) == dbg),
            Err(_) => false,
        };
        let back = if eq { vid.clone() } else { res_id_t(&r) };
        let mut o = json!({"p": PRINTERS[p], "len": text.len(), "back": back, "eq": eq, "tid": hid(&text)});
        if with_text || !eq {
            o["text"] = json!(text);
            if let Ok(w) = &r {
                o["got"] = json!(format!("{:?}", w));
            }
        }
        if let Err(e) = &r {
            o["err"] = json!(e);
        }
        if p == 1 {
            compact = text;
        }
        pr.push(o);
    }
    let mut f = Facts::default();
    facts(&v.structure(), 0, &mut f);
    let mut row = json!({"k": "typed", "vid": vid, "pr": pr, "feat": feat_json(&f)});
    let any_bad = row["pr"].as_array().unwrap().iter().any(|o| o["back"] != row["vid"]);
    if with_text || any_bad {
        row["dbg"] = json!(dbg);
    }
    if !spec.is_null() {
        let r = parse_recognize::<T>(compact.as_str(), false).map_err(|e| format!("{:?}", e));
        let expect = res_id_t(&r);
        let mut o = chunk_obs::<T, _>(compact.as_bytes(), spec, &expect, res_id_t);
        o["one"] = json!(expect);
        o["p"] = json!("compact");
        if with_text {
            o["text"] = json!(compact);
        }
        row["chunk"] = json!([o]);
    }
    row
}


fn typed_row(ty: &str, syms: &[u64], salt: usize, spec: &J, wt: bool) -> J {
    let mut s = Syms { syms, pos: 0, salt };
    let mut row = match ty {
        "unit" => typed_obs((), spec, wt, false),
        "i32" => typed_obs(s.i32(), spec, wt, false),
        "i64" => typed_obs(s.i64(), spec, wt, false),
        "u32" => typed_obs(s.u32(), spec, wt, false),
        "u64" => typed_obs(s.u64(), spec, wt, false),
        "f64" => typed_obs(s.f64(), spec, wt, true),
        "bool" => typed_obs(s.bool(), spec, wt, false),
        "string" => typed_obs(s.string(), spec, wt, false),
        "text" => typed_obs(Text::new(&s.string()), spec, wt, false),
        "bytes" => typed_obs(s.bytes(), spec, wt, false),
        "blob" => typed_obs(Blob::from_vec(s.bytes()), spec, wt, false),
        "bigint" => typed_obs(s.bigint(), spec, wt, false),
        "biguint" => typed_obs(s.biguint(), spec, wt, false),
        "opt_i32" => {
            let v = if s.next() % 2 == 0 { None } else { Some(s.i32()) };
            typed_obs(v, spec, wt, false)
        }
        "opt_string" => {
            let v = if s.next() % 2 == 0 { None } else { Some(s.string()) };
            typed_obs(v, spec, wt, false)
        }
        "vec_i32" => {
            let n = s.len();
            let v: Vec<i32> = (0..n).map(|_| s.i32()).collect();
            typed_obs(v, spec, wt, false)
        }
        "vec_string" => {
            let n = s.len();
            let v: Vec<String> = (0..n).map(|_| s.string()).collect();
            typed_obs(v, spec, wt, false)
        }
        "vec_f64" => {
            let n = s.len();
            let v: Vec<f64> = (0..n).map(|_| s.f64()).collect();
            typed_obs(v, spec, wt, true)
        }
        "vec_vec_i32" => {
            let n = s.len();
            let v: Vec<Vec<i32>> = (0..n)
                .map(|_| {
                    let m = s.len();
                    (0..m).map(|_| s.i32()).collect()
                })
                .collect();
            typed_obs(v, spec, wt, false)
        }
        "vec_opt_i32" => {
            let n = s.len();
            let v: Vec<Option<i32>> = (0..n).map(|_| if s.next() % 2 == 0 { None } else { Some(s.i32()) }).collect();
            typed_obs(v, spec, wt, false)
        }
        "map_string_i32" => {
            let n = s.len();
            let kv: Vec<(String, i32)> = (0..n).map(|_| (s.string(), s.i32())).collect();
            typed_obs_unordered(kv.into_iter().collect::<HashMap<_, _>>(), spec, wt)
        }
        "map_i32_string" => {
            let n = s.len();
            let kv: Vec<(i32, String)> = (0..n).map(|_| (s.i32(), s.string())).collect();
            typed_obs_unordered(kv.into_iter().collect::<HashMap<_, _>>(), spec, wt)
        }
        "hashmap_i32_vec" => {
            let n = s.len();
            let kv: HashMap<i32, Vec<i32>> = (0..n).map(|_| (s.i32(), vec![s.i32()])).collect();
            typed_obs_unordered(kv, spec, wt)
        }
        "value" => typed_obs_value(s.value(), spec, wt),
        "s_unit" => typed_obs(Unit, spec, wt, false),
        "s_point" => typed_obs(s.point(), spec, wt, true),
        "s_person" => {
            let id = s.u64();
            let nick = s.string();
            let name = s.string();
            let age = if s.next() % 2 == 0 { None } else { Some(s.u32()) };
            let n = s.len();
            let tags = (0..n).map(|_| s.string()).collect();
            typed_obs(Person { id, nick, name, age, tags }, spec, wt, false)
        }
        "s_wrapper" => typed_obs(Wrapper { key: s.string(), inner: s.point() }, spec, wt, true),
        "s_tup" => typed_obs(Tup(s.i64(), s.string(), s.bool()), spec, wt, false),
        "s_newtype" => typed_obs(NewT(s.string()), spec, wt, false),
        "s_generic" => {
            let kind = [Kind::Alpha, Kind::Beta, Kind::GammaRay][(s.next() + salt) % 3];
            let value = s.value();
            let data = s.bytes();
            typed_obs_dbg_eq(Generic { kind, value, data }, spec, wt)
        }
        "e_shape" => {
            let which = s.next() % 5;
            let v = match which {
                0 => Shape::Dot,
                1 => Shape::Circle { r: s.f64() },
                2 => Shape::Rect(s.i32(), s.i32()),
                3 => {
                    let label = s.string();
                    let n = s.len();
                    Shape::Labelled { label, of: (0..n).map(|_| s.i32()).collect() }
                }
                _ => Shape::Nested { inner: if s.next() % 2 == 0 { None } else { Some(s.point()) }, big: s.bigint() },
            };
            typed_obs(v, spec, wt, true)
        }
        other => panic!("HARNESS: unknown type {}", other),
    };
    row["ty"] = json!(ty);
    row
}

// Value's own PartialEq is not exact (kind-insensitive numerics): compare canonical forms instead.
#[derive(Debug, Clone)]
struct ExactValue(Value);
impl PartialEq for ExactValue {
    fn eq(&self, o: &Self) -> bool {
        canon_s(&self.0) == canon_s(&o.0)
    }
}
impl StructuralWritable for ExactValue {
    fn num_attributes(&self) -> usize {
        self.0.num_attributes()
    }
    fn write_with<W: swimos_form::write::StructuralWriter>(&self, writer: W) -> Result<W::Repr, W::Error> {
        self.0.write_with(writer)
    }
    fn write_into<W: swimos_form::write::StructuralWriter>(self, writer: W) -> Result<W::Repr, W::Error> {
        self.0.write_into(writer)
    }
}
struct ExactRec(<Value as RecognizerReadable>::Rec);
impl swimos_form::read::Recognizer for ExactRec {
    type Target = ExactValue;
    fn feed_event(&mut self, input: swimos_form::read::ReadEvent<'_>) -> Option<Result<ExactValue, swimos_form::read::ReadError>> {
        self.0.feed_event(input).map(|r| r.map(ExactValue))
    }
    fn try_flush(&mut self) -> Option<Result<ExactValue, swimos_form::read::ReadError>> {
        self.0.try_flush().map(|r| r.map(ExactValue))
    }
    fn reset(&mut self) {
        self.0.reset()
    }
}
impl RecognizerReadable for ExactValue {
    type Rec = ExactRec;
    type AttrRec = ExactRec;
    type BodyRec = ExactRec;
    fn make_recognizer() -> ExactRec {
        ExactRec(Value::make_recognizer())
    }
    fn make_attr_recognizer() -> ExactRec {
        unimplemented!()
    }
    fn make_body_recognizer() -> ExactRec {
        unimplemented!()
    }
}

fn is_produced(v: &Value) -> bool {
    let mut rt = String::new();
    ref_text(v, &mut rt);
    matches!(one_shot(&rt), Ok(w) if canon_s(&w) == canon_s(v))
}

fn typed_obs_value(v: Value, spec: &J, wt: bool) -> J {
    // only model values the parser can produce are required to come back exactly
    let produced = is_produced(&v);
    let mut row = typed_obs(ExactValue(v), spec, wt, false);
    if !produced {
        row["skip"] = json!(true);
    }
    row
}

fn typed_obs_dbg_eq(v: Generic, spec: &J, wt: bool) -> J {
    let produced = is_produced(&v.value);
    let mut row = typed_obs(v, spec, wt, true);
    if !produced {
        row["skip"] = json!(true);
    }
    row
}

#[derive(Clone)]
struct Unordered<K, V>(HashMap<K, V>);
impl<K: Ord + Debug, V: Debug> Debug for Unordered<K, V> {
    fn fmt(&self, f: &mut std::fmt::Formatter<'_>) -> std::fmt::Result {
        let b: BTreeMap<_, _> = self.0.iter().collect();
        write!(f, "{:?}", b)
    }
}
impl<K: Eq + Hash, V: PartialEq> PartialEq for Unordered<K, V> {
    fn eq(&self, o: &Self) -> bool {
        self.0 == o.0
    }
}
impl<K: StructuralWritable, V: StructuralWritable> StructuralWritable for Unordered<K, V> {
    fn num_attributes(&self) -> usize {
        0
    }
    fn write_with<W: swimos_form::write::StructuralWriter>(&self, writer: W) -> Result<W::Repr, W::Error> {
        self.0.write_with(writer)
    }
    fn write_into<W: swimos_form::write::StructuralWriter>(self, writer: W) -> Result<W::Repr, W::Error> {
        self.0.write_into(writer)
    }
}
struct UnorderedRec<K: RecognizerReadable + Eq + Hash, V: RecognizerReadable>(<HashMap<K, V> as RecognizerReadable>::Rec);
impl<K: RecognizerReadable + Eq + Hash, V: RecognizerReadable> swimos_form::read::Recognizer for UnorderedRec<K, V> {
    type Target = Unordered<K, V>;
    fn feed_event(&mut self, input: swimos_form::read::ReadEvent<'_>) -> Option<Result<Unordered<K, V>, swimos_form::read::ReadError>> {
        self.0.feed_event(input).map(|r| r.map(Unordered))
    }
    fn try_flush(&mut self) -> Option<Result<Unordered<K, V>, swimos_form::read::ReadError>> {
        self.0.try_flush().map(|r| r.map(Unordered))
    }
    fn reset(&mut self) {
        self.0.reset()
    }
}
impl<K: RecognizerReadable + Eq + Hash, V: RecognizerReadable> RecognizerReadable for Unordered<K, V> {
    type Rec = UnorderedRec<K, V>;
    type AttrRec = UnorderedRec<K, V>;
    type BodyRec = UnorderedRec<K, V>;
    fn make_recognizer() -> UnorderedRec<K, V> {
        UnorderedRec(<HashMap<K, V>>::make_recognizer())
    }
    fn make_attr_recognizer() -> UnorderedRec<K, V> {
        unimplemented!()
    }
    fn make_body_recognizer() -> UnorderedRec<K, V> {
        unimplemented!()
    }
}

fn typed_obs_unordered<K, V>(v: HashMap<K, V>, spec: &J, wt: bool) -> J
where
    K: StructuralWritable + RecognizerReadable + Eq + Hash + Ord + Debug,
    V: StructuralWritable + RecognizerReadable + PartialEq + Debug,
{
    typed_obs(Unordered(v), spec, wt, false)
}

// ---- token sequences (texts generated from the TLA+ grammar model) ---------------------------------

/// Concretise one abstract token.  The token classes are those of specs/Recon.tla (Tok*).
fn token(c: &mut Concretiser, t: &str, out: &mut String) {
    fn lit(c: &mut Concretiser, class: &str, out: &mut String) {
        // render the concrete leaf the way the compact printer would (a well-formed literal of that class)
        let v = c.leaf(class);
        out.push_str(&print_with(1, &v));
    }
    match t {
        "id" => lit(c, "T", out),
        "str" => {
            // always quoted, even if the content is an identifier
            let v = c.leaf("S");
            if let Value::Text(t) = &v {
                let printed = print_with(1, &v);
                if printed.starts_with('"') {
                    out.push_str(&printed);
                } else {
                    out.push('"');
                    out.push_str(t.as_str());
                    out.push('"');
                }
            }
        }
        "int" => lit(c, "I", out),
        "float" => lit(c, "F", out),
        "bool" => lit(c, "B", out),
        "blob" => lit(c, "D", out),
        "hex" => out.push_str(c.pick(&["0x0", "0xff", "-0x1", "0XFFFFFFFFFFFFFFFF", "0x10000000000000000", "0b101", "-0b1"])),
        "expf" => out.push_str(c.pick(&["1e5", "1E-5", "-1.5e+3", "0.0e0", "1e400", "-1e400", "1.", "1.e2"])),
        "attr" => {
            out.push('@');
            out.push_str(c.name("n").as_str());
        }
        "qattr" => {
            out.push('@');
            let n = c.name("q");
            let printed = print_with(1, &Value::Text(n.clone()));
            if printed.starts_with('"') {
                out.push_str(&printed);
            } else {
                out.push('"');
                out.push_str(n.as_str());
                out.push('"');
            }
        }
        "lp" => out.push('('),
        "rp" => out.push(')'),
        "lb" => out.push('{'),
        "rb" => out.push('}'),
        "colon" => out.push(':'),
        "comma" => out.push(','),
        "semi" => out.push(';'),
        "sp" => out.push(' '),
        "tab" => out.push('\t'),
        "nl" => out.push('\n'),
        "crlf" => out.push_str("\r\n"),
        "comment" => out.push_str(c.pick(&["#c\n", "# a comment {\n", "#\n"])),
        // ill-formed fragments used by the mutation operators of the model
        "badesc" => out.push_str(c.pick(&["\"\\q\"", "\"\\u12\"", "\"\\uD800\"", "\"\\u00zz\"", "\"\\", "\"\\uDFFF\"", "\"\\ud83d\\ude00\""])),
        "openstr" => out.push_str("\"abc"),
        "badblob" => out.push_str(c.pick(&["%A", "%AA=A", "%====", "%AAA", "%A=", "%AAAAA"])),
        "badnum" => out.push_str(c.pick(&["0x", "-", "1e", "--1", "0b2", "1.2.3", "-0x", "+1"])),
        "junk" => out.push_str(c.pick(&["\u{0}", "\u{1F600}", "\\", "'", "=", "<", "\u{feff}", "&", "*"])),
        "at" => out.push('@'),
        other => panic!("HARNESS: unknown token class {}", other),
    }
}

/// Token sequences come from the parser model (Gen_ReconChunk): lit prim sep colon nl rb rp attr0 attrp lb,
/// plus the ill-formed fragments.  `style` chooses the blanks between tokens (never significant
/// except the line break, which is a token of its own).
fn toks_text(c: &mut Concretiser, toks: &J, style: usize) -> String {
    let mut out = String::new();
    let toks: Vec<&str> = toks.as_array().unwrap().iter().map(|t| t.as_str().unwrap()).collect();
    let n = toks.len();
    for (i, t) in toks.iter().enumerate() {
        let last = i + 1 == n;
        match *t {
            "lit" => token(c, "str", &mut out),
            "prim" => {
                let k = ["id", "int", "float", "bool", "blob", "hex", "expf", "id", "int"][(c.salt + c.counter) % 9];
                c.counter += 1;
                token(c, k, &mut out)
            }
            "sep" => out.push(if (c.salt + i) % 3 == 0 { ';' } else { ',' }),
            "attr0" => {
                // a quoted name directly before the end of input is read by the final-segment parser, which
                // only knows identifiers: keep that quirk out of the generated domain (it is reported separately)
                if !last && (c.salt + c.counter) % 4 == 3 {
                    token(c, "qattr", &mut out)
                } else {
                    token(c, "attr", &mut out)
                }
            }
            "attrp" => {
                if (c.salt + c.counter) % 4 == 3 {
                    token(c, "qattr", &mut out)
                } else {
                    token(c, "attr", &mut out)
                }
                out.push('(');
            }
            // the line break token is written in both spellings the grammar knows (LF, CR LF)
            "nl" => token(c, if (c.salt + i) % 3 == 1 { "crlf" } else { "nl" }, &mut out),
            other => token(c, other, &mut out),
        }
        if !last {
            let next = toks[i + 1];
            let need = matches!(*t, "attr0" | "prim") && matches!(next, "prim" | "lit" | "attr0" | "attrp");
            match style {
                0 => {
                    if need {
                        out.push(' ')
                    }
                }
                1 => out.push(' '),
                _ => {
                    let k = (c.salt + i * 7) % 4;
                    if need || k > 0 {
                        out.push_str(["", " ", "\t", "  "][k.max(if need { 1 } else { 0 })]);
                    }
                }
            }
        }
    }
    out
}

fn hex_bytes(s: &str) -> Vec<u8> {
    (0..s.len() / 2).map(|i| u8::from_str_radix(&s[2 * i..2 * i + 2], 16).unwrap()).collect()
}

/// byte-level mutation operators (chosen by the model): applied to a concrete text
fn mutate(bytes: &mut Vec<u8>, op: &J) {
    let kind = op["m"].as_str().unwrap();
    let n = bytes.len();
    let at = |permille: u64| -> usize {
        if n == 0 {
            0
        } else {
            ((permille as usize) * n / 1000).min(n - 1)
        }
    };
    let p = op["at"].as_u64().unwrap_or(0);
    match kind {
        "del" => {
            if n > 0 {
                bytes.remove(at(p));
            }
        }
        "dup" => {
            if n > 0 {
                let b = bytes[at(p)];
                bytes.insert(at(p), b);
            }
        }
        "flip" => {
            if n > 0 {
                let i = at(p);
                bytes[i] ^= 1 << (op["bit"].as_u64().unwrap_or(0) % 8);
            }
        }
        "ins" => {
            let s = op["s"].as_str().unwrap_or("{");
            let i = if n == 0 { 0 } else { at(p) };
            for (k, b) in s.bytes().enumerate() {
                bytes.insert(i + k, b);
            }
        }
        "trunc" => {
            bytes.truncate(at(p));
        }
        "swap" => {
            if n > 1 {
                let i = at(p).min(n - 2);
                bytes.swap(i, i + 1);
            }
        }
        "rep" => {
            // repeat the whole text k times (KiB sized inputs)
            let k = op["times"].as_u64().unwrap_or(2) as usize;
            let orig = bytes.clone();
            for _ in 1..k {
                bytes.extend_from_slice(&orig);
            }
        }
        "wrap" => {
            // nest the text d levels deep in '{' ... '}' or '@a(' ... ')'
            let d = op["depth"].as_u64().unwrap_or(1) as usize;
            let attr = op["attr"].as_bool().unwrap_or(false);
            let mut out = vec![];
            for _ in 0..d {
                out.extend_from_slice(if attr { b"@a(" } else { b"{" });
            }
            out.extend_from_slice(bytes);
            for _ in 0..d {
                out.push(if attr { b')' } else { b'}' });
            }
            *bytes = out;
        }
        other => panic!("HARNESS: unknown mutation {}", other),
    }
}

fn guarded<F: FnOnce() -> J>(input: J, f: F) -> J {
    match std::panic::catch_unwind(std::panic::AssertUnwindSafe(f)) {
        Ok(v) => v,
        Err(e) => {
            let msg = if let Some(s) = e.downcast_ref::<String>() {
                s.clone()
            } else if let Some(s) = e.downcast_ref::<&str>() {
                s.to_string()
            } else {
                "panic".to_string()
            };
            json!({ "panic": msg, "input": input })
        }
    }
}

fn run_case(case: &J) -> J {
    let salt = case["salt"].as_u64().unwrap_or(0) as usize;
    let spec = &case["chunk"];
    let wt = case["with_text"].as_bool().unwrap_or(false);
    match case["k"].as_str().unwrap_or("?") {
        "value" => {
            let mut c = Concretiser { salt, counter: 0 };
            let v = c.value(&case["v"]);
            guarded(json!({"k": "value", "canon": canon_s(&v)}), || value_row(&v, spec, wt))
        }
        "cval" => {
            let v = from_cv(&case["cv"]);
            guarded(json!({"k": "value", "cv": to_cv(&v)}), || value_row(&v, spec, wt))
        }
        "typed" => {
            let syms: Vec<u64> = case["syms"].as_array().map(|a| a.iter().map(|x| x.as_u64().unwrap_or(0)).collect()).unwrap_or_default();
            guarded(json!({"k": "typed", "ty": case["ty"], "syms": case["syms"], "salt": salt}), || typed_row(case["ty"].as_str().unwrap(), &syms, salt, spec, wt))
        }
        "toks" => {
            let mut c = Concretiser { salt, counter: 0 };
            let text = toks_text(&mut c, &case["toks"], case["style"].as_u64().unwrap_or(0) as usize);
            let mut bytes = text.into_bytes();
            if let Some(ms) = case["mut"].as_array() {
                for m in ms {
                    mutate(&mut bytes, m);
                }
            }
            let echo = match std::str::from_utf8(&bytes) {
                Ok(t) => json!({"k": "text", "text": t}),
                Err(_) => json!({"k": "text", "hex": bytes.iter().map(|b| format!("{:02x}", b)).collect::<String>()}),
            };
            guarded(echo, || text_row(&bytes, spec, wt))
        }
        "raw" => {
            let mut bytes = if let Some(h) = case["hex"].as_str() { hex_bytes(h) } else { case["text"].as_str().unwrap().as_bytes().to_vec() };
            if let Some(ms) = case["mut"].as_array() {
                for m in ms {
                    mutate(&mut bytes, m);
                }
            }
            let echo = match std::str::from_utf8(&bytes) {
                Ok(t) => json!({"k": "text", "text": t}),
                Err(_) => json!({"k": "text", "hex": bytes.iter().map(|b| format!("{:02x}", b)).collect::<String>()}),
            };
            guarded(echo, || text_row(&bytes, spec, wt))
        }
        other => panic!("HARNESS: unknown case kind {}", other),
    }
}

fn main() {
    std::panic::set_hook(Box::new(|_| {}));
    let budget = Duration::from_secs(std::env::var("RECON_CASE_BUDGET_S").ok().and_then(|s| s.parse().ok()).unwrap_or(180));
    let stdin = std::io::stdin();
    let stdout = std::io::stdout();
    let mut out = std::io::BufWriter::new(stdout.lock());
    // one long-lived worker; replaced if it hangs
    type Job = (J, mpsc::Sender<J>);
    fn spawn_worker() -> mpsc::Sender<Job> {
        let (tx, rx) = mpsc::channel::<Job>();
        std::thread::Builder::new()
            .stack_size(1 << 30)
            .spawn(move || {
                for (case, reply) in rx {
                    let res = std::panic::catch_unwind(std::panic::AssertUnwindSafe(|| run_case(&case)));
                    let v = match res {
                        Ok(v) => v,
                        Err(e) => {
                            let msg = if let Some(s) = e.downcast_ref::<String>() {
                                s.clone()
                            } else if let Some(s) = e.downcast_ref::<&str>() {
                                s.to_string()
                            } else {
                                "panic".to_string()
                            };
                            json!({ "panic": msg })
                        }
                    };
                    let _ = reply.send(v);
                }
            })
            .expect("spawn");
        tx
    }
    let mut worker = spawn_worker();
    for line in stdin.lock().lines() {
        let line = line.expect("stdin");
        if line.trim().is_empty() {
            continue;
        }
        let case: J = serde_json::from_str(&line).expect("case json");
        let id = case.get("id").cloned().unwrap_or(J::Null);
        let (rtx, rrx) = mpsc::channel();
        worker.send((case, rtx)).expect("worker");
        let mut v = match rrx.recv_timeout(budget) {
            Ok(v) => v,
            Err(_) => {
                worker = spawn_worker();
                json!({ "hang": true })
            }
        };
        v["id"] = id;
        serde_json::to_writer(&mut out, &v).unwrap();
        out.write_all(b"\n").unwrap();
    }
    out.flush().unwrap();
}

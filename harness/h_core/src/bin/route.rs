//! C18: executes the operations of specs/Route.tla on the real swimos_route crate.
//!
//! One case = a sequence of operations on concrete strings (the check module concretises the
//! abstract symbols of the TLA+ data model before sending them); every operation answers with the
//! complete result of the real call(s), so the check can compare them with what the specification
//! expects and evaluate the laws over what was really observed.
//!
//!   parse    p            RoutePattern::parse_str                      -> ok / offset, scheme, abs, parameters()
//!   apply    p m|vals     RoutePattern::apply (map given, or values by position of parameters()), then
//!                         unapply_str / unapply_route_uri on the produced route (round trip)
//!   unapply  p u          RouteUri::from_str, unapply_str, unapply_route_uri (twice, fresh objects), and
//!                         apply(unapply(u)): the route regenerated from the bindings
//!   amb      p q          RoutePattern::are_ambiguous in both orders
//!   table    ps us        the PlaneBuilder::build loop (pairwise are_ambiguous, i < j) and the
//!                         Routes::find_route loop (first pattern whose unapply_route_uri is Ok),
//!                         over the real RoutePattern functions; also every matching index
//!   server   ps           (feature swimos_server_app) the real ServerBuilder::add_route.. / build():
//!                         accepted, or the AmbiguousRoutes error PlaneBuilder::build produced
use serde_json::{json, Map, Value};
use std::collections::HashMap;
use std::str::FromStr;
use swimos_route::{RoutePattern, RouteUri};

fn map_json(m: &HashMap<String, String>) -> Value {
    let mut o = Map::new();
    for (k, v) in m {
        o.insert(k.clone(), Value::String(v.clone()));
    }
    Value::Object(o)
}

fn opt_map(r: Result<HashMap<String, String>, swimos_route::UnapplyError>) -> Value {
    match r {
        Ok(m) => map_json(&m),
        Err(_) => Value::Null,
    }
}

fn parse_offset(e: &swimos_route::ParseError) -> Value {
    // ParseError's field is private; its Display is "Parsing route pattern failed at offset N."
    let s = e.to_string();
    let digits: String = s
        .trim_end_matches('.')
        .chars()
        .rev()
        .take_while(|c| c.is_ascii_digit())
        .collect::<String>()
        .chars()
        .rev()
        .collect();
    digits.parse::<u64>().map(Value::from).unwrap_or(Value::Null)
}

fn do_parse(p: &str) -> Value {
    match RoutePattern::parse_str(p) {
        Ok(pat) => {
            let params: Vec<&str> = pat.parameters().collect();
            json!({"ok": true, "scheme": pat.scheme_str(), "abs": pat.has_absolute_path(),
                   "params": params, "display": pat.to_string()})
        }
        Err(e) => json!({"ok": false, "off": parse_offset(&e)}),
    }
}

fn do_apply(p: &str, m: &Value, vals: &Value) -> Value {
    let pat = match RoutePattern::parse_str(p) {
        Ok(pat) => pat,
        Err(_) => return json!({"bad": "pattern"}),
    };
    let mut params = HashMap::new();
    if let Some(o) = m.as_object() {
        for (k, v) in o {
            params.insert(k.clone(), v.as_str().unwrap_or("").to_string());
        }
    }
    // positional values: keyed by the names the pattern itself reports (null = leave out)
    if let Some(vals) = vals.as_array() {
        for (name, v) in pat.parameters().zip(vals.iter()) {
            if let Some(v) = v.as_str() {
                params.insert(name.to_string(), v.to_string());
            }
        }
    }
    let m_used = map_json(&params);
    let mut out = do_apply_inner(&pat, &params);
    out["m_used"] = m_used;
    out
}

fn do_apply_inner(pat: &RoutePattern, params: &HashMap<String, String>) -> Value {
    match pat.apply(params) {
        Ok(route) => {
            let uri = RouteUri::from_str(&route);
            let (uri_ok, path, uscheme) = match &uri {
                Ok(u) => (true, Value::String(u.path().to_string()), json!(u.scheme())),
                Err(_) => (false, Value::Null, Value::Null),
            };
            let rt = opt_map(pat.unapply_str(&route));
            let rt2 = match &uri {
                Ok(u) => opt_map(pat.unapply_route_uri(u)),
                Err(_) => Value::Null,
            };
            json!({"r": route, "uri_ok": uri_ok, "path": path, "uscheme": uscheme, "rt": rt, "rt_uri": rt2})
        }
        Err(e) => {
            // ApplyError's fields are private: "Failed to populate '<p>', missing parameters: a, b."
            let s = e.to_string();
            let tail = s.rsplit("missing parameters: ").next().unwrap_or("");
            json!({"missing": tail.trim_end_matches('.')})
        }
    }
}

fn do_unapply(p: &str, u: &str) -> Value {
    let pat = match RoutePattern::parse_str(p) {
        Ok(pat) => pat,
        Err(_) => return json!({"bad": "pattern"}),
    };
    let s = opt_map(pat.unapply_str(u));
    let uri = RouteUri::from_str(u);
    let (uri_ok, r, path, scheme) = match &uri {
        Ok(uri) => (
            true,
            opt_map(pat.unapply_route_uri(uri)),
            Value::String(uri.path().to_string()),
            json!(uri.scheme()),
        ),
        Err(_) => (false, Value::Null, Value::Null, Value::Null),
    };
    // "matching depends on the URI alone": fresh pattern object, fresh URI object (TryFrom<String>
    // is a second construction path), a clone, and a repeated call must all agree.
    let pat2 = RoutePattern::parse(p.chars()).expect("second parse");
    let again = [
        opt_map(pat2.unapply_str(u)),
        opt_map(pat.clone().unapply_str(u)),
        opt_map(pat.unapply_str(u)),
        match RouteUri::try_from(u.to_string()) {
            Ok(uri2) => opt_map(pat2.unapply_route_uri(&uri2)),
            Err(_) => Value::Null,
        },
    ];
    let stable = again.iter().all(|x| *x == s) && r == s;
    // the other direction of the inverse: apply(unapply(u)) - the route regenerated from the bindings
    let re = match pat.unapply_str(u) {
        Ok(b) => match pat.apply(&b) {
            Ok(route) => json!(route),
            Err(e) => json!({"apply_error": e.to_string()}),
        },
        Err(_) => Value::Null,
    };
    json!({"uri_ok": uri_ok, "s": s, "r": r, "stable": stable, "path": path, "uscheme": scheme, "re": re})
}

fn do_amb(p: &str, q: &str) -> Value {
    match (RoutePattern::parse_str(p), RoutePattern::parse_str(q)) {
        (Ok(a), Ok(b)) => json!({"lr": RoutePattern::are_ambiguous(&a, &b),
                                 "rl": RoutePattern::are_ambiguous(&b, &a),
                                 "pp": RoutePattern::are_ambiguous(&a, &a),
                                 "qq": RoutePattern::are_ambiguous(&b, &b)}),
        _ => json!({"bad": "pattern"}),
    }
}

fn do_table(ps: &[Value], us: &[Value]) -> Value {
    let mut pats = vec![];
    for p in ps {
        match RoutePattern::parse_str(p.as_str().unwrap_or("")) {
            Ok(pat) => pats.push(pat),
            Err(_) => return json!({"bad": "pattern"}),
        }
    }
    // PlaneBuilder::build (server/swimos_server_app/src/plane.rs): every i < j with are_ambiguous.
    let mut bad = std::collections::BTreeSet::new();
    for i in 0..pats.len() {
        for j in (i + 1)..pats.len() {
            if RoutePattern::are_ambiguous(&pats[i], &pats[j]) {
                bad.insert(i);
                bad.insert(j);
            }
        }
    }
    // Routes::find_route (server/runtime/mod.rs): first pattern whose unapply_route_uri is Ok.
    let mut res = vec![];
    for u in us {
        let u = u.as_str().unwrap_or("");
        match RouteUri::from_str(u) {
            Ok(uri) => {
                let all: Vec<usize> = pats
                    .iter()
                    .enumerate()
                    .filter(|(_, p)| p.unapply_route_uri(&uri).is_ok())
                    .map(|(i, _)| i)
                    .collect();
                let first = pats
                    .iter()
                    .enumerate()
                    .find_map(|(i, p)| p.unapply_route_uri(&uri).ok().map(|b| (i, b)));
                match first {
                    Some((i, b)) => res.push(json!({"uri_ok": true, "all": all, "first": i, "b": map_json(&b)})),
                    None => res.push(json!({"uri_ok": true, "all": all, "first": Value::Null, "b": Value::Null})),
                }
            }
            Err(_) => res.push(json!({"uri_ok": false, "all": [], "first": Value::Null, "b": Value::Null})),
        }
    }
    json!({"accepted": bad.is_empty(), "amb": bad.into_iter().collect::<Vec<_>>(), "res": res})
}

/// The real server: ServerBuilder::add_route for every pattern, then ServerBuilder::build, whose first
/// step is PlaneBuilder::build (server/swimos_server_app/src/plane.rs).  Only compiled with
/// `--features swimos_server_app` (the server crate is heavy; the other h_core binaries do not need it).
#[cfg(feature = "swimos_server_app")]
mod server {
    use futures::future::BoxFuture;
    use serde_json::{json, Value};
    use std::collections::HashMap;
    use swimos_api::agent::{Agent, AgentConfig, AgentContext, AgentInitResult};
    use swimos_route::{RoutePattern, RouteUri};
    use swimos_server_app::{ServerBuilder, ServerBuilderError};

    struct DummyAgent;

    impl Agent for DummyAgent {
        fn run(
            &self,
            _route: RouteUri,
            _route_params: HashMap<String, String>,
            _config: AgentConfig,
            _context: Box<dyn AgentContext + Send>,
        ) -> BoxFuture<'static, AgentInitResult> {
            panic!("Not runnable.");
        }
    }

    pub fn do_server(ps: &[Value]) -> Value {
        let mut builder = ServerBuilder::with_plane_name("plane");
        for p in ps {
            match RoutePattern::parse_str(p.as_str().unwrap_or("")) {
                Ok(pat) => builder = builder.add_route(pat, DummyAgent),
                Err(_) => return json!({"bad": "pattern"}),
            }
        }
        let rt = tokio::runtime::Builder::new_current_thread()
            .enable_all()
            .build()
            .expect("runtime");
        match rt.block_on(builder.build()) {
            Ok(_) => json!({"accepted": true}),
            Err(ServerBuilderError::BadRoutes(e)) => json!({"accepted": false, "error": e.to_string()}),
            Err(e) => json!({"other_error": e.to_string()}),
        }
    }
}

#[cfg(not(feature = "swimos_server_app"))]
mod server {
    use serde_json::{json, Value};
    pub fn do_server(_ps: &[Value]) -> Value {
        json!({"unavailable": true})
    }
}

fn run_case(case: &Value) -> Value {
    let acts = case["acts"].as_array().expect("acts");
    let mut obs = Vec::with_capacity(acts.len());
    for a in acts {
        let k = a["k"].as_str().unwrap_or("");
        let p = a["p"].as_str().unwrap_or("");
        let o = match k {
            "parse" => do_parse(p),
            "apply" => do_apply(p, &a["m"], &a["vals"]),
            "unapply" => do_unapply(p, a["u"].as_str().unwrap_or("")),
            "amb" => do_amb(p, a["q"].as_str().unwrap_or("")),
            "table" => do_table(
                a["ps"].as_array().map(|v| v.as_slice()).unwrap_or(&[]),
                a["us"].as_array().map(|v| v.as_slice()).unwrap_or(&[]),
            ),
            "server" => server::do_server(a["ps"].as_array().map(|v| v.as_slice()).unwrap_or(&[])),
            other => json!({"bad": format!("unknown op {}", other)}),
        };
        obs.push(o);
    }
    json!({ "obs": obs })
}

fn main() {
    h_common::drive(run_case);
}

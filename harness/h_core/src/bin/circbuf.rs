//! Binds specs/CircularBuffer.tla to the real circular buffer channel of swimos_sync
//! (swimos_utilities::circular_buffer = /repo/swimos_utilities/swimos_sync/src/circular_buffer/mod.rs).
//!
//! `circbuf`            replays call sequences by hand-polling with counting wakers (no runtime): every public
//!                      call is one step.  A `recvx` step is a poll of the receiver on an empty buffer *during
//!                      which* the sender acts: the poll presents a waker whose `clone` (called by
//!                      AtomicWaker::register, i.e. after the receiver found the buffer empty and before it looks
//!                      at `sender_active`) performs the sender's calls - a deterministic schedule of two
//!                      overlapping calls without touching the code under test.
//! `circbuf stress`     two OS threads (sender, receiver) on one channel with seeded random pauses; every call is
//!                      recorded as an invocation and a response event stamped by a global atomic counter, the
//!                      receiver parks after `pending` until its waker fires (or reports `idle` once the sender
//!                      has finished its script and the waker still has not fired).
use h_common::count_waker;
use serde_json::{json, Value};
use std::future::Future;
use std::mem::ManuallyDrop;
use std::num::NonZeroUsize;
use std::pin::Pin;
use std::sync::atomic::{AtomicBool, AtomicU64, AtomicUsize, Ordering};
use std::sync::{Arc, Mutex};
use std::task::{Context, Poll, RawWaker, RawWakerVTable, Waker};
use futures::Stream;
use swimos_utilities::circular_buffer::{channel, watch_channel, Receiver, Sender};

// ------------------------------------------------------------------------------------------ values

/// A value that reports when the channel (not the harness) drops it.
struct Item {
    v: u64,
    log: Option<Arc<Mutex<Vec<u64>>>>,
}

impl Item {
    fn take(mut self) -> u64 {
        self.log = None;
        self.v
    }
}

impl Drop for Item {
    fn drop(&mut self) {
        if let Some(l) = self.log.take() {
            l.lock().unwrap().push(self.v);
        }
    }
}

// ------------------------------------------------------------------------------------------ hook waker

type Hook = Box<dyn FnOnce() + Send>;

struct HookWaker {
    count: AtomicUsize,
    hook: Mutex<Option<Hook>>,
}

static HOOK_VTABLE: RawWakerVTable = RawWakerVTable::new(hw_clone, hw_wake, hw_wake_by_ref, hw_drop);

unsafe fn hw_clone(p: *const ()) -> RawWaker {
    let arc = ManuallyDrop::new(Arc::from_raw(p as *const HookWaker));
    let h = arc.hook.lock().unwrap().take();
    if let Some(h) = h {
        h();
    }
    let c: Arc<HookWaker> = Arc::clone(&arc);
    RawWaker::new(Arc::into_raw(c) as *const (), &HOOK_VTABLE)
}
unsafe fn hw_wake(p: *const ()) {
    let arc = Arc::from_raw(p as *const HookWaker);
    arc.count.fetch_add(1, Ordering::SeqCst);
}
unsafe fn hw_wake_by_ref(p: *const ()) {
    let arc = ManuallyDrop::new(Arc::from_raw(p as *const HookWaker));
    arc.count.fetch_add(1, Ordering::SeqCst);
}
unsafe fn hw_drop(p: *const ()) {
    drop(Arc::from_raw(p as *const HookWaker));
}

fn hook_waker(h: Hook) -> (Arc<HookWaker>, Waker) {
    let a = Arc::new(HookWaker { count: AtomicUsize::new(0), hook: Mutex::new(Some(h)) });
    let raw = RawWaker::new(Arc::into_raw(a.clone()) as *const (), &HOOK_VTABLE);
    (a, unsafe { Waker::from_raw(raw) })
}

// ------------------------------------------------------------------------------------------ replay

struct SendSide {
    tx: Option<Sender<Item>>,
    sent: u64, // values accepted so far; the next value is sent + 1
}

fn do_send(s: &mut SendSide, log: &Arc<Mutex<Vec<u64>>>) -> Value {
    let v = s.sent + 1;
    let item = Item { v, log: Some(log.clone()) };
    match s.tx.as_mut().expect("send after the sender was dropped").try_send(item) {
        Ok(()) => {
            s.sent = v;
            json!({"r": "ok", "v": v})
        }
        Err(e) => {
            let back = e.0.take();
            if back == v { json!({"r": "err", "v": v}) } else { json!({"r": "err", "v": v, "content": "corrupt"}) }
        }
    }
}

fn poll_rx(rx: &mut Receiver<Item>, api: &str, cx: &mut Context<'_>) -> Value {
    let r = if api == "next" {
        Pin::new(&mut *rx).poll_next(cx)
    } else {
        let mut f = rx.recv();
        Pin::new(&mut f).poll(cx).map(|r| r.ok())
    };
    match r {
        Poll::Pending => json!({"r": "pending"}),
        Poll::Ready(None) => json!({"r": "closed"}),
        Poll::Ready(Some(item)) => json!({"r": "ready", "v": item.take()}),
    }
}

pub fn run_case(case: &Value) -> Value {
    let cap = case["cfg"]["cap"].as_u64().unwrap() as usize;
    let nw = case["cfg"]["nw"].as_u64().unwrap_or(1).max(1) as usize;
    let watch = case["cfg"]["watch"].as_bool().unwrap_or(false);
    let acts = case["acts"].as_array().unwrap();
    let (tx, rx) = if watch && cap == 1 { watch_channel::<Item>() } else { channel::<Item>(NonZeroUsize::new(cap).unwrap()) };
    let side = Arc::new(Mutex::new(SendSide { tx: Some(tx), sent: 0 }));
    let mut rx = Some(rx);
    let dlog: Arc<Mutex<Vec<u64>>> = Arc::new(Mutex::new(Vec::new()));
    let ws: Vec<_> = (0..nw).map(|_| count_waker()).collect();
    let mut obs: Vec<Value> = Vec::with_capacity(acts.len());

    for a in acts {
        let k = a["k"].as_str().unwrap();
        let c0: Vec<usize> = ws.iter().map(|(c, _)| c.get()).collect();
        dlog.lock().unwrap().clear();
        let mut hook_woken = 0usize;
        let mut o = match k {
            "send" => do_send(&mut side.lock().unwrap(), &dlog),
            "recv" => {
                let wi = (a["w"].as_u64().unwrap_or(1).max(1) as usize - 1).min(nw - 1);
                let mut cx = Context::from_waker(&ws[wi].1);
                poll_rx(rx.as_mut().expect("recv after the receiver was dropped"), a["api"].as_str().unwrap_or("recv"), &mut cx)
            }
            "recvx" => {
                // the sender's calls happen inside AtomicWaker::register (waker.clone()) of this poll
                let ns = a["ns"].as_u64().unwrap_or(0);
                let d = a["d"].as_u64().unwrap_or(0) > 0;
                let inner: Arc<Mutex<Vec<Value>>> = Arc::new(Mutex::new(Vec::new()));
                let (side2, dlog2, inner2) = (side.clone(), dlog.clone(), inner.clone());
                let (hw, waker) = hook_waker(Box::new(move || {
                    let mut s = side2.lock().unwrap();
                    for _ in 0..ns {
                        let r = do_send(&mut s, &dlog2);
                        inner2.lock().unwrap().push(r);
                    }
                    if d {
                        s.tx = None;
                        inner2.lock().unwrap().push(json!({"r": "dropped"}));
                    }
                }));
                let mut cx = Context::from_waker(&waker);
                let mut o = poll_rx(rx.as_mut().expect("recv after the receiver was dropped"), a["api"].as_str().unwrap_or("recv"), &mut cx);
                hook_woken = hw.count.load(Ordering::SeqCst);
                let fired = hw.hook.lock().unwrap().is_none();
                let inner_v = inner.lock().unwrap().clone();
                o["fired"] = json!(fired);
                o["sr"] = json!(inner_v);
                o
            }
            "dropS" => {
                side.lock().unwrap().tx = None;
                json!({"r": "done"})
            }
            "dropR" => {
                rx = None;
                json!({"r": "done"})
            }
            other => panic!("bad action {}", other),
        };
        let mut wl: Vec<usize> = (0..nw).filter(|x| ws[*x].0.get() > c0[*x]).map(|x| x + 1).collect();
        let over = (0..nw).any(|x| ws[x].0.get() > c0[x] + 1) || hook_woken > 1;
        if hook_woken > 0 {
            wl.push(nw + 1);
        }
        // the waker that was woken (0: none; -1: more than one, or one more than once)
        o["woke"] = json!(if over || wl.len() > 1 { -1i64 } else if wl.is_empty() { 0 } else { wl[0] as i64 });
        o["wl"] = json!(wl);
        let mut dl = dlog.lock().unwrap().clone();
        dl.sort();
        o["dropped"] = json!(dl);
        obs.push(o);
    }
    json!({ "obs": obs })
}

// ------------------------------------------------------------------------------------------ stress

struct Rng(u64);
impl Rng {
    fn next(&mut self) -> u64 {
        let mut x = self.0;
        x ^= x << 13;
        x ^= x >> 7;
        x ^= x << 17;
        self.0 = x;
        x
    }
    fn pause(&mut self, heavy: u64) {
        let r = self.next();
        match r % 8 {
            0..=2 => {}
            3 | 4 => {
                for _ in 0..((r >> 8) % 64) {
                    std::hint::spin_loop();
                }
            }
            5 => {
                for _ in 0..((r >> 8) % (200 * heavy + 1)) {
                    std::hint::spin_loop();
                }
            }
            6 => std::thread::yield_now(),
            _ => {
                for _ in 0..((r >> 8) % (2000 * heavy + 1)) {
                    std::hint::spin_loop();
                }
            }
        }
    }
}

fn start_line(b: &AtomicUsize) {
    b.fetch_add(1, Ordering::SeqCst);
    while b.load(Ordering::SeqCst) < 2 {
        std::hint::spin_loop();
    }
}

struct DoneGuard(Arc<AtomicBool>);
impl Drop for DoneGuard {
    fn drop(&mut self) {
        self.0.store(true, Ordering::SeqCst);
    }
}

// event codes: (stamp, thread, code, value)
const INV_SEND: u8 = 1;
const RES_OK: u8 = 2;
const RES_ERR: u8 = 3;
const INV_DROPS: u8 = 4;
const RES_DONE: u8 = 5;
const INV_RECV: u8 = 6;
const RES_READY: u8 = 7;
const RES_PENDING: u8 = 8;
const RES_CLOSED: u8 = 9;
const INV_DROPR: u8 = 10;
const IDLE: u8 = 11;
const CORRUPT: u8 = 12;

fn ev_json(t: &str, code: u8, v: u64) -> Value {
    match code {
        INV_SEND => json!({"k": "inv", "t": t, "op": "send", "v": v}),
        RES_OK => json!({"k": "res", "t": t, "r": "ok"}),
        RES_ERR => json!({"k": "res", "t": t, "r": "err"}),
        INV_DROPS => json!({"k": "inv", "t": t, "op": "dropS"}),
        RES_DONE => json!({"k": "res", "t": t, "r": "done"}),
        INV_RECV => json!({"k": "inv", "t": t, "op": "recv"}),
        RES_READY => json!({"k": "res", "t": t, "r": "ready", "v": v}),
        RES_PENDING => json!({"k": "res", "t": t, "r": "pending"}),
        RES_CLOSED => json!({"k": "res", "t": t, "r": "closed"}),
        INV_DROPR => json!({"k": "inv", "t": t, "op": "dropR"}),
        IDLE => json!({"k": "idle"}),
        _ => json!({"k": "corrupt", "t": t, "v": v}),
    }
}

/// cfg: cap, n (values), mode "drop" | "keep" | "rdrop", after (receiver drops after that many values), seed, api, heavy
fn stress_case(case: &Value) -> Value {
    let cfg = &case["cfg"];
    let cap = cfg["cap"].as_u64().unwrap() as usize;
    let n = cfg["n"].as_u64().unwrap();
    let mode = cfg["mode"].as_str().unwrap_or("drop").to_string();
    let after = cfg["after"].as_u64().unwrap_or(1);
    let seed = cfg["seed"].as_u64().unwrap_or(1);
    let heavy = cfg["heavy"].as_u64().unwrap_or(1);
    let next_api = cfg["api"].as_str().unwrap_or("recv") == "next";
    let watch = cfg["watch"].as_bool().unwrap_or(false);
    let (tx, rx) = if watch && cap == 1 { watch_channel::<u64>() } else { channel::<u64>(NonZeroUsize::new(cap).unwrap()) };
    let clock = Arc::new(AtomicU64::new(1));
    let sender_done = Arc::new(AtomicBool::new(false));
    // a spinning start line: both threads leave it within nanoseconds of each other (an OS barrier wakes the second
    // thread tens of microseconds late - longer than a whole script)
    let barrier = Arc::new(AtomicUsize::new(0));

    let (clock_s, done_s, bar_s, mode_s) = (clock.clone(), sender_done.clone(), barrier.clone(), mode.clone());
    let s = std::thread::spawn(move || {
        let mut tx = Some(tx);
        let mut rng = Rng(seed.wrapping_mul(0x9E3779B97F4A7C15) | 1);
        let mut log: Vec<(u64, u8, u64)> = Vec::with_capacity(64);
        let _guard = DoneGuard(done_s.clone()); // a panic in the code under test must not leave the receiver spinning
        start_line(&bar_s);
        for v in 1..=n {
            rng.pause(heavy);
            let t0 = clock_s.fetch_add(1, Ordering::SeqCst);
            let r = tx.as_mut().unwrap().try_send(v);
            let t1 = clock_s.fetch_add(1, Ordering::SeqCst);
            log.push((t0, INV_SEND, v));
            match r {
                Ok(()) => log.push((t1, RES_OK, 0)),
                Err(e) => log.push((t1, if e.0 == v { RES_ERR } else { CORRUPT }, e.0)),
            }
        }
        if mode_s != "keep" {
            rng.pause(heavy);
            let t0 = clock_s.fetch_add(1, Ordering::SeqCst);
            tx = None;
            let t1 = clock_s.fetch_add(1, Ordering::SeqCst);
            log.push((t0, INV_DROPS, 0));
            log.push((t1, RES_DONE, 0));
        }
        done_s.store(true, Ordering::SeqCst);
        (log, tx)
    });

    let (clock_r, done_r, bar_r) = (clock.clone(), sender_done.clone(), barrier.clone());
    let r = std::thread::spawn(move || {
        let mut rx = Some(rx);
        let mut rng = Rng(seed.wrapping_mul(0xD1B54A32D192ED03) | 1);
        let mut log: Vec<(u64, u8, u64)> = Vec::with_capacity(64);
        let (cnt, waker) = count_waker();
        let mut got = 0u64;
        let mut polls = 0u64;
        start_line(&bar_r);
        loop {
            rng.pause(heavy);
            polls += 1;
            if polls > 10 * n + 50 {
                break; // a receiver that is woken again and again without progress: leave the history as it is
            }
            let c0 = cnt.get();
            let mut cx = Context::from_waker(&waker);
            let t0 = clock_r.fetch_add(1, Ordering::SeqCst);
            let p = if next_api {
                Pin::new(rx.as_mut().unwrap()).poll_next(&mut cx)
            } else {
                let mut f = rx.as_mut().unwrap().recv();
                Pin::new(&mut f).poll(&mut cx).map(|r| r.ok())
            };
            let t1 = clock_r.fetch_add(1, Ordering::SeqCst);
            log.push((t0, INV_RECV, 0));
            match p {
                Poll::Ready(Some(v)) => {
                    log.push((t1, RES_READY, v));
                    got += 1;
                    if mode == "rdrop" && got >= after {
                        rng.pause(heavy);
                        let t0 = clock_r.fetch_add(1, Ordering::SeqCst);
                        rx = None;
                        let t1 = clock_r.fetch_add(1, Ordering::SeqCst);
                        log.push((t0, INV_DROPR, 0));
                        log.push((t1, RES_DONE, 0));
                        break;
                    }
                }
                Poll::Ready(None) => {
                    log.push((t1, RES_CLOSED, 0));
                    break;
                }
                Poll::Pending => {
                    log.push((t1, RES_PENDING, 0));
                    // a task: polled again only after its waker fired.  Every wake-up the sender will ever
                    // cause happens before it sets `sender_done`, so "done and still not woken" is final.
                    let mut idle = false;
                    loop {
                        if cnt.get() > c0 {
                            break;
                        }
                        if done_r.load(Ordering::SeqCst) {
                            if cnt.get() > c0 {
                                break;
                            }
                            idle = true;
                            break;
                        }
                        std::hint::spin_loop();
                        if rng.next() % 64 == 0 {
                            std::thread::yield_now();
                        }
                    }
                    if idle {
                        let t = clock_r.fetch_add(1, Ordering::SeqCst);
                        log.push((t, IDLE, 0));
                        break;
                    }
                }
            }
        }
        (log, rx)
    });

    let (slog, tx_left) = s.join().expect("sender thread");
    let (rlog, rx_left) = r.join().expect("receiver thread");
    drop(rx_left);
    drop(tx_left);
    let mut all: Vec<(u64, &str, u8, u64)> = slog.iter().map(|e| (e.0, "S", e.1, e.2)).chain(rlog.iter().map(|e| (e.0, "R", e.1, e.2))).collect();
    all.sort();
    let events: Vec<Value> = all.iter().map(|e| ev_json(e.1, e.2, e.3)).collect();
    json!({ "events": events })
}

// ------------------------------------------------------------------------------------------ driver

/// Like h_common::drive (one JSON case per stdin line, one result line per case, panics are data), with a watchdog:
/// a call of the code under test that does not return is data too (try_send and the receiver's poll contain loops).
/// The hung case is answered with {"hang": true, "panic": ...} and the process exits with status 3; the caller
/// starts a new process for the remaining cases.  Every result line is flushed.
fn drive_guarded<F: Fn(&Value) -> Value>(f: F) {
    use std::io::{BufRead, Write};
    use std::panic::{catch_unwind, AssertUnwindSafe};
    std::panic::set_hook(Box::new(|_| {}));
    let limit = std::time::Duration::from_secs(std::env::var("CIRCBUF_HANG_SECS").ok().and_then(|s| s.parse().ok()).unwrap_or(20));
    let cur: Arc<Mutex<Option<(Value, std::time::Instant)>>> = Arc::new(Mutex::new(None));
    let cur_w = cur.clone();
    std::thread::spawn(move || loop {
        std::thread::sleep(std::time::Duration::from_millis(100));
        let g = cur_w.lock().unwrap();
        if let Some((id, t0)) = &*g {
            if t0.elapsed() > limit {
                let v = json!({"id": id, "hang": true, "panic": format!("hang: a call of the code under test did not return within {} s", limit.as_secs())});
                let mut out = std::io::stdout().lock();
                serde_json::to_writer(&mut out, &v).unwrap();
                out.write_all(b"\n").unwrap();
                out.flush().unwrap();
                std::process::exit(3);
            }
        }
    });
    let stdin = std::io::stdin();
    for line in stdin.lock().lines() {
        let line = line.expect("stdin");
        if line.trim().is_empty() {
            continue;
        }
        let case: Value = serde_json::from_str(&line).expect("case json");
        let id = case.get("id").cloned().unwrap_or(Value::Null);
        *cur.lock().unwrap() = Some((id.clone(), std::time::Instant::now()));
        let res = catch_unwind(AssertUnwindSafe(|| f(&case)));
        let mut v = match res {
            Ok(v) => v,
            Err(e) => {
                let msg = if let Some(s) = e.downcast_ref::<String>() {
                    s.clone()
                } else if let Some(s) = e.downcast_ref::<&str>() {
                    s.to_string()
                } else {
                    "panic".to_string()
                };
                json!({ "panic": msg })
            }
        };
        v["id"] = id;
        let mut g = cur.lock().unwrap();
        *g = None;
        let mut out = std::io::stdout().lock();
        serde_json::to_writer(&mut out, &v).unwrap();
        out.write_all(b"\n").unwrap();
        out.flush().unwrap();
        drop(out);
        drop(g);
    }
}

fn main() {
    let args: Vec<String> = std::env::args().collect();
    if args.get(1).map(|s| s.as_str()) == Some("stress") {
        drive_guarded(stress_case);
    } else {
        drive_guarded(run_case);
    }
}

//! C15: observation of `swimos_recon::{compare_recon_values, recon_hash}` against
//! `parse_recognize::<Value>` + `Value::eq` on texts generated from specs/ReconCompare.tla.
//!
//!   case   {"id", "texts": [s], "groups": [[i..]], "pairs": [[i,j]], "print": bool, "events": [i..]}
//!   result {"valid": [bool], "hash": ["hex"], "printed": [[standard, compact, pretty] | null],
//!           "groups": [ {"cmp": ["0110.."], "veq": ["01-.."]} ], "pairs": {"cmp": "01..", "veq": "01-.."}}
//!
//! For every group all ORDERED pairs (including a text with itself) are evaluated; row i of "cmp" holds
//! compare_recon_values(texts[g[i]], texts[g[j]]) for j = 0..len, as '0' / '1' ('!' = panicked); "veq" holds
//! parse(a) == parse(b) ('-' when one of the two is not valid Recon).
use serde_json::{json, Value as J};
use std::collections::hash_map::DefaultHasher;
use std::hash::Hasher;
use std::panic::{catch_unwind, AssertUnwindSafe};
use swimos_form::read::{NumericValue, ReadError, ReadEvent, Recognizer, RecognizerReadable};
use swimos_model::Value;
use swimos_recon::parser::parse_recognize;
use swimos_recon::{compare_recon_values, print_recon, print_recon_compact, print_recon_pretty, recon_hash};

/// The stream of parse events of a text (what compare_recon_values iterates over), recorded through the public
/// parse_recognize entry point.  Numbers are written by value (ReadEvent's == compares numbers by value, floats with
/// ==), so two events are equal for the comparator iff their ("k", "v") pairs are equal.
struct Events(Vec<J>);
struct Recorder(Vec<J>);

fn event_json(e: &ReadEvent<'_>) -> J {
    match e {
        ReadEvent::Extant => json!({"k": "prim", "v": "X"}),
        ReadEvent::TextValue(t) => json!({"k": "prim", "v": format!("T{}", t)}),
        ReadEvent::Number(n) => {
            let v = match n {
                NumericValue::Int(i) => format!("N{}", i),
                NumericValue::UInt(i) => format!("N{}", i),
                NumericValue::BigInt(i) => format!("N{}", i),
                NumericValue::BigUint(i) => format!("N{}", i),
                NumericValue::Float(x) => {
                    if x.is_nan() {
                        "Fnan".to_string()
                    } else if *x == 0.0 {
                        "F0".to_string()
                    } else {
                        format!("F{:016x}", x.to_bits())
                    }
                }
            };
            json!({"k": "prim", "v": v})
        }
        ReadEvent::Boolean(b) => json!({"k": "prim", "v": format!("B{}", b)}),
        ReadEvent::Blob(b) => json!({"k": "prim", "v": format!("D{:?}", b)}),
        ReadEvent::StartAttribute(n) => json!({"k": "sa", "v": n.to_string()}),
        ReadEvent::EndAttribute => json!({"k": "ea", "v": ""}),
        ReadEvent::StartBody => json!({"k": "sb", "v": ""}),
        ReadEvent::Slot => json!({"k": "slot", "v": ""}),
        ReadEvent::EndRecord => json!({"k": "er", "v": ""}),
    }
}

impl Recognizer for Recorder {
    type Target = Events;
    fn feed_event(&mut self, input: ReadEvent<'_>) -> Option<Result<Events, ReadError>> {
        self.0.push(event_json(&input));
        None
    }
    fn try_flush(&mut self) -> Option<Result<Events, ReadError>> {
        Some(Ok(Events(std::mem::take(&mut self.0))))
    }
    fn reset(&mut self) {
        self.0.clear()
    }
}

impl RecognizerReadable for Events {
    type Rec = Recorder;
    type AttrRec = Recorder;
    type BodyRec = Recorder;
    fn make_recognizer() -> Recorder {
        Recorder(vec![])
    }
    fn make_attr_recognizer() -> Recorder {
        Recorder(vec![])
    }
    fn make_body_recognizer() -> Recorder {
        Recorder(vec![])
    }
}

fn cmp_char(a: &str, b: &str) -> char {
    match catch_unwind(AssertUnwindSafe(|| compare_recon_values(a, b))) {
        Ok(true) => '1',
        Ok(false) => '0',
        Err(_) => '!',
    }
}

fn veq_char(a: &Option<Value>, b: &Option<Value>) -> char {
    match (a, b) {
        (Some(x), Some(y)) => {
            if x == y {
                '1'
            } else {
                '0'
            }
        }
        _ => '-',
    }
}

fn run_case(case: &J) -> J {
    let texts: Vec<String> = case["texts"].as_array().unwrap().iter().map(|t| t.as_str().unwrap().to_string()).collect();
    let parsed: Vec<Option<Value>> = texts
        .iter()
        .map(|t| catch_unwind(AssertUnwindSafe(|| parse_recognize::<Value>(t.as_str(), false).ok())).unwrap_or(None))
        .collect();
    let valid: Vec<bool> = parsed.iter().map(|p| p.is_some()).collect();
    let hash: Vec<String> = texts
        .iter()
        .map(|t| {
            match catch_unwind(AssertUnwindSafe(|| {
                let mut h = DefaultHasher::new();
                recon_hash(t.as_str(), &mut h);
                h.finish()
            })) {
                Ok(x) => format!("{:016x}", x),
                Err(_) => "panic".to_string(),
            }
        })
        .collect();
    let printed: Vec<J> = if case["print"].as_bool().unwrap_or(false) {
        parsed
            .iter()
            .map(|p| match p {
                Some(v) => json!([format!("{}", print_recon(v)), format!("{}", print_recon_compact(v)), format!("{}", print_recon_pretty(v))]),
                None => J::Null,
            })
            .collect()
    } else {
        vec![]
    };
    // "events": [i..] -> the parse events of those texts (null if the text has none / is invalid)
    let events: Vec<J> = case["events"]
        .as_array()
        .map(|xs| {
            xs.iter()
                .map(|x| {
                    let t = &texts[x.as_u64().unwrap() as usize];
                    match catch_unwind(AssertUnwindSafe(|| parse_recognize::<Events>(t.as_str(), false).ok())) {
                        Ok(Some(ev)) => J::Array(ev.0),
                        _ => J::Null,
                    }
                })
                .collect()
        })
        .unwrap_or_default();
    let mut groups = Vec::new();
    if let Some(gs) = case["groups"].as_array() {
        for g in gs {
            let idx: Vec<usize> = g.as_array().unwrap().iter().map(|x| x.as_u64().unwrap() as usize).collect();
            let mut cmp = Vec::with_capacity(idx.len());
            let mut veq = Vec::with_capacity(idx.len());
            for &i in &idx {
                let mut c = String::with_capacity(idx.len());
                let mut v = String::with_capacity(idx.len());
                for &j in &idx {
                    c.push(cmp_char(&texts[i], &texts[j]));
                    v.push(veq_char(&parsed[i], &parsed[j]));
                }
                cmp.push(c);
                veq.push(v);
            }
            groups.push(json!({"cmp": cmp, "veq": veq}));
        }
    }
    let mut pc = String::new();
    let mut pv = String::new();
    if let Some(ps) = case["pairs"].as_array() {
        for p in ps {
            let i = p[0].as_u64().unwrap() as usize;
            let j = p[1].as_u64().unwrap() as usize;
            pc.push(cmp_char(&texts[i], &texts[j]));
            pv.push(veq_char(&parsed[i], &parsed[j]));
        }
    }
    json!({"valid": valid, "hash": hash, "printed": printed, "groups": groups, "pairs": {"cmp": pc, "veq": pv}, "events": events})
}

fn main() {
    h_common::drive(run_case);
}

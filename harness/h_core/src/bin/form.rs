//! C16 harness: a battery of types implementing `Form` (built-in and derived with the supported
//! attribute combinations) and, for every case generated from specs/FormDoc.tla, the observations
//! of the three representations of a value:
//!
//!   op = "inst"  x := the typed value (built from the serde rendering of the abstract instance)
//!                as_value / into_value, try_from_value / try_convert of it, the three Recon printers
//!                followed by both reading paths, the MessagePack writer followed by the reader
//!   op = "doc"   s := a Recon text (well-formed instance rendering or schema-violating mutant)
//!                direct  = parse_recognize::<T>(s)                     (events from the parser)
//!                via     = parse_recognize::<Value>(s) |> T::try_from_value  (events from the bridge)
//!                conv    = parse_recognize::<Value>(s) |> T::try_convert
//!                mp      = parse_recognize::<Value>(s) |> msgpack |> read_from_msg_pack::<T>
//!   op = "seq"   s1 .. sn: Recon texts decoded one after the other, as length-delimited frames, by ONE
//!                WithLenRecognizerDecoder<T::Rec> (direct) and ONE WithLenRecognizerDecoder<Value::Rec>
//!                followed by try_from_value / try_convert (via): the recognizers are reused after reset()
//!
//! Typed values are reported as canonical serde_json (maps sorted), model values in the tagged
//! encoding {"k": kind, "v": ..} / {"k":"rec","attrs":[{"n","v"}],"items":[{"key"?, "v"}]}.
use bytes::{BufMut, BytesMut};
use serde::de::DeserializeOwned;
use serde::{Deserialize, Serialize};
use serde_json::{json, Value as J};
use std::collections::HashMap;
use swimos_form::write::StructuralWritable;
use swimos_form::{Form, Tag};
use swimos_model::{Attr, Item, Text, Value};
use swimos_msgpack::{read_from_msg_pack, MsgPackInterpreter};
use bytes::Buf;
use swimos_form::read::RecognizerReadable;
use swimos_recon::parser::parse_recognize;
use swimos_recon::WithLenRecognizerDecoder;
use tokio_util::codec::Decoder;
use swimos_recon::{print_recon, print_recon_compact, print_recon_pretty};

// ------------------------------------------------------------------ model values <-> json

fn val_to_json(v: &Value) -> J {
    match v {
        Value::Extant => json!({"k": "extant"}),
        Value::Int32Value(n) => json!({"k": "i32", "v": n}),
        Value::Int64Value(n) => json!({"k": "i64", "v": n}),
        Value::UInt32Value(n) => json!({"k": "u32", "v": n}),
        Value::UInt64Value(n) => json!({"k": "u64", "v": n}),
        Value::Float64Value(x) => json!({"k": "f64", "v": x}),
        Value::BooleanValue(b) => json!({"k": "bool", "v": b}),
        Value::BigInt(n) => json!({"k": "bigint", "v": n.to_string()}),
        Value::BigUint(n) => json!({"k": "biguint", "v": n.to_string()}),
        Value::Text(t) => json!({"k": "text", "v": t.as_str()}),
        Value::Data(b) => json!({"k": "data", "v": format!("{:?}", b.as_ref())}),
        Value::Record(attrs, items) => {
            let a: Vec<J> = attrs
                .iter()
                .map(|Attr { name, value }| json!({"n": name.as_str(), "v": val_to_json(value)}))
                .collect();
            let i: Vec<J> = items
                .iter()
                .map(|it| match it {
                    Item::ValueItem(v) => json!({"v": val_to_json(v)}),
                    Item::Slot(k, v) => json!({"key": val_to_json(k), "v": val_to_json(v)}),
                })
                .collect();
            json!({"k": "rec", "attrs": a, "items": i})
        }
    }
}

fn json_to_val(j: &J) -> Value {
    match j["k"].as_str().expect("value kind") {
        "extant" => Value::Extant,
        "i32" => Value::Int32Value(j["v"].as_i64().unwrap() as i32),
        "i64" => Value::Int64Value(j["v"].as_i64().unwrap()),
        "u32" => Value::UInt32Value(j["v"].as_u64().unwrap() as u32),
        "u64" => Value::UInt64Value(j["v"].as_u64().unwrap()),
        "f64" => Value::Float64Value(match &j["v"] {
            J::String(s) => s.parse().unwrap(),
            o => o.as_f64().unwrap(),
        }),
        "bool" => Value::BooleanValue(j["v"].as_bool().unwrap()),
        "text" => Value::Text(Text::new(j["v"].as_str().unwrap())),
        "rec" => {
            let attrs = j["attrs"]
                .as_array()
                .map(|a| {
                    a.iter()
                        .map(|x| Attr::of((x["n"].as_str().unwrap(), json_to_val(&x["v"]))))
                        .collect()
                })
                .unwrap_or_default();
            let items = j["items"]
                .as_array()
                .map(|a| {
                    a.iter()
                        .map(|x| {
                            if x.get("key").is_some() {
                                Item::Slot(json_to_val(&x["key"]), json_to_val(&x["v"]))
                            } else {
                                Item::ValueItem(json_to_val(&x["v"]))
                            }
                        })
                        .collect()
                })
                .unwrap_or_default();
            Value::Record(attrs, items)
        }
        k => panic!("unknown value kind {}", k),
    }
}

mod valjson {
    use super::*;
    use serde::{Deserializer, Serializer};
    pub fn serialize<S: Serializer>(v: &Value, s: S) -> Result<S::Ok, S::Error> {
        val_to_json(v).serialize(s)
    }
    pub fn deserialize<'de, D: Deserializer<'de>>(d: D) -> Result<Value, D::Error> {
        let j = J::deserialize(d)?;
        Ok(json_to_val(&j))
    }
}

// ------------------------------------------------------------------ the battery

macro_rules! form_ty {
    ($($item:item)*) => { $( #[derive(Form, Serialize, Deserialize, Clone, Debug, PartialEq)] $item )* };
}

#[derive(Tag, Serialize, Deserialize, Clone, Copy, Debug, PartialEq, Eq)]
enum Level {
    Info,
    Warn,
}

form_ty! {
    struct Unit;

    struct Simple { first: i32 }

    struct Two { first: i32, second: String }

    struct Tup(i32, String);

    #[form(tag = "renamed")]
    struct Renamed { #[form(name = "alpha")] a: i32, b: bool }

    struct TupRen(#[form(name = "first")] i32, #[form(name = "second")] String);

    struct WithAttr { #[form(attr)] in_attr: bool, first: i32, second: String }

    struct TwoAttrs { #[form(attr)] a: i32, #[form(attr)] b: Option<String>, c: i32 }

    struct HdrBody { #[form(header_body)] hb: i32, first: String }

    struct HdrSlots { #[form(header)] h1: i32, #[form(header)] h2: Option<String>, first: i32 }

    struct HdrOpt { #[form(header)] h: Option<i32>, x: i32 }

    struct AttrVec { #[form(attr)] v: Vec<i32>, x: i32 }

    struct AttrMap { #[form(attr)] m: HashMap<String, i32>, x: i32 }

    struct HdrBoth { #[form(header_body)] hb: bool, #[form(header)] h1: i32, first: String }

    struct HdrVec { #[form(header_body)] hb: Vec<bool>, first: i32 }

    struct HdrNest { #[form(header_body)] hb: Simple, x: i32 }

    struct BodyVec { n: i32, #[form(body)] b: Vec<i32> }

    struct BodyStr { h: i32, #[form(body)] b: String }

    struct BodyNest { #[form(header)] h: i32, #[form(body)] b: Two }

    struct Skippy { #[form(skip)] #[serde(skip)] sk: i32, name: String }

    struct SkipTup(#[form(skip)] #[serde(skip)] i32, String);

    struct Opt { a: Option<i32>, b: i32 }

    struct Coll { xs: Vec<i32>, m: HashMap<String, i32> }

    struct Gen<T> { g: T, n: i32 }

    struct Nested { inner: Two, #[form(attr)] at: Simple, o: Option<Two> }

    struct VecNest { xs: Vec<Two>, m: HashMap<i32, Simple> }

    #[form(newtype)]
    struct NewT(i32);

    #[form(newtype)]
    struct NewS { inner: Two }

    struct TagField { #[form(tag)] level: Level, v: i32 }

    enum Shape {
        Dot,
        #[form(tag = "circle")]
        Circle { r: i32 },
        Pair(i32, String),
        Labelled { #[form(header)] k: i32, #[form(body)] v: String },
        WithAt { #[form(attr)] a: bool, x: i32 },
    }

    enum Op<K, V> {
        #[form(tag = "update")]
        Update(#[form(header, name = "key")] K, #[form(body)] V),
        #[form(tag = "remove")]
        Remove(#[form(header, name = "key")] K),
        #[form(tag = "clear")]
        Clear,
    }

    #[form(convention = "kebab", fields_convention = "camel")]
    struct ConvStruct { first_field: i32, second_field: String }

    #[form(convention = "kebab", fields_convention = "camel")]
    enum ConvEnum { FirstVar, SecondVar { my_field: i32 } }

    struct Nums { f: f64, u: u32, l: i64, w: u64 }

    #[form(newtype)]
    struct ModelVal(#[serde(with = "valjson")] Value);

    struct WithValue { #[form(attr)] #[serde(with = "valjson")] a: Value, #[serde(with = "valjson")] v: Value, n: i32 }

    struct BodyValue { n: i32, #[form(body)] #[serde(with = "valjson")] body: Value }

    struct HdrValue { #[form(header_body)] #[serde(with = "valjson")] hb: Value, x: i32 }

    struct CollHdr { xs: Vec<HdrBoth>, o: Option<HdrBoth> }
}

// ------------------------------------------------------------------ observations

fn typed<T: Serialize, E: std::fmt::Display>(r: Result<T, E>) -> J {
    match r {
        Ok(v) => json!({"ok": true, "v": serde_json::to_value(&v).expect("serde")}),
        Err(e) => json!({"ok": false, "err": e.to_string()}),
    }
}

fn msgpack_of<W: StructuralWritable>(w: &W) -> Result<BytesMut, String> {
    let mut buffer = BytesMut::with_capacity(256);
    {
        let mut writer = (&mut buffer).writer();
        let interp = MsgPackInterpreter::new(&mut writer);
        w.write_with(interp).map_err(|e| e.to_string())?;
    }
    Ok(buffer)
}

fn read_paths<T: Form + Serialize>(s: &str, want_val: bool) -> J {
    let direct = parse_recognize::<T>(s, false);
    let pv = parse_recognize::<Value>(s, false);
    let mut o = json!({ "direct": typed(direct) });
    match pv {
        Ok(v) => {
            o["parse_ok"] = json!(true);
            o["via"] = typed(T::try_from_value(&v));
            o["conv"] = typed(T::try_convert(v.clone()));
            o["mp"] = match msgpack_of(&v) {
                Ok(buf) => {
                    let mut bytes = buf.freeze();
                    typed(read_from_msg_pack::<T, _>(&mut bytes))
                }
                Err(e) => json!({"ok": false, "err": format!("write: {}", e)}),
            };
            if want_val {
                o["val"] = val_to_json(&v);
            }
        }
        Err(e) => {
            o["parse_ok"] = json!(false);
            o["parse_err"] = json!(e.to_string());
        }
    }
    o
}

/// Feeds one length-delimited frame to a (reused) decoder.
fn decode_frame<D: Decoder>(dec: &mut D, text: &str) -> Result<Option<D::Item>, D::Error> {
    let mut buf = BytesMut::with_capacity(text.len() + 8);
    buf.put_u64(text.len() as u64);
    buf.put_slice(text.as_bytes());
    let mut last = Ok(None);
    // the decoder may need several calls to get through header / body / trailing bytes of the frame
    for _ in 0..4 {
        let before = buf.remaining();
        last = dec.decode(&mut buf);
        match &last {
            Ok(None) if buf.remaining() < before && buf.has_remaining() => continue,
            _ => break,
        }
    }
    last
}

fn run_seq<T: Form + Serialize>(case: &J) -> J {
    let texts: Vec<&str> = case["texts"].as_array().expect("texts").iter().map(|t| t.as_str().unwrap()).collect();
    let mut direct = WithLenRecognizerDecoder::new(T::make_recognizer());
    let mut model = WithLenRecognizerDecoder::new(Value::make_recognizer());
    let mut frames = Vec::new();
    for s in texts {
        let d = match decode_frame(&mut direct, s) {
            Ok(Some(v)) => typed::<T, String>(Ok(v)),
            Ok(None) => json!({"ok": false, "err": "incomplete"}),
            Err(e) => json!({"ok": false, "err": e.to_string()}),
        };
        let mut o = json!({ "direct": d, "text": s, "fresh": typed(parse_recognize::<T>(s, false)) });
        match decode_frame(&mut model, s) {
            Ok(Some(v)) => {
                o["parse_ok"] = json!(true);
                o["via"] = typed(T::try_from_value(&v));
                o["conv"] = typed(T::try_convert(v));
            }
            Ok(None) => {
                o["parse_ok"] = json!(false);
                o["parse_err"] = json!("incomplete");
            }
            Err(e) => {
                o["parse_ok"] = json!(false);
                o["parse_err"] = json!(e.to_string());
            }
        }
        frames.push(o);
    }
    json!({ "frames": frames })
}

fn run<T: Form + Serialize + DeserializeOwned + Clone>(case: &J) -> J {
    match case["op"].as_str().unwrap_or("doc") {
        "seq" => run_seq::<T>(case),
        "inst" => {
            let x: T = match serde_json::from_value(case["x"].clone()) {
                Ok(x) => x,
                Err(e) => return json!({"tool_error": format!("instance does not deserialize: {}", e)}),
            };
            let xj = serde_json::to_value(&x).expect("serde");
            let asv = x.as_value();
            let intov = x.clone().into_value();
            let mut o = json!({
                "x": xj,
                "asv": val_to_json(&asv),
                "into_same": val_to_json(&intov) == val_to_json(&asv),
                "rt": typed(T::try_from_value(&asv)),
                "rtc": typed(T::try_convert(asv.clone())),
            });
            // the three printers, each followed by both reading paths
            let texts = [
                format!("{}", print_recon(&x)),
                format!("{}", print_recon_compact(&x)),
                format!("{}", print_recon_pretty(&x)),
            ];
            o["print_model_same"] = json!(format!("{}", print_recon(&asv)) == texts[0]);
            let mut pr = Vec::new();
            for s in texts.iter() {
                let mut r = read_paths::<T>(s, false);
                // is the parser's model of the printed text exactly as_value(x)? (if not: a printer /
                // parser matter, property C09; the composite law is then not demanded)
                let same = parse_recognize::<Value>(s.as_str(), false).map(|v| v == asv).unwrap_or(false);
                r["val_is_asv"] = json!(same);
                r["text"] = json!(s);
                pr.push(r);
            }
            o["printed"] = J::Array(pr);
            // MessagePack: typed writer -> typed reader ; typed writer -> model reader
            match msgpack_of(&x) {
                Ok(buf) => {
                    o["mp_len"] = json!(buf.len());
                    let same = msgpack_of(&asv).map(|b| b == buf).unwrap_or(false);
                    o["mp_model_same_bytes"] = json!(same);
                    let mut b1 = buf.clone().freeze();
                    o["mp"] = typed(read_from_msg_pack::<T, _>(&mut b1));
                    o["mp_rest"] = json!(b1.len());
                    let mut b2 = buf.freeze();
                    o["mp_as_model"] = match read_from_msg_pack::<Value, _>(&mut b2) {
                        Ok(v) => json!({"ok": true, "v": val_to_json(&v), "eq": v == asv}),
                        Err(e) => json!({"ok": false, "err": e.to_string()}),
                    };
                }
                Err(e) => {
                    o["mp"] = json!({"ok": false, "err": format!("write: {}", e)});
                }
            }
            o
        }
        _ => {
            let s = case["text"].as_str().expect("text");
            let built = case.get("built");
            let want_val = case.get("want_val").and_then(|b| b.as_bool()).unwrap_or(false);
            let mut o = read_paths::<T>(s, want_val || built.is_some());
            if let Some(b) = built {
                // the abstract document built directly as a model value (no text involved)
                let v = json_to_val(b);
                o["built"] = typed(T::try_from_value(&v));
                o["built_is_parsed"] = json!(o.get("val").map(|p| *p == val_to_json(&v)).unwrap_or(false));
                if !want_val {
                    o.as_object_mut().unwrap().remove("val");
                }
            }
            o
        }
    }
}

macro_rules! battery {
    ($($name:literal => $ty:ty),* $(,)?) => {
        fn dispatch(ty: &str, case: &J) -> J {
            match ty {
                $($name => run::<$ty>(case),)*
                _ => json!({"tool_error": format!("unknown battery type {}", ty)}),
            }
        }
        const TYPES: &[&str] = &[$($name),*];
    };
}

battery! {
    "Unit" => Unit, "Simple" => Simple, "Two" => Two, "Tup" => Tup, "Renamed" => Renamed, "TupRen" => TupRen,
    "WithAttr" => WithAttr, "TwoAttrs" => TwoAttrs, "HdrBody" => HdrBody, "HdrSlots" => HdrSlots, "HdrOpt" => HdrOpt, "AttrVec" => AttrVec, "AttrMap" => AttrMap,
    "HdrBoth" => HdrBoth, "HdrVec" => HdrVec, "HdrNest" => HdrNest, "BodyVec" => BodyVec, "BodyStr" => BodyStr,
    "BodyNest" => BodyNest, "Skippy" => Skippy, "SkipTup" => SkipTup, "Opt" => Opt, "Coll" => Coll,
    "GenI" => Gen<i32>, "GenS" => Gen<String>, "GenTwo" => Gen<Two>, "GenOptTwo" => Gen<Option<Two>>,
    "Nested" => Nested, "VecNest" => VecNest,
    "NewT" => NewT, "NewS" => NewS, "TagField" => TagField, "Shape" => Shape,
    "OpSI" => Op<String, i32>, "OpITwo" => Op<i32, Two>, "ConvStruct" => ConvStruct, "ConvEnum" => ConvEnum,
    "Nums" => Nums, "ModelVal" => ModelVal, "WithValue" => WithValue, "BodyValue" => BodyValue, "HdrValue" => HdrValue,
    "i32" => i32, "u64" => u64, "f64" => f64, "bool" => bool, "String" => String,
    "VecI" => Vec<i32>, "OptI" => Option<i32>, "MapSI" => HashMap<String, i32>, "PairIS" => (i32, String),
    "OptTwo" => Option<Two>, "VecTwo" => Vec<Two>, "VecOptI" => Vec<Option<i32>>,
    // recognizer reuse inside collections
    "VecHdrBoth" => Vec<HdrBoth>, "MapHdrBoth" => HashMap<i32, HdrBoth>, "OptHdrBoth" => Option<HdrBoth>, "CollHdr" => CollHdr,
    "VecHdrSlots" => Vec<HdrSlots>, "VecHdrBody" => Vec<HdrBody>, "VecHdrVec" => Vec<HdrVec>, "VecHdrNest" => Vec<HdrNest>,
    "VecHdrOpt" => Vec<HdrOpt>, "VecWithAttr" => Vec<WithAttr>, "VecTwoAttrs" => Vec<TwoAttrs>, "VecBodyNest" => Vec<BodyNest>,
    "VecBodyStr" => Vec<BodyStr>, "VecShape" => Vec<Shape>, "VecOpSI" => Vec<Op<String, i32>>, "VecTagField" => Vec<TagField>,
    "VecTup" => Vec<Tup>, "VecOpt" => Vec<Opt>, "MapShape" => HashMap<String, Shape>,
    "VecAttrVec" => Vec<AttrVec>, "VecAttrMap" => Vec<AttrMap>,
}

fn run_case(case: &J) -> J {
    if case["op"] == "types" {
        return json!({ "types": TYPES });
    }
    dispatch(case["ty"].as_str().expect("ty"), case)
}

fn main() {
    h_common::drive(run_case);
}

//! C16 harness: a battery of types implementing `Form` (built-in and derived with the supported
//! attribute combinations) and, for every case generated from specs/FormDoc.tla, the observations
//! of the three representations of a value:
//!
//!   op = "inst"  x := the typed value (built from the serde rendering of the abstract instance)
//!                as_value / into_value, try_from_value / try_convert of it, the three Recon printers
//!                followed by both reading paths, the MessagePack writer followed by the reader
//!   op = "doc"   s := a Recon text (well-formed instance rendering or schema-violating mutant)
//!                direct  = parse_recognize::<T>(s)                     (events from the parser)
//!                via     = parse_recognize::<Value>(s) |> T::try_from_value  (events from the bridge)
//!                conv    = parse_recognize::<Value>(s) |> T::try_convert
//!                mp      = parse_recognize::<Value>(s) |> msgpack |> read_from_msg_pack::<T>
//!   op = "seq"   s1 .. sn: Recon texts decoded one after the other, as length-delimited frames, by ONE
//!                WithLenRecognizerDecoder<T::Rec> (direct) and ONE WithLenRecognizerDecoder<Value::Rec>
//!                followed by try_from_value / try_convert (via): the recognizers are reused after reset()
//!
//! Typed values are reported as canonical serde_json (maps sorted), model values in the tagged
//! encoding {"k": kind, "v": ..} / {"k":"rec","attrs":[{"n","v"}],"items":[{"key"?, "v"}]}.
use bytes::{BufMut, BytesMut};
use serde::{Deserialize, Serialize};
use serde_json::{json, Value as J};
use std::collections::HashMap;
use std::hash::Hash;
use std::num::NonZeroUsize;
use std::sync::Arc;
use std::time::Duration;
use swimos_utilities::future::{Quantity, RetryStrategy};
use swimos_utilities::routing::RouteUri;
use swimos_form::write::StructuralWritable;
use swimos_form::{Form, Tag};
use swimos_model::{Attr, BigInt, BigUint, Blob, Item, Text, Timestamp, Value};
use swimos_msgpack::{read_from_msg_pack, MsgPackInterpreter};
use bytes::Buf;
use swimos_form::read::RecognizerReadable;
use swimos_recon::parser::parse_recognize;
use swimos_recon::WithLenRecognizerDecoder;
use tokio_util::codec::Decoder;
use swimos_recon::{print_recon, print_recon_compact, print_recon_pretty};

// ------------------------------------------------------------------ model values <-> json

fn val_to_json(v: &Value) -> J {
    match v {
        Value::Extant => json!({"k": "extant"}),
        Value::Int32Value(n) => json!({"k": "i32", "v": n}),
        Value::Int64Value(n) => json!({"k": "i64", "v": n}),
        Value::UInt32Value(n) => json!({"k": "u32", "v": n}),
        Value::UInt64Value(n) => json!({"k": "u64", "v": n}),
        Value::Float64Value(x) => json!({"k": "f64", "v": x}),
        Value::BooleanValue(b) => json!({"k": "bool", "v": b}),
        Value::BigInt(n) => json!({"k": "bigint", "v": n.to_string()}),
        Value::BigUint(n) => json!({"k": "biguint", "v": n.to_string()}),
        Value::Text(t) => json!({"k": "text", "v": t.as_str()}),
        Value::Data(b) => json!({"k": "data", "v": b.as_ref()}),
        Value::Record(attrs, items) => {
            let a: Vec<J> = attrs
                .iter()
                .map(|Attr { name, value }| json!({"n": name.as_str(), "v": val_to_json(value)}))
                .collect();
            let i: Vec<J> = items
                .iter()
                .map(|it| match it {
                    Item::ValueItem(v) => json!({"v": val_to_json(v)}),
                    Item::Slot(k, v) => json!({"key": val_to_json(k), "v": val_to_json(v)}),
                })
                .collect();
            json!({"k": "rec", "attrs": a, "items": i})
        }
    }
}

fn bytes_of(j: &J) -> Vec<u8> {
    j.as_array().expect("bytes").iter().map(|b| b.as_u64().unwrap() as u8).collect()
}

fn json_to_val(j: &J) -> Value {
    match j["k"].as_str().expect("value kind") {
        "extant" => Value::Extant,
        "i32" => Value::Int32Value(j["v"].as_i64().unwrap() as i32),
        "i64" => Value::Int64Value(j["v"].as_i64().unwrap()),
        "u32" => Value::UInt32Value(j["v"].as_u64().unwrap() as u32),
        "u64" => Value::UInt64Value(j["v"].as_u64().unwrap()),
        "f64" => Value::Float64Value(match &j["v"] {
            J::String(s) => s.parse().unwrap(),
            o => o.as_f64().unwrap(),
        }),
        "bool" => Value::BooleanValue(j["v"].as_bool().unwrap()),
        "text" => Value::Text(Text::new(j["v"].as_str().unwrap())),
        "bigint" => Value::BigInt(j["v"].as_str().unwrap().parse().unwrap()),
        "biguint" => Value::BigUint(j["v"].as_str().unwrap().parse().unwrap()),
        "data" => Value::Data(Blob::from_vec(bytes_of(&j["v"]))),
        "rec" => {
            let attrs = j["attrs"]
                .as_array()
                .map(|a| {
                    a.iter()
                        .map(|x| Attr::of((x["n"].as_str().unwrap(), json_to_val(&x["v"]))))
                        .collect()
                })
                .unwrap_or_default();
            let items = j["items"]
                .as_array()
                .map(|a| {
                    a.iter()
                        .map(|x| {
                            if x.get("key").is_some() {
                                Item::Slot(json_to_val(&x["key"]), json_to_val(&x["v"]))
                            } else {
                                Item::ValueItem(json_to_val(&x["v"]))
                            }
                        })
                        .collect()
                })
                .unwrap_or_default();
            Value::Record(attrs, items)
        }
        k => panic!("unknown value kind {}", k),
    }
}

mod valjson {
    use super::*;
    use serde::{Deserializer, Serializer};
    pub fn serialize<S: Serializer>(v: &Value, s: S) -> Result<S::Ok, S::Error> {
        val_to_json(v).serialize(s)
    }
    pub fn deserialize<'de, D: Deserializer<'de>>(d: D) -> Result<Value, D::Error> {
        let j = J::deserialize(d)?;
        Ok(json_to_val(&j))
    }
}

// ------------------------------------------------------------------ typed values <-> json

/// The json rendering of a typed value (its identity in the observation table) and its inverse.
trait TJ: Sized {
    fn tj_to(&self) -> J;
    fn tj_from(j: &J) -> Result<Self, String>;
    /// as the key of a json object
    fn tj_key(&self) -> String {
        match self.tj_to() {
            J::String(s) => s,
            o => serde_json::to_string(&o).unwrap(),
        }
    }
    fn tj_from_key(k: &str) -> Result<Self, String> {
        let j: J = serde_json::from_str(k).map_err(|e| e.to_string())?;
        Self::tj_from(&j)
    }
}

macro_rules! tj_serde {
    ($($ty:ty),* $(,)?) => { $(
        impl TJ for $ty {
            fn tj_to(&self) -> J { serde_json::to_value(self).expect("serde") }
            fn tj_from(j: &J) -> Result<Self, String> { serde_json::from_value(j.clone()).map_err(|e| e.to_string()) }
        }
    )* };
}
tj_serde!(i32, i64, u32, u64, usize, f64, bool);

macro_rules! tj_string_like {
    ($ty:ty, $to:expr, $from:expr) => {
        impl TJ for $ty {
            fn tj_to(&self) -> J { J::String($to(self)) }
            fn tj_from(j: &J) -> Result<Self, String> { Self::tj_from_key(j.as_str().ok_or("string expected")?) }
            fn tj_from_key(k: &str) -> Result<Self, String> { $from(k) }
        }
    };
}
tj_string_like!(String, |s: &String| s.clone(), |k: &str| Ok::<_, String>(k.to_string()));
tj_string_like!(Text, |s: &Text| s.as_str().to_string(), |k: &str| Ok::<_, String>(Text::new(k)));
tj_string_like!(BigInt, |s: &BigInt| s.to_string(), |k: &str| k.parse::<BigInt>().map_err(|e| e.to_string()));
tj_string_like!(BigUint, |s: &BigUint| s.to_string(), |k: &str| k.parse::<BigUint>().map_err(|e| e.to_string()));

impl TJ for Vec<u8> {
    fn tj_to(&self) -> J { json!(self) }
    fn tj_from(j: &J) -> Result<Self, String> { Ok(bytes_of(j)) }
}
impl TJ for Box<[u8]> {
    fn tj_to(&self) -> J { json!(self.as_ref()) }
    fn tj_from(j: &J) -> Result<Self, String> { Ok(bytes_of(j).into_boxed_slice()) }
}
impl TJ for () {
    fn tj_to(&self) -> J { J::Null }
    fn tj_from(_: &J) -> Result<Self, String> { Ok(()) }
}
impl TJ for Timestamp {
    fn tj_to(&self) -> J { json!(self.micros()) }
    fn tj_from(j: &J) -> Result<Self, String> {
        use chrono::TimeZone;
        let m = j.as_i64().ok_or("micros expected")?;
        chrono::Utc.timestamp_micros(m).single().map(Timestamp::from).ok_or_else(|| "bad timestamp".to_string())
    }
}
impl TJ for NonZeroUsize {
    fn tj_to(&self) -> J { json!(self.get()) }
    fn tj_from(j: &J) -> Result<Self, String> { NonZeroUsize::new(j.as_u64().ok_or("number expected")? as usize).ok_or_else(|| "zero".to_string()) }
}
impl TJ for Blob {
    fn tj_to(&self) -> J { json!(self.as_ref()) }
    fn tj_from(j: &J) -> Result<Self, String> { Ok(Blob::from_vec(bytes_of(j))) }
}
impl TJ for Value {
    fn tj_to(&self) -> J { val_to_json(self) }
    fn tj_from(j: &J) -> Result<Self, String> { Ok(json_to_val(j)) }
}
impl<T: TJ> TJ for Quantity<T> {
    fn tj_to(&self) -> J { match self { Quantity::Finite(t) => t.tj_to(), Quantity::Infinite => json!("infinite") } }
    fn tj_from(j: &J) -> Result<Self, String> {
        if j == "infinite" { Ok(Quantity::Infinite) } else { T::tj_from(j).map(Quantity::Finite) }
    }
}
/// the values the constructors of RetryStrategy build (its transient counters are not part of the form)
impl TJ for RetryStrategy {
    fn tj_to(&self) -> J {
        match self {
            RetryStrategy::Interval(s) => match &s.delay {
                Some(d) => json!({"Interval": {"delay": d.tj_to(), "retries": s.retry.tj_to()}}),
                None => json!({"Immediate": {"retries": s.retry.tj_to()}}),
            },
            RetryStrategy::Exponential(s) => json!({"Exponential": {"max_interval": s.max_interval.tj_to(), "max_backoff": s.max_backoff.tj_to()}}),
            RetryStrategy::None(_) => json!("None"),
        }
    }
    fn tj_from(j: &J) -> Result<Self, String> {
        if j == "None" {
            Ok(RetryStrategy::none())
        } else if let Some(o) = j.get("Immediate") {
            Ok(RetryStrategy::immediate(NonZeroUsize::tj_from(&o["retries"])?))
        } else if let Some(o) = j.get("Interval") {
            Ok(RetryStrategy::interval(Duration::tj_from(&o["delay"])?, Quantity::<NonZeroUsize>::tj_from(&o["retries"])?))
        } else if let Some(o) = j.get("Exponential") {
            Ok(RetryStrategy::exponential(Duration::tj_from(&o["max_interval"])?, Quantity::<Duration>::tj_from(&o["max_backoff"])?))
        } else {
            Err("retry strategy".to_string())
        }
    }
}
tj_string_like!(RouteUri, |s: &RouteUri| s.as_str().to_string(), |k: &str| k.parse::<RouteUri>().map_err(|e| format!("{:?}", e)));
impl TJ for std::time::Duration {
    fn tj_to(&self) -> J { json!({"secs": self.as_secs(), "nanos": self.subsec_nanos()}) }
    fn tj_from(j: &J) -> Result<Self, String> {
        Ok(std::time::Duration::new(j["secs"].as_u64().ok_or("secs")?, j["nanos"].as_u64().ok_or("nanos")? as u32))
    }
}
impl<P: TJ> TJ for Arc<P> {
    fn tj_to(&self) -> J { self.as_ref().tj_to() }
    fn tj_from(j: &J) -> Result<Self, String> { P::tj_from(j).map(Arc::new) }
}
impl<P: TJ> TJ for Option<P> {
    fn tj_to(&self) -> J { self.as_ref().map(|p| p.tj_to()).unwrap_or(J::Null) }
    fn tj_from(j: &J) -> Result<Self, String> { if j.is_null() { Ok(None) } else { P::tj_from(j).map(Some) } }
}
impl<P: TJ> TJ for Vec<P> {
    fn tj_to(&self) -> J { J::Array(self.iter().map(|p| p.tj_to()).collect()) }
    fn tj_from(j: &J) -> Result<Self, String> { j.as_array().ok_or("array expected")?.iter().map(P::tj_from).collect() }
}
impl<A: TJ, B: TJ> TJ for (A, B) {
    fn tj_to(&self) -> J { json!([self.0.tj_to(), self.1.tj_to()]) }
    fn tj_from(j: &J) -> Result<Self, String> { Ok((A::tj_from(&j[0])?, B::tj_from(&j[1])?)) }
}
impl<K: TJ + Eq + Hash, V: TJ> TJ for HashMap<K, V> {
    fn tj_to(&self) -> J { J::Object(self.iter().map(|(k, v)| (k.tj_key(), v.tj_to())).collect()) }
    fn tj_from(j: &J) -> Result<Self, String> {
        j.as_object().ok_or("object expected")?.iter().map(|(k, v)| Ok((K::tj_from_key(k)?, V::tj_from(v)?))).collect()
    }
}

// the position battery: a field of every primitive kind P in every structural position
macro_rules! pos_ty {
    ($name:ident { $($(#[$m:meta])* $f:ident : $t:ty),* }) => {
        #[derive(Form, Clone, Debug, PartialEq)]
        struct $name<P> { $($(#[$m])* $f: $t),* }
        impl<P: TJ> TJ for $name<P> {
            fn tj_to(&self) -> J { json!({ $(stringify!($f): self.$f.tj_to()),* }) }
            fn tj_from(j: &J) -> Result<Self, String> { Ok($name { $($f: <$t as TJ>::tj_from(&j[stringify!($f)])?),* }) }
        }
    };
}
pos_ty!(SlotP { v: P });
pos_ty!(AttrP { #[form(attr)] a: P, x: i32 });
pos_ty!(HdrP { #[form(header)] h: P, x: i32 });
pos_ty!(HBodyP { #[form(header_body)] hb: P, x: i32 });
pos_ty!(BodyP { n: i32, #[form(body)] b: P });

// ------------------------------------------------------------------ the battery

macro_rules! form_ty {
    ($($item:item)*) => { $( #[derive(Form, Serialize, Deserialize, Clone, Debug, PartialEq)] $item )* };
}

#[derive(Tag, Serialize, Deserialize, Clone, Copy, Debug, PartialEq, Eq)]
enum Level {
    Info,
    Warn,
}

form_ty! {
    struct Unit;

    struct Simple { first: i32 }

    struct Two { first: i32, second: String }

    struct Tup(i32, String);

    #[form(tag = "renamed")]
    struct Renamed { #[form(name = "alpha")] a: i32, b: bool }

    struct TupRen(#[form(name = "first")] i32, #[form(name = "second")] String);

    struct WithAttr { #[form(attr)] in_attr: bool, first: i32, second: String }

    struct TwoAttrs { #[form(attr)] a: i32, #[form(attr)] b: Option<String>, c: i32 }

    struct HdrBody { #[form(header_body)] hb: i32, first: String }

    struct HdrSlots { #[form(header)] h1: i32, #[form(header)] h2: Option<String>, first: i32 }

    struct HdrOpt { #[form(header)] h: Option<i32>, x: i32 }

    struct AttrVec { #[form(attr)] v: Vec<i32>, x: i32 }

    struct AttrMap { #[form(attr)] m: HashMap<String, i32>, x: i32 }

    struct HdrBoth { #[form(header_body)] hb: bool, #[form(header)] h1: i32, first: String }

    struct HdrVec { #[form(header_body)] hb: Vec<bool>, first: i32 }

    struct HdrNest { #[form(header_body)] hb: Simple, x: i32 }

    struct BodyVec { n: i32, #[form(body)] b: Vec<i32> }

    struct BodyStr { h: i32, #[form(body)] b: String }

    struct BodyNest { #[form(header)] h: i32, #[form(body)] b: Two }

    struct Skippy { #[form(skip)] #[serde(skip)] sk: i32, name: String }

    struct SkipTup(#[form(skip)] #[serde(skip)] i32, String);

    struct Opt { a: Option<i32>, b: i32 }

    struct Coll { xs: Vec<i32>, m: HashMap<String, i32> }

    struct Gen<T> { g: T, n: i32 }

    struct Nested { inner: Two, #[form(attr)] at: Simple, o: Option<Two> }

    struct VecNest { xs: Vec<Two>, m: HashMap<i32, Simple> }

    #[form(newtype)]
    struct NewT(i32);

    #[form(newtype)]
    struct NewS { inner: Two }

    struct TagField { #[form(tag)] level: Level, v: i32 }

    enum Shape {
        Dot,
        #[form(tag = "circle")]
        Circle { r: i32 },
        Pair(i32, String),
        Labelled { #[form(header)] k: i32, #[form(body)] v: String },
        WithAt { #[form(attr)] a: bool, x: i32 },
    }

    enum Op<K, V> {
        #[form(tag = "update")]
        Update(#[form(header, name = "key")] K, #[form(body)] V),
        #[form(tag = "remove")]
        Remove(#[form(header, name = "key")] K),
        #[form(tag = "clear")]
        Clear,
    }

    #[form(convention = "kebab", fields_convention = "camel")]
    struct ConvStruct { first_field: i32, second_field: String }

    #[form(convention = "kebab", fields_convention = "camel")]
    enum ConvEnum { FirstVar, SecondVar { my_field: i32 } }

    struct Nums { f: f64, u: u32, l: i64, w: u64 }

    #[form(newtype)]
    struct ModelVal(#[serde(with = "valjson")] Value);

    struct WithValue { #[form(attr)] #[serde(with = "valjson")] a: Value, #[serde(with = "valjson")] v: Value, n: i32 }

    struct BodyValue { n: i32, #[form(body)] #[serde(with = "valjson")] body: Value }

    struct HdrValue { #[form(header_body)] #[serde(with = "valjson")] hb: Value, x: i32 }

    struct CollHdr { xs: Vec<HdrBoth>, o: Option<HdrBoth> }

    struct AttrTup { #[form(attr)] a: (i32, String), x: i32 }

    struct HBodyTup { #[form(header_body)] hb: (i32, String), x: i32 }
}

tj_serde!(
    Unit, Simple, Two, Tup, Renamed, TupRen, WithAttr, TwoAttrs, HdrBody, HdrSlots, HdrOpt, AttrVec, AttrMap, HdrBoth, HdrVec,
    HdrNest, BodyVec, BodyStr, BodyNest, Skippy, SkipTup, Opt, Coll, Gen<i32>, Gen<String>, Gen<Two>, Gen<Option<Two>>, Nested,
    VecNest, NewT, NewS, TagField, Shape, Op<String, i32>, Op<i32, Two>, ConvStruct, ConvEnum, Nums, ModelVal, WithValue,
    BodyValue, HdrValue, CollHdr, AttrTup, HBodyTup
);

/// Option<Option<P>> as json: serde (and the generic TJ impl) render Some(None) and None alike, these do not.
fn optopt_to<P: TJ>(v: &Option<Option<P>>) -> J {
    match v {
        None => J::Null,
        Some(inner) => json!({ "some": inner.tj_to() }),
    }
}

fn optopt_from<P: TJ>(j: &J) -> Result<Option<Option<P>>, String> {
    if j.is_null() {
        Ok(None)
    } else {
        Option::<P>::tj_from(&j["some"]).map(Some)
    }
}

// the combination battery (generated, together with specs/FormDocCombos.tla, by checks/c16.py)
include!("../form_combos.rs");

// ------------------------------------------------------------------ observations

fn typed<T: TJ, E: std::fmt::Display>(r: Result<T, E>) -> J {
    match r {
        Ok(v) => json!({"ok": true, "v": v.tj_to()}),
        Err(e) => json!({"ok": false, "err": e.to_string()}),
    }
}

fn msgpack_of<W: StructuralWritable>(w: &W) -> Result<BytesMut, String> {
    let mut buffer = BytesMut::with_capacity(256);
    {
        let mut writer = (&mut buffer).writer();
        let interp = MsgPackInterpreter::new(&mut writer);
        w.write_with(interp).map_err(|e| e.to_string())?;
    }
    Ok(buffer)
}

fn read_paths<T: Form + TJ>(s: &str, want_val: bool) -> J {
    let direct = parse_recognize::<T>(s, false);
    let pv = parse_recognize::<Value>(s, false);
    let mut o = json!({ "direct": typed(direct) });
    match pv {
        Ok(v) => {
            o["parse_ok"] = json!(true);
            o["via"] = typed(T::try_from_value(&v));
            o["conv"] = typed(T::try_convert(v.clone()));
            o["mp"] = match msgpack_of(&v) {
                Ok(buf) => {
                    let mut bytes = buf.freeze();
                    typed(read_from_msg_pack::<T, _>(&mut bytes))
                }
                Err(e) => json!({"ok": false, "err": format!("write: {}", e)}),
            };
            if want_val {
                o["val"] = val_to_json(&v);
            }
        }
        Err(e) => {
            o["parse_ok"] = json!(false);
            o["parse_err"] = json!(e.to_string());
        }
    }
    o
}

/// Feeds one length-delimited frame to a (reused) decoder.
fn decode_frame<D: Decoder>(dec: &mut D, text: &str) -> Result<Option<D::Item>, D::Error> {
    let mut buf = BytesMut::with_capacity(text.len() + 8);
    buf.put_u64(text.len() as u64);
    buf.put_slice(text.as_bytes());
    let mut last = Ok(None);
    // the decoder may need several calls to get through header / body / trailing bytes of the frame
    for _ in 0..4 {
        let before = buf.remaining();
        last = dec.decode(&mut buf);
        match &last {
            Ok(None) if buf.remaining() < before && buf.has_remaining() => continue,
            _ => break,
        }
    }
    last
}

fn run_seq<T: Form + TJ>(case: &J) -> J {
    let texts: Vec<&str> = case["texts"].as_array().expect("texts").iter().map(|t| t.as_str().unwrap()).collect();
    let mut direct = WithLenRecognizerDecoder::new(T::make_recognizer());
    let mut model = WithLenRecognizerDecoder::new(Value::make_recognizer());
    let mut frames = Vec::new();
    for s in texts {
        let d = match decode_frame(&mut direct, s) {
            Ok(Some(v)) => typed::<T, String>(Ok(v)),
            Ok(None) => json!({"ok": false, "err": "incomplete"}),
            Err(e) => json!({"ok": false, "err": e.to_string()}),
        };
        let mut o = json!({ "direct": d, "text": s, "fresh": typed(parse_recognize::<T>(s, false)) });
        match decode_frame(&mut model, s) {
            Ok(Some(v)) => {
                o["parse_ok"] = json!(true);
                o["via"] = typed(T::try_from_value(&v));
                o["conv"] = typed(T::try_convert(v));
            }
            Ok(None) => {
                o["parse_ok"] = json!(false);
                o["parse_err"] = json!("incomplete");
            }
            Err(e) => {
                o["parse_ok"] = json!(false);
                o["parse_err"] = json!(e.to_string());
            }
        }
        frames.push(o);
    }
    json!({ "frames": frames })
}

fn run<T: Form + TJ + Clone>(case: &J) -> J {
    match case["op"].as_str().unwrap_or("doc") {
        "seq" => run_seq::<T>(case),
        "inst" => {
            let x: T = match T::tj_from(&case["x"]) {
                Ok(x) => x,
                Err(e) => return json!({"tool_error": format!("instance does not deserialize: {}", e)}),
            };
            let xj = x.tj_to();
            let asv = x.as_value();
            let intov = x.clone().into_value();
            let mut o = json!({
                "x": xj,
                "asv": val_to_json(&asv),
                "into_same": val_to_json(&intov) == val_to_json(&asv),
                "rt": typed(T::try_from_value(&asv)),
                "rtc": typed(T::try_convert(asv.clone())),
            });
            // the three printers, each followed by both reading paths
            let texts = [
                format!("{}", print_recon(&x)),
                format!("{}", print_recon_compact(&x)),
                format!("{}", print_recon_pretty(&x)),
            ];
            o["print_model_same"] = json!(format!("{}", print_recon(&asv)) == texts[0]);
            let mut pr = Vec::new();
            for s in texts.iter() {
                let mut r = read_paths::<T>(s, false);
                // is the parser's model of the printed text exactly as_value(x)? (if not: a printer /
                // parser matter, property C09; the composite law is then not demanded)
                let same = parse_recognize::<Value>(s.as_str(), false).map(|v| v == asv).unwrap_or(false);
                r["val_is_asv"] = json!(same);
                r["text"] = json!(s);
                pr.push(r);
            }
            o["printed"] = J::Array(pr);
            // MessagePack: typed writer -> typed reader ; typed writer -> model reader
            // typed value -> bridge -> typed value, without materialising the model (informative)
            o["typed_bridge"] = typed(T::try_read_from(&x));
            o["typed_bridge_into"] = typed(T::try_transform(x.clone()));
            match msgpack_of(&x) {
                Ok(buf) => {
                    o["mp_len"] = json!(buf.len());
                    // the marker of the record body (a record starts with the map of its attributes: fixmap 0 if none)
                    o["mp_first"] = json!(if buf.first() == Some(&0x80) { buf.get(1).copied() } else { None });
                    // the consuming writer (write_into) must produce the same bytes
                    let mut into_buf = BytesMut::with_capacity(256);
                    let into_ok = {
                        let mut writer = (&mut into_buf).writer();
                        x.clone().write_into(MsgPackInterpreter::new(&mut writer)).is_ok()
                    };
                    o["mp_into_same"] = json!(into_ok && into_buf == buf);
                    let same = msgpack_of(&asv).map(|b| b == buf).unwrap_or(false);
                    o["mp_model_same_bytes"] = json!(same);
                    let mut b1 = buf.clone().freeze();
                    o["mp"] = typed(read_from_msg_pack::<T, _>(&mut b1));
                    o["mp_rest"] = json!(b1.len());
                    let mut b2 = buf.freeze();
                    o["mp_as_model"] = match read_from_msg_pack::<Value, _>(&mut b2) {
                        Ok(v) => json!({"ok": true, "v": val_to_json(&v), "eq": v == asv}),
                        Err(e) => json!({"ok": false, "err": e.to_string()}),
                    };
                }
                Err(e) => {
                    o["mp"] = json!({"ok": false, "err": format!("write: {}", e)});
                }
            }
            o
        }
        _ => {
            let s = case["text"].as_str().expect("text");
            let built = case.get("built");
            let want_val = case.get("want_val").and_then(|b| b.as_bool()).unwrap_or(false);
            let mut o = read_paths::<T>(s, want_val || built.is_some());
            if let Some(b) = built {
                // the abstract document built directly as a model value (no text involved)
                let v = json_to_val(b);
                o["built"] = typed(T::try_from_value(&v));
                // (model equality: the numeric kind the parser chooses for a literal does not matter)
                o["built_is_parsed"] = json!(parse_recognize::<Value>(s, false).map(|p| p == v).unwrap_or(false));
                if !want_val {
                    o.as_object_mut().unwrap().remove("val");
                }
            }
            o
        }
    }
}

macro_rules! battery {
    ($($name:literal => $ty:ty),* $(,)?) => {
        fn dispatch(ty: &str, case: &J) -> J {
            match ty {
                $($name => run::<$ty>(case),)*
                _ => json!({"tool_error": format!("unknown battery type {}", ty)}),
            }
        }
        const TYPES: &[&str] = &[$($name),*];
    };
}

battery! {
    "Unit" => Unit, "Simple" => Simple, "Two" => Two, "Tup" => Tup, "Renamed" => Renamed, "TupRen" => TupRen,
    "WithAttr" => WithAttr, "TwoAttrs" => TwoAttrs, "HdrBody" => HdrBody, "HdrSlots" => HdrSlots, "HdrOpt" => HdrOpt, "AttrVec" => AttrVec, "AttrMap" => AttrMap,
    "HdrBoth" => HdrBoth, "HdrVec" => HdrVec, "HdrNest" => HdrNest, "BodyVec" => BodyVec, "BodyStr" => BodyStr,
    "BodyNest" => BodyNest, "Skippy" => Skippy, "SkipTup" => SkipTup, "Opt" => Opt, "Coll" => Coll,
    "GenI" => Gen<i32>, "GenS" => Gen<String>, "GenTwo" => Gen<Two>, "GenOptTwo" => Gen<Option<Two>>,
    "Nested" => Nested, "VecNest" => VecNest,
    "NewT" => NewT, "NewS" => NewS, "TagField" => TagField, "Shape" => Shape,
    "OpSI" => Op<String, i32>, "OpITwo" => Op<i32, Two>, "ConvStruct" => ConvStruct, "ConvEnum" => ConvEnum,
    "Nums" => Nums, "ModelVal" => ModelVal, "WithValue" => WithValue, "BodyValue" => BodyValue, "HdrValue" => HdrValue,
    "i32" => i32, "u64" => u64, "f64" => f64, "bool" => bool, "String" => String,
    "VecI" => Vec<i32>, "OptI" => Option<i32>, "MapSI" => HashMap<String, i32>, "PairIS" => (i32, String),
    "OptTwo" => Option<Two>, "VecTwo" => Vec<Two>, "VecOptI" => Vec<Option<i32>>,
    // recognizer reuse inside collections
    "VecHdrBoth" => Vec<HdrBoth>, "MapHdrBoth" => HashMap<i32, HdrBoth>, "OptHdrBoth" => Option<HdrBoth>, "CollHdr" => CollHdr,
    "VecHdrSlots" => Vec<HdrSlots>, "VecHdrBody" => Vec<HdrBody>, "VecHdrVec" => Vec<HdrVec>, "VecHdrNest" => Vec<HdrNest>,
    "VecHdrOpt" => Vec<HdrOpt>, "VecWithAttr" => Vec<WithAttr>, "VecTwoAttrs" => Vec<TwoAttrs>, "VecBodyNest" => Vec<BodyNest>,
    "VecBodyStr" => Vec<BodyStr>, "VecShape" => Vec<Shape>, "VecOpSI" => Vec<Op<String, i32>>, "VecTagField" => Vec<TagField>,
    "VecTup" => Vec<Tup>, "VecOpt" => Vec<Opt>, "MapShape" => HashMap<String, Shape>,
    "VecAttrVec" => Vec<AttrVec>, "VecAttrMap" => Vec<AttrMap>, "Duration" => std::time::Duration,
    "WMap15" => HashMap<i32, i32>, "WMap16" => HashMap<i32, i32>, "WMap17" => HashMap<i32, i32>, "WMap300" => HashMap<i32, i32>,
    "WVec15" => Vec<i32>, "WVec16" => Vec<i32>, "WVec300" => Vec<i32>, "WStr" => String, "WBlob" => Vec<u8>,
    "RetryStrategy" => RetryStrategy, "Value" => Value, "AttrTup" => AttrTup, "HBodyTup" => HBodyTup,
}

/// "<position>_<kind>": the position battery
fn run_pos<P: Form + TJ + Clone>(pos: &str, case: &J) -> J {
    match pos {
        "Plain" => run::<P>(case),
        "Slot" => run::<SlotP<P>>(case),
        "Attr" => run::<AttrP<P>>(case),
        "Hdr" => run::<HdrP<P>>(case),
        "HBody" => run::<HBodyP<P>>(case),
        "Body" => run::<BodyP<P>>(case),
        "Vec" => run::<Vec<P>>(case),
        "Opt" => run::<Option<P>>(case),
        "MapVal" => run::<HashMap<String, P>>(case),
        _ => json!({"tool_error": format!("unknown position {}", pos)}),
    }
}

fn run_key<P: Form + TJ + Clone + Eq + Hash>(pos: &str, case: &J) -> J {
    if pos == "MapKey" {
        run::<HashMap<P, i32>>(case)
    } else {
        run_pos::<P>(pos, case)
    }
}

fn dispatch_pos(pos: &str, kind: &str, case: &J) -> J {
    match kind {
        "i32" => run_key::<i32>(pos, case),
        "i64" => run_key::<i64>(pos, case),
        "u32" => run_key::<u32>(pos, case),
        "u64" => run_key::<u64>(pos, case),
        "usize" => run_key::<usize>(pos, case),
        "nzusize" => run_key::<NonZeroUsize>(pos, case),
        "uri" => run_key::<RouteUri>(pos, case),
        "mblob" => run_pos::<Blob>(pos, case),
        "retry" => run_pos::<RetryStrategy>(pos, case),
        "f64" => run_pos::<f64>(pos, case),
        "bool" => run_key::<bool>(pos, case),
        "string" => run_key::<String>(pos, case),
        "text" => run_key::<Text>(pos, case),
        "bigint" => run_key::<BigInt>(pos, case),
        "biguint" => run_key::<BigUint>(pos, case),
        "blob" => run_key::<Vec<u8>>(pos, case),
        "boxblob" => run_key::<Box<[u8]>>(pos, case),
        "unit" => run_key::<()>(pos, case),
        "timestamp" => run_pos::<Timestamp>(pos, case),
        "arc" => run_pos::<Arc<i32>>(pos, case),
        "duration" => run_pos::<std::time::Duration>(pos, case),
        _ => json!({"tool_error": format!("unknown kind {}", kind)}),
    }
}

fn run_case(case: &J) -> J {
    if case["op"] == "types" {
        return json!({ "types": TYPES });
    }
    let ty = case["ty"].as_str().expect("ty");
    if let Some(r) = dispatch_combo(ty, case) {
        return r;
    }
    if let Some((pos, kind)) = ty.split_once('_') {
        return dispatch_pos(pos, kind, case);
    }
    dispatch(ty, case)
}

fn main() {
    h_common::drive(run_case);
}

//! Replays call sequences generated from specs/ByteChannel.tla on the real byte channel,
//! polling by hand with counting wakers (no runtime): every call is one atomic step of the
//! implementation, so a replayed path is an exact schedule.
use h_common::count_waker;
use serde_json::{json, Value};
use std::future::Future;
use std::num::NonZeroUsize;
use std::pin::Pin;
use std::task::{Context, Poll};
use swimos_byte_channel::{byte_channel, RunWithBudget};
use tokio::io::{AsyncRead, AsyncWrite, ReadBuf};

fn byte_at(pos: usize) -> u8 {
    ((pos * 7 + 3) % 251) as u8
}

fn wake_str(r: usize, w: usize) -> &'static str {
    match (r > 0, w > 0) {
        (false, false) => "none",
        (true, false) => "R",
        (false, true) => "W",
        (true, true) => "both",
    }
}

pub fn run_case(case: &Value) -> Value {
    let cap = case["cfg"]["cap"].as_u64().unwrap() as usize;
    let budget = case["cfg"]["budget"].as_u64().unwrap_or(0) as usize;
    let acts = case["acts"].as_array().unwrap();
    let (tx, rx) = byte_channel(NonZeroUsize::new(cap).unwrap());
    let mut tx = Some(tx);
    let mut rx = Some(rx);
    // several wakers per side: a half may be polled with a different waker each time (another task, a timeout)
    let nw = case["cfg"]["nw"].as_u64().unwrap_or(1).max(1) as usize;
    let rws: Vec<_> = (0..nw).map(|_| count_waker()).collect();
    let wws: Vec<_> = (0..nw).map(|_| count_waker()).collect();
    let mut wpos = 0usize;
    let mut rpos = 0usize;
    let mut obs: Vec<Value> = Vec::with_capacity(acts.len());

    let mut i = 0;
    while i < acts.len() {
        // one task poll = the calls up to the next "newpoll", run inside RunWithBudget so the
        // thread-local coop budget is what the model says it is.
        let mut j = i;
        while j < acts.len() && acts[j]["k"] != "newpoll" {
            j += 1;
        }
        let seg = &acts[i..j];
        let b = if budget == 0 { 1_000_000 } else { budget };
        let mut body = std::future::poll_fn(|_outer| {
            for a in seg {
                let k = a["k"].as_str().unwrap();
                let n = a["n"].as_u64().unwrap_or(0) as usize;
                let wi = (a["w"].as_u64().unwrap_or(1).max(1) as usize - 1).min(nw - 1);
                let (rw, ww) = (&rws[wi].1, &wws[wi].1);
                let r0: Vec<usize> = rws.iter().map(|(c, _)| c.get()).collect();
                let w0: Vec<usize> = wws.iter().map(|(c, _)| c.get()).collect();
                let mut o = match k {
                    "read" => {
                        let mut store = vec![0u8; n];
                        let mut buf = ReadBuf::new(&mut store);
                        let mut cx = Context::from_waker(rw);
                        match Pin::new(rx.as_mut().unwrap()).poll_read(&mut cx, &mut buf) {
                            Poll::Pending => json!({"r": "pending"}),
                            Poll::Ready(Ok(())) => {
                                let got = buf.filled();
                                let ok = got.iter().enumerate().all(|(x, b)| *b == byte_at(rpos + x));
                                let c = got.len();
                                rpos += c;
                                if ok { json!({"r": "ready", "c": c}) } else { json!({"r": "ready", "c": c, "content": "corrupt"}) }
                            }
                            Poll::Ready(Err(_)) => json!({"r": "err"}),
                        }
                    }
                    "write" => {
                        let data: Vec<u8> = (0..n).map(|x| byte_at(wpos + x)).collect();
                        let mut cx = Context::from_waker(ww);
                        match Pin::new(tx.as_mut().unwrap()).poll_write(&mut cx, &data) {
                            Poll::Pending => json!({"r": "pending"}),
                            Poll::Ready(Ok(c)) => {
                                wpos += c;
                                json!({"r": "ready", "c": c})
                            }
                            Poll::Ready(Err(_)) => json!({"r": "err"}),
                        }
                    }
                    "flush" => {
                        let mut cx = Context::from_waker(ww);
                        match Pin::new(tx.as_mut().unwrap()).poll_flush(&mut cx) {
                            Poll::Pending => json!({"r": "pending"}),
                            Poll::Ready(Ok(())) => json!({"r": "ready"}),
                            Poll::Ready(Err(_)) => json!({"r": "err"}),
                        }
                    }
                    "shutdown" => {
                        let mut cx = Context::from_waker(ww);
                        match Pin::new(tx.as_mut().unwrap()).poll_shutdown(&mut cx) {
                            Poll::Pending => json!({"r": "pending"}),
                            Poll::Ready(Ok(())) => json!({"r": "ready"}),
                            Poll::Ready(Err(_)) => json!({"r": "err"}),
                        }
                    }
                    "dropR" => {
                        rx = None;
                        json!({"r": "ready"})
                    }
                    "dropW" => {
                        tx = None;
                        json!({"r": "ready"})
                    }
                    other => panic!("bad action {}", other),
                };
                let woke_r: Vec<usize> = (0..nw).filter(|x| rws[*x].0.get() > r0[*x]).map(|x| x + 1).collect();
                let woke_w: Vec<usize> = (0..nw).filter(|x| wws[*x].0.get() > w0[*x]).map(|x| x + 1).collect();
                let (dr, dw) = (woke_r.len(), woke_w.len());
                // A Pending whose caller (the waker it presented) was woken during the call is a cooperative yield.
                let side_woken = match k {
                    "read" => woke_r.contains(&(wi + 1)),
                    _ => woke_w.contains(&(wi + 1)),
                };
                if o["r"] == "pending" && side_woken {
                    o["r"] = json!("yield");
                }
                o["wake"] = json!(wake_str(dr, dw));
                // the waker that was woken (0: none; -1: more than one)
                let all: Vec<usize> = woke_r.iter().chain(woke_w.iter()).copied().collect();
                o["wid"] = json!(if all.is_empty() { 0i64 } else if all.len() == 1 { all[0] as i64 } else { -1 });
                if nw > 1 {
                    o["wokeR"] = json!(woke_r);
                    o["wokeW"] = json!(woke_w);
                }
                obs.push(o);
            }
            Poll::Ready(())
        });
        {
            let (_c, w) = count_waker();
            let mut cx = Context::from_waker(&w);
            let fut = RunWithBudget::with_budget(NonZeroUsize::new(b).unwrap(), &mut body);
            let mut fut = std::pin::pin!(fut);
            let _ = fut.as_mut().poll(&mut cx);
        }
        if j < acts.len() {
            obs.push(json!({})); // the newpoll step itself has nothing to observe
        }
        i = j + 1;
    }
    json!({ "obs": obs, "written": wpos, "read": rpos })
}

fn main() {
    let args: Vec<String> = std::env::args().collect();
    if args.get(1).map(|s| s.as_str()) == Some("stress") {
        stress(&args[2..]);
    } else {
        h_common::drive(run_case);
    }
}

fn stress(_args: &[String]) {
    eprintln!("not yet implemented");
    std::process::exit(2);
}

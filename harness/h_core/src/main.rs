//! Harness member for the dependency-light crates (byte channel, codecs, recon, route, model).
//! Protocol: ndjson on stdin, one case per line; ndjson on stdout, one result per line.
mod bytechan;
mod common;

fn main() {
    let args: Vec<String> = std::env::args().collect();
    let which = args.get(1).map(|s| s.as_str()).unwrap_or("");
    match which {
        "bytechan" => common::drive(bytechan::run_case),
        "bytechan-stress" => bytechan::stress(&args[2..]),
        _ => {
            eprintln!("unknown component {:?}", which);
            std::process::exit(2);
        }
    }
}

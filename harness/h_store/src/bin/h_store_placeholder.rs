fn main() {}

------------------------------ MODULE ValueOrder ------------------------------
(***************************************************************************)
(* C19 - swimos_model::Value: equality, ordering and hashing are mutually  *)
(* coherent.                                                               *)
(*                                                                         *)
(* Three parts.                                                            *)
(*                                                                         *)
(*  D  the DATA MODEL: an exact abstract domain of model values.  Numbers  *)
(*     are points  Big(g) + u/2 + t*tiny  on a number line of landmarks    *)
(*     (0, +-2^31, +-2^32, +-2^53, +-2^63, +-2^64, +-2^127, +-2^128,       *)
(*     +-f64::MAX, +-2^1024), so that every kind of number can be placed   *)
(*     AT ITS LIMITS, the same number exists in several kinds, fractions   *)
(*     sit next to integers and to big integers, and IEEE-754 rounding     *)
(*     (`as f64`, to_f64) and comparison (incl. floats closer than         *)
(*     EPSILON) can be computed exactly although TLC only has 32-bit       *)
(*     integers.  Texts,                                                   *)
(*     blobs and nested records differing in one leaf complete the pool.   *)
(*     TLC enumerates the pool (module Gen_ValueOrder); the check          *)
(*     concretises every abstract value (exact decimal / exact bit         *)
(*     pattern) and the harness observes the real Value::{eq,cmp,hash}.    *)
(*                                                                         *)
(*  P  the PROPERTY: the laws of the statement, as operators over an       *)
(*     arbitrary relation table (EqT, CmpT, HashT).  They are evaluated    *)
(*     by TLC over the table OBSERVED on the real code for all pairs and   *)
(*     all triples (module MC_ValueOrder).  Only P raises alarms.          *)
(*                                                                         *)
(*  M  the MECHANISM: an implementation-shaped transcription of            *)
(*     Value::compare (the hand-written case table), PartialEq for Value   *)
(*     and Hash for Value (api/swimos_model/src/value.rs), one CASE arm    *)
(*     per match arm of the code, over the exact domain D.  M tells which  *)
(*     CELL of the table is inconsistent and is compared with the          *)
(*     observed table cell by cell (a difference is MODEL-DRIFT only).     *)
(***************************************************************************)
EXTENDS Integers, Sequences, FiniteSets, TLC

CONSTANTS MaxBase,     \* number of entries of BaseExp in scope (6 = up to 2^127, 9 = all)
          MaxOff,      \* whole numbers x-MaxOff .. x+MaxOff around every big landmark x (1 or 2)
          RecDepth     \* records built from the template: 0 = flat, 1 = with one nested record, 2 = both

-----------------------------------------------------------------------------
(* D. numbers *)

\* exponents of the big landmarks; 1023 stands for f64::MAX = 2^1024 - 2^971
BaseExp == <<31, 32, 53, 63, 64, 127, 128, 1023, 1024>>
B31 == 1  B32 == 2  B53 == 3  B63 == 4  B64 == 5  B127 == 6  B128 == 7  BFMAX == 8  B1024 == 9

Abs(n) == IF n < 0 THEN -n ELSE n
Exp(g) == BaseExp[Abs(g)]

\* the number  sign(g)*2^Exp(g) + u/2 + t*tiny    (g = 0: no big part)
N(g, u) == [g |-> g, u |-> u, t |-> 0]
NT(g, u, t) == [g |-> g, u |-> u, t |-> t]
Zero == N(0, 0)

\* exact order of abstract numbers: lexicographic, because |u/2| <= 2 is far below the
\* distance between two landmarks and tiny is far below 1/2
Lt(x, y) == \/ x.g < y.g
            \/ x.g = y.g /\ x.u < y.u
            \/ x.g = y.g /\ x.u = y.u /\ x.t < y.t
Sgn(x, y) == IF Lt(x, y) THEN -1 ELSE IF Lt(y, x) THEN 1 ELSE 0
Neg(x) == Lt(x, Zero)
Odd(n) == n % 2 = 1

IntKinds == {"i32", "i64", "u32", "u64"}
BigKinds == {"bigint", "biguint"}
WholeKinds == IntKinds \cup BigKinds
NumKinds == WholeKinds \cup {"f64"}

Lo(k) == CASE k = "i32" -> N(-B31, 0) [] k = "i64" -> N(-B63, 0) [] k = "u32" -> Zero [] k = "u64" -> Zero
Hi(k) == CASE k = "i32" -> N(B31, -2) [] k = "i64" -> N(B63, -2) [] k = "u32" -> N(B32, -2) [] k = "u64" -> N(B64, -2)
I128Lo == N(-B127, 0)
I128Hi == N(B127, -2)

\* whole numbers of the pool: x-MaxOff .. x+MaxOff around every landmark x, -2..2 around 0
WholeNums == {N(g, 2 * o) : g \in (-MaxBase..MaxBase) \ {0}, o \in -MaxOff..MaxOff} \cup {N(0, u) : u \in {-4, -2, 0, 2, 4}}

InKind(k, x) ==
    CASE k \in IntKinds -> ~Lt(x, Lo(k)) /\ ~Lt(Hi(k), x)
      [] k = "bigint"   -> TRUE
      [] k = "biguint"  -> ~Neg(x)

\* finite floats of the pool = the abstract numbers that are exactly representable in binary64
Representable(x) ==
    IF x.g = 0
      THEN \/ x.t = 0
           \/ x.u = 0 /\ x.t \in {-2, -1, 1, 2}    \* +-2^-1074 (t = +-1), +-2^-1022 (t = +-2)
           \/ x.u = 2 /\ x.t \in {-2, -1, 2}       \* 1 - 2^-52, 1 - 2^-53, 1 + 2^-52   (unit 2^-53)
      ELSE /\ x.t = 0
           /\ LET e == Exp(x.g) IN
              \/ e \in {31, 32} /\ x.u \in -2..2
              \/ e = 53 /\ (IF x.g > 0 THEN x.u \in {-4, -2, 0, 4} ELSE x.u \in {-4, 0, 2, 4})   \* spacing 1 below 2^53, 2 above
              \/ e \in {63, 64, 127, 128, 1023} /\ x.u = 0
FloatNums == {x \in [g : -MaxBase..MaxBase, u : -4..4, t : -2..2] : Representable(x)}

Whole(k, x) == [k |-> k, g |-> x.g, u |-> x.u, t |-> 0]
Float(sp, x) == [k |-> "f64", sp |-> sp, g |-> x.g, u |-> x.u, t |-> x.t]
NumOf(v) == NT(v.g, v.u, v.t)
NaN == Float("nan", Zero)
PInf == Float("pinf", Zero)
NInf == Float("ninf", Zero)
NegZ == Float("negz", Zero)

NumericPool == UNION {{Whole(k, x) : x \in {y \in WholeNums : InKind(k, y)}} : k \in WholeKinds}
               \cup {Float("fin", x) : x \in FloatNums} \cup {NaN, PInf, NInf, NegZ}

-----------------------------------------------------------------------------
(* D. everything else.  Texts, blob contents and attribute names are sequences of small   *)
(* numbers (TLC cannot order strings).  For texts and names a number is a CHARACTER of    *)
(* the alphabet below; the numbers are in the order of the characters' code points, which *)
(* is the order of their UTF-8 encodings, which is what str::cmp (Text::cmp) compares -   *)
(* so lexicographic comparison of the code sequences IS the order of the texts as the     *)
(* code defines it (the check verifies the table: code points and UTF-8 bytes ascending). *)
(* For blobs a number c is the byte c - 1.                                                *)
cNUL == 1      \* U+0000            1 byte
cA == 2        \* U+0041 "A"        1 byte
ca == 3        \* U+0061 "a"        1 byte
cb == 4        \* U+0062 "b"        1 byte
ce == 5        \* U+00E9            2 bytes
cW == 6        \* U+FF5E            3 bytes; one UTF-16 unit 0xFF5E, ABOVE the surrogates of U+10000
cS == 7        \* U+10000           4 bytes; UTF-16 0xD800 0xDC00: a UTF-16 order would put it BELOW U+FF5E
Rep(c, n) == [i \in 1..n |-> c]

Extant == [k |-> "extant"]
Bool(b) == [k |-> "bool", b |-> b]
Text(s) == [k |-> "text", s |-> s]
Data(s) == [k |-> "data", d |-> s]
Rec(attrs, items) == [k |-> "record", attrs |-> attrs, items |-> items]
Attr(name, v) == [name |-> name, value |-> v]
VItem(v) == [slot |-> FALSE, key |-> Extant, value |-> v]
Slot(key, v) == [slot |-> TRUE, key |-> key, value |-> v]

\* texts: empty, one character, trailing / leading / interior NUL, prefixes of one another, case pair, characters of 1..4
\* bytes, and the boundary of the small (inline) representation of Text (SMALL_SIZE = 24 BYTES): 23 / 24 / 25 bytes with
\* equal prefixes, reached with one-byte and with two-byte characters
TextSeqs == {<<>>, <<cNUL>>, <<cNUL, cNUL>>, <<ca>>, <<ca, cNUL>>, <<cNUL, ca>>, <<ca, cNUL, cb>>, <<ca, ca>>, <<ca, cb>>, <<cb>>, <<cA>>,
             <<ce>>, <<cW>>, <<cS>>,
             Rep(ca, 23), Rep(ca, 24), Rep(ca, 25), Rep(ca, 23) \o <<cNUL>>, Rep(ca, 24) \o <<cNUL>>, Rep(ca, 23) \o <<cb>>,
             Rep(ca, 22) \o <<ce>>, Rep(ca, 23) \o <<ce>>}
One32 == Whole("i32", N(0, 2))
Texts == {Text(s) : s \in TextSeqs}
\* every text in every position a Text occurs in: attribute name, slot key, record item (and the bare value above)
TextPositions == {Rec(<<Attr(s, Extant)>>, <<>>) : s \in TextSeqs} \cup {Rec(<<>>, <<Slot(Text(s), One32)>>) : s \in TextSeqs}
                 \cup {Rec(<<>>, <<VItem(Text(s))>>) : s \in TextSeqs}
\* blobs: empty, prefixes of one another, differing in the last byte, extreme bytes, the bytes of the texts "a", "a\0", U+00E9
Blobs == {Data(<<>>), Data(<<1>>), Data(<<1, 1>>), Data(<<2>>), Data(<<256>>), Data(<<98>>), Data(<<98, 1>>), Data(<<98, 98>>),
          Data(<<98, 99>>), Data(<<196, 170>>)}

\* the alternatives for one leaf: the same number in another kind, as a float, its neighbour,
\* a text, nothing
LeafAlts == {One32, Whole("i64", N(0, 2)), Whole("biguint", N(0, 2)), Float("fin", N(0, 2)),
             Whole("i32", N(0, 4)), Text(<<ca>>), Extant}

\* template  @a(L1) { L2: L3, L4 }  (depth 0)  and  @a(L1) { L2: L3, { L4 } }  (depth 1); RecDepth = 2: both
Template(l1, l2, l3, l4, d) ==
    Rec(<<Attr(<<ca>>, l1)>>, <<Slot(l2, l3), IF d = 0 THEN VItem(l4) ELSE VItem(Rec(<<>>, <<VItem(l4)>>))>>)
Depths == IF RecDepth = 2 THEN {0, 1} ELSE {RecDepth}
OneLeafVariants == UNION {
    {Template(l, One32, One32, One32, d) : l \in LeafAlts} \cup {Template(One32, l, One32, One32, d) : l \in LeafAlts} \cup
    {Template(One32, One32, l, One32, d) : l \in LeafAlts} \cup {Template(One32, One32, One32, l, d) : l \in LeafAlts} : d \in Depths}
\* structural neighbours: empty, attribute only, other name, item vs slot, prefix, extension
Shapes == {Rec(<<>>, <<>>),
           Rec(<<Attr(<<ca>>, Extant)>>, <<>>),
           Rec(<<Attr(<<cb>>, Extant)>>, <<>>),
           Rec(<<Attr(<<ca>>, Extant), Attr(<<ca>>, Extant)>>, <<>>),
           Rec(<<>>, <<VItem(One32)>>),
           Rec(<<>>, <<VItem(Extant)>>),
           Rec(<<>>, <<Slot(One32, One32)>>),
           Rec(<<>>, <<VItem(One32), VItem(One32)>>),
           Rec(<<>>, <<VItem(Rec(<<>>, <<>>))>>),
           Rec(<<Attr(<<ca>>, One32)>>, <<Slot(One32, One32)>>),
           Rec(<<Attr(<<ca>>, Rec(<<>>, <<VItem(One32)>>))>>, <<>>)}

\* item STRUCTURE: for a value x the items  x  and  k: x  for a key k that is nothing, a bool, a number, a text, a record;
\* slots whose value is nothing; the item `nothing`.  (Item::compare: a value item is greater than every slot; slots by key, then value.)
SlotKeys == {Extant, Bool(TRUE), One32, Text(<<ca>>), Rec(<<>>, <<>>)}
ItemsOf(x) == {VItem(x), VItem(Extant)} \cup {Slot(k, x) : k \in SlotKeys} \cup {Slot(k, Extant) : k \in SlotKeys}
ItemLeaves == {One32, Text(<<ca>>)}
\* records that differ only in the kind of ONE item: alone, before and after another item
ItemRecords == UNION {{Rec(<<>>, <<i>>) : i \in ItemsOf(x)} : x \in ItemLeaves}
               \cup {Rec(<<>>, <<i, VItem(One32)>>) : i \in ItemsOf(One32)} \cup {Rec(<<>>, <<VItem(One32), i>>) : i \in ItemsOf(One32)}
\* the same differences one and two levels down, and in an attribute body
NestedItemRecords == {Rec(<<>>, <<VItem(Rec(<<>>, <<i>>))>>) : i \in ItemsOf(One32)}
                     \cup {Rec(<<>>, <<VItem(Rec(<<>>, <<VItem(Rec(<<>>, <<i>>))>>))>>) : i \in ItemsOf(One32)}
                     \cup {Rec(<<Attr(<<ca>>, Rec(<<>>, <<i>>))>>, <<>>) : i \in ItemsOf(One32)}
\* attributes: the same name with different bodies, prefixes, order (Attr::compare: by name, then by value)
AttrBodies == {Extant, Rec(<<>>, <<>>), One32, Rec(<<>>, <<VItem(One32)>>), Rec(<<>>, <<VItem(Extant)>>), Text(<<ca>>)}
AttrRecords == {Rec(<<Attr(<<ca>>, x)>>, <<>>) : x \in AttrBodies}
               \cup {Rec(<<Attr(<<ca>>, Extant), Attr(<<cb>>, Extant)>>, <<>>), Rec(<<Attr(<<cb>>, Extant), Attr(<<ca>>, Extant)>>, <<>>),
                     Rec(<<Attr(<<ca>>, Extant)>>, <<VItem(Extant)>>), Rec(<<Attr(<<ca>>, Extant)>>, <<Slot(Extant, Extant)>>),
                     Rec(<<Attr(<<ca>>, Extant), Attr(<<ca>>, One32)>>, <<>>), Rec(<<Attr(<<ca>>, One32), Attr(<<ca>>, Extant)>>, <<>>)}
StructurePool == ItemRecords \cup NestedItemRecords \cup AttrRecords

OtherPool == {Extant, Bool(FALSE), Bool(TRUE)} \cup Texts \cup TextPositions \cup Blobs \cup OneLeafVariants \cup Shapes \cup StructurePool
\* quick tier: the triple laws range over CorePool (all PAIRS of the whole pool are always evaluated)
CorePool == NumericPool \cup {Extant, Bool(FALSE), Bool(TRUE)} \cup Texts \cup Blobs \cup OneLeafVariants \cup Shapes
            \cup {Rec(<<>>, <<i>>) : i \in ItemsOf(One32)}

Pool == NumericPool \cup OtherPool

-----------------------------------------------------------------------------
(* M. the arithmetic the implementation performs, computed exactly on D *)

\* `n as f64` / BigInt::to_f64 / f64::from_str(&n.to_string()) for a whole number: round to nearest, ties to even
ToF64(x) ==
    IF x.g = 0 THEN Float("fin", x)
    ELSE LET e == Exp(x.g) IN
         CASE e \in {31, 32} -> Float("fin", x)
           [] e = 53 -> IF x.g > 0 /\ x.u = 2 THEN Float("fin", N(x.g, 0))          \* 2^53 + 1 is a tie: to even
                        ELSE IF x.g < 0 /\ x.u = -2 THEN Float("fin", N(x.g, 0))
                        ELSE Float("fin", x)                                        \* 2^53 - 2 .. 2^53, 2^53 + 2: exact
           [] e \in {63, 64, 127, 128, 1023} -> Float("fin", N(x.g, 0))
           [] e = 1024 -> IF x.g > 0 THEN PInf ELSE NInf

\* IEEE partial_cmp of two floats, neither NaN
FCmp(x, y) ==
    CASE x.sp = "ninf" -> (IF y.sp = "ninf" THEN 0 ELSE -1)
      [] x.sp = "pinf" -> (IF y.sp = "pinf" THEN 0 ELSE 1)
      [] y.sp = "ninf" -> 1
      [] y.sp = "pinf" -> -1
      [] OTHER -> Sgn(NumOf(x), NumOf(y))         \* -0.0 is the number 0

RECURSIVE SeqFrom(_, _, _)
SeqFrom(s, t, i) == IF i > Len(s) THEN (IF i > Len(t) THEN 0 ELSE -1)
                    ELSE IF i > Len(t) THEN 1
                    ELSE IF s[i] < t[i] THEN -1
                    ELSE IF s[i] > t[i] THEN 1
                    ELSE SeqFrom(s, t, i + 1)
SeqCmp(s, t) == SeqFrom(s, t, 1)      \* str::cmp / Vec<u8>::cmp: lexicographic

-----------------------------------------------------------------------------
(* M. Value::compare - one CASE arm per match arm of the code.  Cell(a, b) names the arm. *)

Cell(a, b) == <<a.k, b.k>>

RECURSIVE CmpM(_, _)
\* Attr::compare, Item::compare, and Iterator::cmp over attrs.map(Left).chain(items.map(Right))
AttrCmp(x, y) == LET c == SeqCmp(x.name, y.name) IN IF c # 0 THEN c ELSE CmpM(x.value, y.value)
ItemCmp(x, y) ==
    IF ~x.slot THEN (IF ~y.slot THEN CmpM(x.value, y.value) ELSE 1)
    ELSE IF ~y.slot THEN -1
    ELSE LET c == CmpM(x.key, y.key) IN IF c # 0 THEN c ELSE CmpM(x.value, y.value)
Chain(r) == [i \in 1..Len(r.attrs) |-> [left |-> TRUE, e |-> r.attrs[i]]] \o
            [i \in 1..Len(r.items) |-> [left |-> FALSE, e |-> r.items[i]]]
EitherCmp(x, y) == IF x.left THEN (IF y.left THEN AttrCmp(x.e, y.e) ELSE -1)
                   ELSE IF y.left THEN 1 ELSE ItemCmp(x.e, y.e)
RECURSIVE LexFrom(_, _, _)
LexFrom(s, t, i) == IF i > Len(s) THEN (IF i > Len(t) THEN 0 ELSE -1)
                    ELSE IF i > Len(t) THEN 1
                    ELSE LET c == EitherCmp(s[i], t[i]) IN IF c # 0 THEN c ELSE LexFrom(s, t, i + 1)
LexCmp(s, t) == LexFrom(s, t, 1)

\* the arm shared by Int32Value / Int64Value / UInt32Value / UInt64Value against Float64Value(y)
IntVsFloat(a, y) == IF y.sp = "nan" THEN 1 ELSE FCmp(ToF64(NumOf(a)), y)
\* the arm shared by Float64Value(x) against every whole kind (`m as f64`, bi.to_f64(), f64::from_str(bi.to_string()))
FloatVsWhole(x, b) == IF x.sp = "nan" THEN -1 ELSE FCmp(x, ToF64(NumOf(b)))

CmpM(a, b) ==
    CASE a.k = "data" -> (IF b.k = "data" THEN SeqCmp(a.d, b.d) ELSE -1)
      [] a.k = "extant" -> (IF b.k = "extant" THEN 0 ELSE 1)
      [] a.k \in IntKinds ->
           (CASE b.k \in {"extant", "bool"} -> -1
              [] b.k \in IntKinds -> Sgn(NumOf(a), NumOf(b))        \* n.cmp(m) after widening / num::cmp_*
              [] b.k = "f64" -> IntVsFloat(a, b)
              [] b.k = "bigint" -> Sgn(NumOf(a), NumOf(b))          \* BigInt::from(n).cmp(bi)
              [] b.k = "biguint" -> (IF Neg(NumOf(a)) THEN -1 ELSE Sgn(NumOf(a), NumOf(b)))   \* BigUint::try_from(n)
              [] OTHER -> 1)
      [] a.k = "f64" ->
           (CASE b.k \in BigKinds -> FloatVsWhole(a, b)
              [] b.k \in {"extant", "bool"} -> -1
              [] b.k \in IntKinds -> FloatVsWhole(a, b)
              [] b.k = "f64" -> (IF a.sp = "nan" THEN (IF b.sp = "nan" THEN 0 ELSE -1)
                                 ELSE IF b.sp = "nan" THEN 1
                                 ELSE IF FCmp(a, b) = 0 THEN 0                 \* *x == *y (0.0 == -0.0, inf == inf)
                                 ELSE IF FCmp(a, b) < 0 THEN -1 ELSE 1)
              [] OTHER -> 1)
      [] a.k = "bool" ->
           (CASE b.k = "extant" -> -1
              [] b.k = "bool" -> (IF a.b = b.b THEN 0 ELSE IF b.b THEN -1 ELSE 1)
              [] OTHER -> 1)
      [] a.k = "text" ->
           (CASE b.k \in {"record", "data"} -> 1
              [] b.k = "text" -> SeqCmp(a.s, b.s)
              [] OTHER -> -1)
      [] a.k = "record" ->
           (CASE b.k = "record" -> LexCmp(Chain(a), Chain(b))
              [] b.k = "data" -> 1
              [] OTHER -> -1)
      [] a.k = "bigint" ->
           (CASE b.k \in {"extant", "bool"} -> -1
              [] b.k \in WholeKinds -> Sgn(NumOf(a), NumOf(b))
              [] b.k = "f64" -> 0 - CmpM(b, a)                       \* other.compare(self).reverse(): the Float64 row decides
              [] OTHER -> 1)
      [] a.k = "biguint" ->
           (CASE b.k \in {"extant", "bool"} -> -1
              [] b.k \in {"i32", "i64"} -> (IF Neg(NumOf(b)) THEN 1 ELSE Sgn(NumOf(a), NumOf(b)))   \* u32/u64::try_from(m)
              [] b.k \in {"u32", "u64", "biguint"} -> Sgn(NumOf(a), NumOf(b))
              [] b.k = "f64" -> 0 - CmpM(b, a)                       \* other.compare(self).reverse(): the Float64 row decides
              [] b.k = "bigint" -> (IF Neg(NumOf(b)) THEN 1 ELSE Sgn(NumOf(a), NumOf(b)))           \* to_biguint()
              [] OTHER -> 1)

(* M. PartialEq for Value *)
RECURSIVE EqM(_, _)
AttrsEq(s, t) == Len(s) = Len(t) /\ \A i \in 1..Len(s) : s[i].name = t[i].name /\ EqM(s[i].value, t[i].value)
ItemsEq(s, t) == Len(s) = Len(t) /\ \A i \in 1..Len(s) :
                    /\ s[i].slot = t[i].slot
                    /\ (s[i].slot => EqM(s[i].key, t[i].key))
                    /\ EqM(s[i].value, t[i].value)
EqM(a, b) ==
    CASE a.k \in WholeKinds -> b.k \in WholeKinds /\ Sgn(NumOf(a), NumOf(b)) = 0     \* try_from / to_iNN, all exact
      [] a.k = "f64" -> b.k = "f64" /\ (IF a.sp = "nan" THEN b.sp = "nan" ELSE b.sp # "nan" /\ FCmp(a, b) = 0)
      [] a.k = "record" -> b.k = "record" /\ AttrsEq(a.attrs, b.attrs) /\ ItemsEq(a.items, b.items)
      [] a.k = "extant" -> b.k = "extant"
      [] a.k = "bool" -> b.k = "bool" /\ a.b = b.b
      [] a.k = "text" -> b.k = "text" /\ a.s = b.s
      [] a.k = "data" -> b.k = "data" /\ a.d = b.d

(* M. Hash for Value: do a and b feed the same bytes to the hasher? *)
\* what is fed to the hasher for a float: write_u64(0) for every NaN and for both zeros (the bits of +0.0), else to_bits()
FBits(x) == IF x.sp \in {"nan", "negz"} THEN <<"fin", Zero>> ELSE <<x.sp, NumOf(x)>>
FitsI128(x) == ~Lt(x, I128Lo) /\ ~Lt(I128Hi, x)
RECURSIVE HashEqM(_, _)
HashEqM(a, b) ==
    CASE a.k \in WholeKinds -> /\ b.k \in WholeKinds                  \* INT_HASH + i128, or BIGINT_HASH + BigInt
                               /\ Sgn(NumOf(a), NumOf(b)) = 0
      [] a.k = "f64" -> b.k = "f64" /\ FBits(a) = FBits(b)
      [] a.k = "record" -> /\ b.k = "record" /\ Len(a.attrs) = Len(b.attrs) /\ Len(a.items) = Len(b.items)
                           /\ \A i \in 1..Len(a.attrs) : a.attrs[i].name = b.attrs[i].name /\ HashEqM(a.attrs[i].value, b.attrs[i].value)
                           /\ \A i \in 1..Len(a.items) : /\ a.items[i].slot = b.items[i].slot
                                                         /\ (a.items[i].slot => HashEqM(a.items[i].key, b.items[i].key))
                                                         /\ HashEqM(a.items[i].value, b.items[i].value)
      [] a.k = "extant" -> b.k = "extant"
      [] a.k = "bool" -> b.k = "bool" /\ a.b = b.b
      [] a.k = "text" -> b.k = "text" /\ a.s = b.s
      [] a.k = "data" -> b.k = "data" /\ a.d = b.d

-----------------------------------------------------------------------------
(* P. the laws of the statement over a relation table eq(_,_), cmp(_,_) in {-1,0,1}        *)
(* (9 = the comparison panicked), heq(_,_) = "hash equally".                               *)

LawNames1 == {"EqReflexive"}
LawNames2 == {"NoPanic", "EqSymmetric", "EqImpliesHashEq", "CmpAntisymmetric", "CmpEqualIffEq"}
LawNames3 == {"EqTransitive", "CmpTransitive"}

\* "Equality on model values is an equivalence relation"
EqReflexive(eq(_, _), a) == eq(a, a)
EqSymmetric(eq(_, _), a, b) == eq(a, b) <=> eq(b, a)
EqTransitivePremise(eq(_, _), a, b, c) == eq(a, b) /\ eq(b, c)
EqTransitive(eq(_, _), a, b, c) == EqTransitivePremise(eq, a, b, c) => eq(a, c)
\* "values that are equal hash equally"
EqImpliesHashEq(eq(_, _), heq(_, _), a, b) == eq(a, b) => heq(a, b)
\* "the ordering is a total order (antisymmetric and transitive)"
\* a panic in eq / cmp is a broken answer (code 9 in the observed table)
NoPanic(cmp(_, _), eqc(_, _), a, b) == cmp(a, b) \in {-1, 0, 1} /\ eqc(a, b) \in {0, 1}
CmpAntisymmetric(cmp(_, _), a, b) == cmp(a, b) = 0 - cmp(b, a)          \* a < b iff b > a ; a ~ b iff b ~ a
CmpTransitivePremise(cmp(_, _), a, b, c) == cmp(a, b) \in {-1, 0} /\ cmp(b, c) \in {-1, 0}
CmpTransitive(cmp(_, _), a, b, c) ==
    CmpTransitivePremise(cmp, a, b, c) =>
        /\ cmp(a, c) \in {-1, 0}
        /\ (cmp(a, b) = -1 \/ cmp(b, c) = -1) => cmp(a, c) = -1
\* "in which two values compare as equal exactly when they are equal"
CmpEqualIffEq(eq(_, _), cmp(_, _), a, b) == (cmp(a, b) = 0) <=> eq(a, b)

=============================================================================

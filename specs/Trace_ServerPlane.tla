-------------------------- MODULE Trace_ServerPlane --------------------------
(* P (only) for the server runtime's agent management, as a deterministic monitor over recorded executions of the real
   server task (harness/h_remote/src/bin/server.rs).  Many executions share one run: a "reset" event starts a new one; an
   execution that P rejects is reported (REJECT line) and skipped, the run goes on with the next one.

   Events (ndjson):
     {"k":"reset","id":..,"exp":{uri:{"route":i|0,"params":[[name,value]..]}},"kf":[open findings]}
     environment:  connect r | send r u op e | disconnect r | shutdown | settle | end | (timeout, fail, release, ... : ignored)
     observations: agent_run u route params n | started u n | init_failed u n | deliver u n op e | stopping u n |
                   stopped / failed / finished u n | rt_end u | recv r kind u b | closed r code | eof r | server_end ok

   P1  agent_run for a node whose previous instance has not ended (agent task AND runtime) is rejected.
   P2  an instance is made from the route / with the parameters the first matching route gives (exp); a delivery must
       be the oldest outstanding command / sync some remote sent to exactly THIS node, to the node's current, started,
       not yet stopping instance; a response only reaches a remote that asked that node.
   P3  no instance for a node without route; its link / sync / unlink envelopes are answered by exactly one
       unlinked(@nodeNotFound) each (by the next settle point), its commands by nothing.
   P4  at a settle point no envelope for a routed node is unaccounted for, unless it was in flight to an instance that
       began to stop after it was sent, the plane is stopping, its remote is gone - or it waits for an instance that is
       still on its way out.
   P5  server_end only after a shutdown, with every instance ended; at the end every remote is closed.
   A remote is closed by the server only after its peer closed or the shutdown began.  KS1 (open finding): the server
   closes a remote that has an outstanding envelope for a node whose instance is on its way out (or failed to start). *)
EXTENDS Naturals, Sequences, FiniteSets, TLC, Json, IOUtils

Rec == ndJsonDeserialize(IOEnv.TRACE)
Rs == 1..4

VARIABLES i, cid, dead, exp, open, rm, out, ins, addr, shut, fin, owe
st == <<cid, exp, open, rm, out, ins, addr, shut, fin, owe>>
vars == <<i, dead, cid, exp, open, rm, out, ins, addr, shut, fin, owe>>

Has(e, f) == f \in DOMAIN e
Max(a, b) == IF a > b THEN a ELSE b
MinOf(S) == CHOOSE x \in S : \A y \in S : x <= y
NoInst == [n |-> 0, st |-> "none", ag |-> FALSE, rt |-> FALSE, up |-> FALSE]
SeqToSet(q) == {q[j] : j \in 1..Len(q)}
RemoveAt(q, j) == [k \in 1..(Len(q) - 1) |-> IF k < j THEN q[k] ELSE q[k + 1]]

TraceInit == /\ i = 1 /\ cid = "-" /\ dead = TRUE /\ exp = <<>> /\ open = {}
             /\ rm = [r \in Rs |-> "none"] /\ out = [r \in Rs |-> <<>>] /\ ins = <<>> /\ addr = [r \in Rs |-> {}]
             /\ shut = FALSE /\ fin = FALSE /\ owe = {}
             /\ TLCSet(1, 1)

Reset(e) == /\ cid' = e.id /\ exp' = e.exp /\ open' = SeqToSet(e.kf)
            /\ rm' = [r \in Rs |-> "none"] /\ out' = [r \in Rs |-> <<>>]
            /\ ins' = [u \in DOMAIN e.exp |-> NoInst] /\ addr' = [r \in Rs |-> {}]
            /\ shut' = FALSE /\ fin' = FALSE /\ owe' = {}

Routed(u) == u \in DOMAIN exp /\ exp[u].route # 0
\* the instance that was registered when the envelope was sent (alive or on its way out) has begun to stop / is gone:
\* the envelope may have been written into a channel nobody reads any more
LostInFlight(x) == x.st \in {"live", "stopping", "ended"} /\ (ins[x.u].n > x.n \/ ins[x.u].st # "live")
\* the envelope was sent while the node's instance was on its way out, and that instance still is
Waiting(x) == x.st \in {"stopping", "ended"} /\ ins[x.u].n = x.n /\ ins[x.u].st \in {"stopping", "ended"}
ForLane(x, u) == x.u = u /\ x.op \in {"command", "sync"}
\* the outstanding command e (or the oldest outstanding sync) of r for node u before which only lost envelopes wait (0: none)
FirstFor(r, u, op, e) ==
    LET S == {j \in 1..Len(out[r]) : /\ ForLane(out[r][j], u) /\ out[r][j].op = op /\ (op = "command" => out[r][j].e = e)
                                      /\ \A k \in 1..(j - 1) : ForLane(out[r][k], u) => LostInFlight(out[r][k])}
    IN IF S = {} THEN 0 ELSE MinOf(S)
\* ... taken out, together with the lost ones before it
TakeOut(r, u, j) == LET keep == {k \in 1..Len(out[r]) : ~(k <= j /\ ForLane(out[r][k], u))}
                        RECURSIVE Build(_)
                        Build(k) == IF k > Len(out[r]) THEN <<>> ELSE (IF k \in keep THEN <<out[r][k]>> ELSE <<>>) \o Build(k + 1)
                    IN Build(1)
FirstOp(r, u, ops) == LET S == {j \in 1..Len(out[r]) : out[r][j].u = u /\ out[r][j].op \in ops}
                      IN IF S = {} THEN 0 ELSE MinOf(S)
WithInst(u, rec) == [ins EXCEPT ![u] = rec]
Ended(rec) == IF rec.ag /\ rec.rt THEN [rec EXCEPT !.st = "ended"] ELSE [rec EXCEPT !.st = "stopping"]

Step(e) ==
    \/ /\ e.k = "connect" /\ rm[e.r] \in {"none", "closed", "shut"}
       /\ rm' = [rm EXCEPT ![e.r] = "open"] /\ out' = [out EXCEPT ![e.r] = <<>>] /\ addr' = [addr EXCEPT ![e.r] = {}]
       /\ UNCHANGED <<cid, exp, open, ins, shut, fin, owe>>
    \/ /\ e.k = "send" /\ rm[e.r] = "open" /\ e.u \in DOMAIN exp
       /\ out' = [out EXCEPT ![e.r] = Append(@, [u |-> e.u, op |-> e.op, e |-> e.e, n |-> ins[e.u].n, st |-> ins[e.u].st])]
       /\ addr' = IF e.op \in {"link", "sync"} THEN [addr EXCEPT ![e.r] = @ \cup {e.u}] ELSE addr
       /\ UNCHANGED <<cid, exp, open, rm, ins, shut, fin, owe>>
    \/ /\ e.k = "send" /\ rm[e.r] # "open" /\ UNCHANGED st
    \/ /\ e.k = "peer_write_failed" /\ rm[e.r] # "open" /\ UNCHANGED st
    \/ /\ e.k = "disconnect" /\ rm[e.r] = "open"
       /\ rm' = [rm EXCEPT ![e.r] = "shut"]
       /\ UNCHANGED <<cid, exp, open, out, ins, addr, shut, fin, owe>>
    \/ /\ e.k = "disconnect" /\ rm[e.r] # "open" /\ UNCHANGED st
    \/ /\ e.k = "shutdown" /\ shut' = TRUE /\ UNCHANGED <<cid, exp, open, rm, out, ins, addr, fin, owe>>
    \/ /\ e.k \in {"timeout", "fail", "release", "hold", "finish", "advance", "pause", "resume", "send_at", "skip", "rt_open", "start_agent", "start_result"}
       /\ UNCHANGED st
    \/ /\ e.k = "settle"
       /\ owe = {}
       /\ \A r \in Rs : rm[r] = "open" =>
             \A j \in 1..Len(out[r]) :
                LET x == out[r][j] IN
                IF ~Routed(x.u) THEN x.op = "command"                                    \* P3: everything else was answered
                ELSE x.op = "unlink" \/ shut \/ LostInFlight(x)                          \* P4
       /\ out' = [r \in Rs |-> IF rm[r] # "open" THEN <<>> ELSE
                                 SelectSeq(out[r], LAMBDA x : Routed(x.u) /\ x.op # "unlink" /\ ~shut /\ Waiting(x))]
       /\ ins' = [u \in DOMAIN ins |-> IF ins[u].st = "ended" THEN [ins[u] EXCEPT !.st = "gone"] ELSE ins[u]]
       /\ UNCHANGED <<cid, exp, open, rm, addr, shut, fin, owe>>
    \/ /\ e.k = "agent_run" /\ ~fin
       /\ Routed(e.u)                                                                     \* P3: nothing started without a route
       /\ e.route = exp[e.u].route /\ e.params = exp[e.u].params                  \* P2
       /\ ins[e.u].st \in {"none", "ended", "gone"}                                       \* P1
       /\ e.n = ins[e.u].n + 1
       /\ ins' = WithInst(e.u, [n |-> e.n, st |-> "live", ag |-> FALSE, rt |-> FALSE, up |-> FALSE])
       /\ UNCHANGED <<cid, exp, open, rm, out, addr, shut, fin, owe>>
    \/ /\ e.k = "started" /\ ~fin /\ e.n = ins[e.u].n /\ ins[e.u].st = "live" /\ ~ins[e.u].up
       /\ ins' = WithInst(e.u, [ins[e.u] EXCEPT !.up = TRUE])
       /\ UNCHANGED <<cid, exp, open, rm, out, addr, shut, fin, owe>>
    \/ /\ e.k = "deliver" /\ ~fin
       /\ e.n = ins[e.u].n /\ ins[e.u].st = "live" /\ ins[e.u].up                         \* P4: never to a dead instance
       /\ LET C == {r \in Rs : FirstFor(r, e.u, e.op, e.e) # 0}
          IN /\ C # {}                                                                    \* P2: sent to this node, once, in order
             /\ LET r == MinOf(C) IN out' = [out EXCEPT ![r] = TakeOut(r, e.u, FirstFor(r, e.u, e.op, e.e))]
       /\ UNCHANGED <<cid, exp, open, rm, ins, addr, shut, fin, owe>>
    \/ /\ e.k = "stopping" /\ e.n = ins[e.u].n /\ ins[e.u].st \in {"live", "stopping"}
       /\ ins' = WithInst(e.u, [ins[e.u] EXCEPT !.st = "stopping"])
       /\ owe' = IF e.u \in owe THEN {} ELSE owe
       /\ UNCHANGED <<cid, exp, open, rm, out, addr, shut, fin>>
    \/ /\ e.k \in {"stopped", "failed", "finished", "init_failed"} /\ e.n = ins[e.u].n /\ ins[e.u].st \in {"live", "stopping"} /\ ~ins[e.u].ag
       /\ ins' = WithInst(e.u, Ended([ins[e.u] EXCEPT !.ag = TRUE]))
       /\ owe' = IF e.u \in owe THEN {} ELSE owe
       /\ UNCHANGED <<cid, exp, open, rm, out, addr, shut, fin>>
    \/ /\ e.k = "rt_end" /\ ins[e.u].st \in {"live", "stopping"} /\ ~ins[e.u].rt
       /\ ins' = WithInst(e.u, Ended([ins[e.u] EXCEPT !.rt = TRUE]))
       /\ UNCHANGED <<cid, exp, open, rm, out, addr, shut, fin, owe>>
    \/ /\ e.k = "recv" /\ e.kind = "unlinked" /\ e.b = "nf"
       /\ ~Routed(e.u)                                                                    \* P3: only for nodes without route
       /\ FirstOp(e.r, e.u, {"link", "sync", "unlink"}) # 0                               \* ... once per envelope
       /\ out' = [out EXCEPT ![e.r] = RemoveAt(@, FirstOp(e.r, e.u, {"link", "sync", "unlink"}))]
       /\ UNCHANGED <<cid, exp, open, rm, ins, addr, shut, fin, owe>>
    \/ /\ e.k = "recv" /\ ~(e.kind = "unlinked" /\ e.b = "nf")
       /\ e.kind \in {"linked", "synced", "event", "unlinked"}
       /\ e.u \in addr[e.r] /\ Routed(e.u)                                                \* P2: only from a node the remote asked
       /\ out' = IF e.kind = "linked" /\ FirstOp(e.r, e.u, {"link"}) # 0
                 THEN [out EXCEPT ![e.r] = RemoveAt(@, FirstOp(e.r, e.u, {"link"}))] ELSE out
       /\ UNCHANGED <<cid, exp, open, rm, ins, addr, shut, fin, owe>>
    \/ /\ e.k = "closed" /\ (rm[e.r] = "shut" \/ shut)
       /\ rm' = [rm EXCEPT ![e.r] = "closed"] /\ out' = [out EXCEPT ![e.r] = <<>>]
       /\ UNCHANGED <<cid, exp, open, ins, addr, shut, fin, owe>>
    \/ /\ e.k = "closed" /\ rm[e.r] = "open" /\ ~shut
       \* the server closes a remote although nobody asked it to: only the open finding KS1 excuses that
       /\ "KS1" \in open
       /\ LET W == {x \in SeqToSet(out[e.r]) : Routed(x.u) /\ ins[x.u].st \in {"stopping", "ended"}}
              Lv == {x \in SeqToSet(out[e.r]) : Routed(x.u) /\ ins[x.u].st = "live"}
          IN /\ W # {} \/ Lv # {}
             /\ owe' = IF W # {} THEN owe ELSE owe \cup {x.u : x \in Lv}
       /\ PrintT(<<"KF", ToJson([id |-> cid, f |-> "KS1", at |-> i])>>)
       /\ rm' = [rm EXCEPT ![e.r] = "closed"] /\ out' = [out EXCEPT ![e.r] = <<>>]
       /\ UNCHANGED <<cid, exp, open, ins, addr, shut, fin>>
    \/ /\ e.k = "eof" /\ (rm[e.r] \in {"closed", "shut", "none"} \/ shut)
       /\ rm' = [rm EXCEPT ![e.r] = "closed"] /\ out' = [out EXCEPT ![e.r] = <<>>]
       /\ UNCHANGED <<cid, exp, open, ins, addr, shut, fin, owe>>
    \/ /\ e.k = "server_end" /\ Has(e, "ok") /\ e.ok /\ shut /\ ~fin
       /\ \A u \in DOMAIN ins : ins[u].st \in {"none", "ended", "gone"}                    \* P5
       /\ fin' = TRUE
       /\ UNCHANGED <<cid, exp, open, rm, out, ins, addr, shut, owe>>
    \/ /\ e.k = "end" /\ fin /\ \A r \in Rs : rm[r] # "open"                              \* P5
       /\ UNCHANGED st

\* every node URI an event names is one the execution's header knows
UOk(e) == IF Has(e, "u") THEN e.u \in DOMAIN exp ELSE TRUE

TraceNext == /\ i <= Len(Rec)
             /\ LET e == Rec[i] IN
                \/ /\ e.k = "reset" /\ Reset(e) /\ dead' = FALSE
                \/ /\ e.k # "reset" /\ dead /\ UNCHANGED st /\ dead' = dead
                \/ /\ e.k # "reset" /\ ~dead /\ UOk(e) /\ Step(e) /\ dead' = FALSE
                \/ /\ e.k # "reset" /\ ~dead /\ (~UOk(e) \/ ~ENABLED Step(e))
                   /\ PrintT(<<"REJECT", ToJson([id |-> cid, at |-> i, ev |-> e])>>)
                   /\ UNCHANGED st /\ dead' = TRUE
             /\ i' = i + 1
             /\ TLCSet(1, Max(TLCGet(1), i + 1))

TraceSpec == TraceInit /\ [][TraceNext]_vars

TraceAccepted ==
    LET m == TLCGet(1) IN
    /\ PrintT(<<"TRACE_RESULT", ToJson([accepted |-> (m = Len(Rec) + 1), matched |-> m - 1, total |-> Len(Rec), kf |-> <<>>])>>)
    /\ m = Len(Rec) + 1
=============================================================================

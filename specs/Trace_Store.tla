------------------------------ MODULE Trace_Store ------------------------------
(***************************************************************************)
(* P for C13 as a trace specification: accepts exactly the recorded        *)
(* call/return histories of a store that behaves like Store.tla, with the  *)
(* raw identifiers the implementation handed out.                          *)
(*                                                                         *)
(* Events (ndjson, one per completed call; symbols as in Store.tla):       *)
(*   {"k":"reset"}                                  a fresh, empty store   *)
(*   {"k":"idfor"|"put"|"get"|"delete"|"update"|"remove"|"clear"|"read",   *)
(*    "a":a,"i":i,["key":k],["v":v],"r":"ok","rid":raw id,                *)
(*    ["id":canonical id],["val":v],["m":[v per key]],["extra":[..]]}      *)
(*   {"k":"restart","a":a,"mode":m,"r":"ok"}   {"k":"reopen","r":"ok"}     *)
(*   {"k":"crash",["pend":{call without results}]}  the process was killed *)
(*        with "pend" in flight (not acknowledged); the database was       *)
(*        opened again                                                     *)
(*                                                                         *)
(* Identifier laws are evaluated on the raw identifiers: the first         *)
(* identifier seen for (agent, item) must differ from those of the agent's *)
(* other items, and every later one must equal it (across restart, reopen  *)
(* and crash).  Reading an item with the other kind's operation is not     *)
(* constrained by the property: any answer is accepted.                    *)
(***************************************************************************)
EXTENDS Store, Integers, Json, IOUtils

Rec == ndJsonDeserialize(IOEnv.TRACE)

VARIABLES i, rawid
tvars == <<store, ids, hist, lastAct, i, rawid>>

Has(e, f) == f \in DOMAIN e
Max2(x, y) == IF x > y THEN x ELSE y
Unset == -1

TraceInit == /\ Init /\ i = 1
             /\ rawid = [a \in Agents |-> [j \in Items |-> Unset]]
             /\ TLCSet(1, 1)

(* the raw identifier reported by this call is the item's, or fresh within the agent *)
RawIdOK(e) ==
    IF ~Has(e, "rid") THEN rawid' = rawid
    ELSE /\ IF rawid[e.a][e.i] # Unset THEN e.rid = rawid[e.a][e.i]
            ELSE \A j \in Items : rawid[e.a][j] # e.rid
         /\ rawid' = [rawid EXCEPT ![e.a][e.i] = e.rid]

(* every output the specification predicts is present in the event and equal; nothing foreign was read *)
Outputs == {"r", "val", "m"}
Matches(act, e) == /\ \A f \in (DOMAIN act) \cap Outputs : Has(e, f) /\ e[f] = act[f]
                   /\ Has(e, "id") => e.id = act.id
                   /\ ~Has(e, "extra") /\ ~Has(e, "panic")

Call(e) == CASE e.k = "idfor"  -> IdFor(e.a, e.i)
             [] e.k = "put"    -> Put(e.a, e.i, e.v)
             [] e.k = "get"    -> Get(e.a, e.i)
             [] e.k = "delete" -> Delete(e.a, e.i)
             [] e.k = "update" -> Update(e.a, e.i, e.key, e.v)
             [] e.k = "remove" -> Remove(e.a, e.i, e.key)
             [] e.k = "clear"  -> Clear(e.a, e.i)
             [] e.k = "read"   -> ReadMap(e.a, e.i)
             [] OTHER -> FALSE

Effect(p) == CASE p.k = "put"    -> PutE(p.a, p.i, p.v)
               [] p.k = "delete" -> DeleteE(p.a, p.i)
               [] p.k = "update" -> UpdateE(p.a, p.i, p.key, p.v)
               [] p.k = "remove" -> RemoveE(p.a, p.i, p.key)
               [] p.k = "clear"  -> ClearE(p.a, p.i)
               [] OTHER -> UNCHANGED <<store, ids, hist>>     \* reads, id_for, restart, reopen

(* a read through the other kind's operation: not constrained *)
Unspecified(e) == \/ e.k = "get" /\ store[e.a][e.i].kind = "M"
                  \/ e.k = "read" /\ store[e.a][e.i].kind = "V"

Step(e) ==
    \/ /\ e.k \in ItemCalls /\ e.a \in Agents /\ e.i \in Items
       /\ \/ ~Unspecified(e) /\ Call(e) /\ Matches(lastAct', e)
          \/ Unspecified(e) /\ e.r = "ok" /\ IdForE(e.a, e.i) /\ lastAct' = [k |-> "unspecified"]
       /\ RawIdOK(e)
    \/ /\ e.k = "restart" /\ Restart(e.a, e.mode) /\ Matches(lastAct', e) /\ rawid' = rawid
    \/ /\ e.k = "reopen" /\ Reopen /\ Matches(lastAct', e) /\ rawid' = rawid
    \/ /\ e.k = "crash"
       /\ \/ UNCHANGED <<store, ids, hist>>
          \/ Has(e, "pend") /\ Effect(e.pend)
       /\ lastAct' = [k |-> "crash"]
       /\ rawid' = rawid

Reset(e) == /\ e.k = "reset"
            /\ store' = [a \in Agents |-> [j \in Items |-> EmptyItem]]
            /\ ids' = [a \in Agents |-> <<>>]
            /\ hist' = hist
            /\ lastAct' = [k |-> "init"]
            /\ rawid' = [a \in Agents |-> [j \in Items |-> Unset]]

TraceNext == /\ i <= Len(Rec)
             /\ (Reset(Rec[i]) \/ Step(Rec[i]))
             /\ TypeOK' /\ IdInjective'
             /\ i' = i + 1
             /\ TLCSet(1, Max2(TLCGet(1), i + 1))

TraceSpec == TraceInit /\ [][TraceNext]_tvars

TraceAccepted ==
    LET m == TLCGet(1) IN
    /\ PrintT(<<"TRACE_RESULT", ToJson([accepted |-> (m = Len(Rec) + 1), matched |-> m - 1, total |-> Len(Rec), kf |-> <<>>])>>)
    /\ m = Len(Rec) + 1
=============================================================================

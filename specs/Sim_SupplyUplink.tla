--------------------------- MODULE Sim_SupplyUplink ---------------------------
(* Behaviour generation for SupplyUplink.tla with TLC -simulate (see Sim_CommandOutput.tla). *)
EXTENDS SupplyUplink, Json
VARIABLE hist
SimInit == Init /\ hist = <<>>
Final == NPush = MaxPush /\ Quiescent
SimNext == ~Final /\ Next /\ hist' = Append(hist, lastAct')
HistDump == Final => PrintT(<<"REPLAY", ToJson(hist)>>)
=============================================================================

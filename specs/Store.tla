-------------------------------- MODULE Store --------------------------------
(***************************************************************************)
(* C13: both stores (swimos_rocks_store and the in-memory store of         *)
(* swimos_server_app) behave as a mapping                                  *)
(*     (agent URI, item name)  |->  Empty | Value(bytes) | Map(key->bytes) *)
(* with a stable, injective identifier per (agent, name).                  *)
(*                                                                         *)
(* The property is an exact functional contract, so this one specification *)
(* is both P and M: one action per operation of                            *)
(* swimos_api::persistence::NodePersistence (every action first resolves   *)
(* the item's identifier with id_for, as an agent does), plus the session  *)
(* actions Restart (the agent's node store is dropped and re-acquired from *)
(* the plane; three hand-over modes), Reopen (everything is closed and the *)
(* database / plane is opened again) and Crash (the process is killed      *)
(* while one operation is in flight).                                      *)
(*                                                                         *)
(* Data model (small scope, concretised by the harness from boundary       *)
(* pools): agents, items, keys and values are abstract symbols 1..N; the   *)
(* harness maps them injectively to adversarial node URIs / names / byte   *)
(* strings.  0 stands for "absent".                                        *)
(*                                                                         *)
(* What the statement leaves open is not generated: using one item as a    *)
(* value and as a map at the same time (the in-memory store answers        *)
(* InvalidOperation, RocksDB keeps two independent keyspaces).  An item    *)
(* has a kind, "E" (nothing stored: initially, after delete_value, after   *)
(* clear_map), "V" or "M"; value operations need kind E or V, map          *)
(* operations need E or M.  A map emptied by remove_map stays "M".         *)
(***************************************************************************)
EXTENDS Naturals, Sequences, FiniteSets, TLC

CONSTANTS NA,        \* number of agents
          NI,        \* items (lanes / stores) per agent
          NK,        \* map keys
          NV,        \* values
          Modes,     \* restart modes: subset of {"idle", "handover", "abandon"}
          WithCrash, \* BOOLEAN: include the Crash action
          MaxHist    \* > 0: record the write history (ghost) and bound its total length

Agents == 1..NA
Items  == 1..NI
Keys   == 1..NK
Vals   == 1..NV
None   == 0

VARIABLES store,    \* [Agents -> [Items -> [kind, v, m]]]
          ids,      \* [Agents -> Seq(Items)]: items in the order their identifier was first requested;
                    \*   the identifier of an item, up to renaming, is its position
          hist,     \* ghost: [n |-> number of writes, h |-> [Agents -> [Items -> Seq(write)]]]: every write that
                    \*   took effect, per item, in order
          lastAct   \* the call just made: inputs and the outputs the implementation must produce

vars == <<store, ids, hist, lastAct>>
View == <<store, ids>>

EmptyMap  == [k \in Keys |-> None]
EmptyItem == [kind |-> "E", v |-> None, m |-> EmptyMap]

Init == /\ store = [a \in Agents |-> [i \in Items |-> EmptyItem]]
        /\ ids = [a \in Agents |-> <<>>]
        /\ hist = [n |-> 0, h |-> [a \in Agents |-> [i \in Items |-> <<>>]]]
        /\ lastAct = [k |-> "init"]

-----------------------------------------------------------------------------
(* identifiers *)
Pos(s, x) == IF \E n \in DOMAIN s : s[n] = x THEN CHOOSE n \in DOMAIN s : s[n] = x ELSE 0
IdOf(a, i) == IF Pos(ids[a], i) # 0 THEN Pos(ids[a], i) ELSE Len(ids[a]) + 1   \* existing, or the next fresh one
Touch(a, i) == ids' = IF Pos(ids[a], i) # 0 THEN ids ELSE [ids EXCEPT ![a] = Append(@, i)]

ValueOK(a, i) == store[a][i].kind \in {"E", "V"}
MapOK(a, i)   == store[a][i].kind \in {"E", "M"}

W(k, key, v) == [k |-> k, key |-> key, v |-> v]
Log(a, i, w) == hist' = IF MaxHist > 0 THEN [n |-> hist.n + 1, h |-> [hist.h EXCEPT ![a][i] = Append(@, w)]] ELSE hist

(* effects (what the operation does to the store), separated from the acknowledgement so that
   Crash can reuse them *)
PutE(a, i, v)      == /\ ValueOK(a, i) /\ Touch(a, i)
                      /\ store' = [store EXCEPT ![a][i] = [kind |-> "V", v |-> v, m |-> EmptyMap]]
                      /\ Log(a, i, W("put", 0, v))
DeleteE(a, i)      == /\ ValueOK(a, i) /\ Touch(a, i)
                      /\ store' = [store EXCEPT ![a][i] = EmptyItem]
                      /\ Log(a, i, W("delete", 0, 0))
UpdateE(a, i, key, v) == /\ MapOK(a, i) /\ Touch(a, i)
                      /\ store' = [store EXCEPT ![a][i] = [kind |-> "M", v |-> None, m |-> [store[a][i].m EXCEPT ![key] = v]]]
                      /\ Log(a, i, W("update", key, v))
RemoveE(a, i, key) == /\ MapOK(a, i) /\ Touch(a, i)
                      /\ store' = [store EXCEPT ![a][i].m[key] = None]      \* kind unchanged: E stays E, M stays M
                      /\ Log(a, i, W("remove", key, 0))
ClearE(a, i)       == /\ MapOK(a, i) /\ Touch(a, i)
                      /\ store' = [store EXCEPT ![a][i] = EmptyItem]
                      /\ Log(a, i, W("clear", 0, 0))
IdForE(a, i)       == /\ Touch(a, i) /\ UNCHANGED <<store, hist>>

Act(k, a, i) == [k |-> k, a |-> a, i |-> i, id |-> IdOf(a, i), r |-> "ok"]

(* NodePersistence::id_for *)
IdFor(a, i) == IdForE(a, i) /\ lastAct' = Act("idfor", a, i)
(* put_value *)
Put(a, i, v) == PutE(a, i, v) /\ lastAct' = Act("put", a, i) @@ [v |-> v]
(* get_value: None, or the bytes last put *)
Get(a, i) == /\ ValueOK(a, i) /\ Touch(a, i) /\ UNCHANGED <<store, hist>>
             /\ lastAct' = Act("get", a, i) @@ [val |-> store[a][i].v]
(* delete_value: succeeds also when nothing is stored *)
Delete(a, i) == DeleteE(a, i) /\ lastAct' = Act("delete", a, i)
(* update_map *)
Update(a, i, key, v) == UpdateE(a, i, key, v) /\ lastAct' = Act("update", a, i) @@ [key |-> key, v |-> v]
(* remove_map: succeeds also when the key / the map is absent *)
Remove(a, i, key) == RemoveE(a, i, key) /\ lastAct' = Act("remove", a, i) @@ [key |-> key]
(* clear_map *)
Clear(a, i) == ClearE(a, i) /\ lastAct' = Act("clear", a, i)
(* read_map: all entries (as a map: the order of enumeration is not part of the property) *)
ReadMap(a, i) == /\ MapOK(a, i) /\ Touch(a, i) /\ UNCHANGED <<store, hist>>
                 /\ lastAct' = Act("read", a, i) @@ [m |-> store[a][i].m]

(* The agent stops and starts again: its NodePersistence is dropped and a new one is obtained from
   the plane.  "idle": drop, then node_store.  "handover": node_store is requested while the old
   instance is alive, then the old one is dropped and the request completes.  "abandon": as handover
   but the request is cancelled before the old instance is dropped; then node_store. *)
Restart(a, mode) == /\ UNCHANGED <<store, ids, hist>>
                    /\ lastAct' = [k |-> "restart", a |-> a, mode |-> mode, r |-> "ok"]
(* Every handle is closed; the database is opened again (RocksDB: DB closed and re-opened from disk;
   in-memory: all node stores returned to the plane). *)
Reopen == /\ UNCHANGED <<store, ids, hist>>
          /\ lastAct' = [k |-> "reopen", r |-> "ok"]

(* The process is killed while one operation is in flight (never acknowledged) and the database is
   opened again: every acknowledged operation is kept, the one in flight may or may not be.
   (Steps_Store.tla spells out the persistent writes of every operation - the allocation of an identifier
   is two of them - and puts the kill between any two; its ghost `abs` is this module's `store`.) *)
Crash == /\ WithCrash
         /\ \/ UNCHANGED <<store, ids, hist>>
            \/ \E a \in Agents, i \in Items :
                 \/ IdForE(a, i) \/ DeleteE(a, i) \/ ClearE(a, i)
                 \/ \E v \in Vals : PutE(a, i, v)
                 \/ \E key \in Keys : RemoveE(a, i, key) \/ \E v \in Vals : UpdateE(a, i, key, v)
         /\ lastAct' = [k |-> "crash"]

Next == \/ \E a \in Agents, i \in Items :
             \/ IdFor(a, i) \/ Get(a, i) \/ Delete(a, i) \/ Clear(a, i) \/ ReadMap(a, i)
             \/ \E v \in Vals : Put(a, i, v)
             \/ \E key \in Keys : Remove(a, i, key) \/ \E v \in Vals : Update(a, i, key, v)
        \/ \E a \in Agents, mode \in Modes : Restart(a, mode)
        \/ Reopen
        \/ Crash

Spec == Init /\ [][Next]_vars

-----------------------------------------------------------------------------
(* The property, stated independently of the transition relation.          *)

Kinds == {"E", "V", "M"}
TypeOK == /\ \A a \in Agents, i \in Items :
               /\ store[a][i].kind \in Kinds
               /\ store[a][i].v \in Vals \cup {None}
               /\ store[a][i].m \in [Keys -> Vals \cup {None}]
               /\ (store[a][i].kind # "V") => store[a][i].v = None
               /\ (store[a][i].kind # "M") => store[a][i].m = EmptyMap
          /\ \A a \in Agents : \A n \in DOMAIN ids[a] : ids[a][n] \in Items

(* "the identifier assigned to a name never ... collides" *)
IdInjective == \A a \in Agents : \A p, q \in DOMAIN ids[a] : p # q => ids[a][p] # ids[a][q]
(* "... never changes": an assigned identifier is kept by every step (also Restart, Reopen, Crash) *)
IsPrefix(s, t) == Len(s) <= Len(t) /\ \A n \in DOMAIN s : s[n] = t[n]
IdStable == [][\A a \in Agents : IsPrefix(ids[a], ids'[a])]_vars
(* an item holding data has an identifier *)
StoredHasId == \A a \in Agents, i \in Items : store[a][i].kind # "E" => Pos(ids[a], i) # 0

ItemCalls == {"idfor", "put", "get", "delete", "update", "remove", "clear", "read"}
ReadCalls == {"idfor", "get", "read", "restart", "reopen"}

(* "items of one agent and items of different agents never affect each other" *)
Isolation == [][lastAct'.k \in ItemCalls =>
                  /\ \A b \in Agents, j \in Items :
                        <<b, j>> # <<lastAct'.a, lastAct'.i>> => store'[b][j] = store[b][j]
                  /\ \A b \in Agents : b # lastAct'.a => ids'[b] = ids[b]]_vars
(* reads, restarts and reopening do not change what is stored *)
ReadsPure == [][lastAct'.k \in ReadCalls => store' = store]_vars
(* a crash changes at most the item of the operation in flight *)
CrashBounded == [][lastAct'.k = "crash" =>
                     Cardinality({x \in Agents \X Items : store'[x[1]][x[2]] # store[x[1]][x[2]]}) <= 1]_vars

(* "every read returns exactly what the preceding writes to that item imply": last-writer
   characterisation over the ghost history (only evaluated when MaxHist > 0). *)
MaxOf(S) == CHOOSE x \in S : \A y \in S : y <= x
LastValue(h) == LET J == {j \in DOMAIN h : h[j].k \in {"put", "delete"}} IN
                IF J = {} THEN None ELSE IF h[MaxOf(J)].k = "put" THEN h[MaxOf(J)].v ELSE None
LastEntry(h, key) == LET J == {j \in DOMAIN h : h[j].k = "clear" \/ (h[j].k \in {"update", "remove"} /\ h[j].key = key)} IN
                     IF J = {} THEN None ELSE IF h[MaxOf(J)].k = "update" THEN h[MaxOf(J)].v ELSE None
ReadImplied ==
    MaxHist > 0 =>
      \A a \in Agents, i \in Items :
            /\ store[a][i].v = LastValue(hist.h[a][i])
            /\ \A key \in Keys : store[a][i].m[key] = LastEntry(hist.h[a][i], key)
(* ... and the results handed back by the calls are those (action properties: evaluated on every
   transition, so they stay exact under a VIEW that hides lastAct) *)
ReadResult == [][MaxHist > 0 =>
                   /\ lastAct'.k = "get" => lastAct'.val = LastValue(hist.h[lastAct'.a][lastAct'.i])
                   /\ lastAct'.k = "read" => \A key \in Keys :
                          lastAct'.m[key] = LastEntry(hist.h[lastAct'.a][lastAct'.i], key)]_vars
(* the identifier a call reports is the one the item already had, or one no other item of the agent has,
   and it is the item's identifier from then on *)
IdReported == [][lastAct'.k \in ItemCalls =>
                   /\ ids'[lastAct'.a][lastAct'.id] = lastAct'.i
                   /\ \A j \in Items : (j # lastAct'.i /\ Pos(ids[lastAct'.a], j) # 0) => Pos(ids[lastAct'.a], j) # lastAct'.id]_vars
(* every call on an item is acknowledged with success *)
AllOk == [][lastAct'.k # "crash" => lastAct'.r = "ok"]_vars

HView == <<store, ids, hist>>

(* state constraint for the configurations that carry the ghost history *)
HistBound == hist.n <= MaxHist

=============================================================================

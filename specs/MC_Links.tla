------------------------------ MODULE MC_Links ------------------------------
(* Links + the state-graph dump for replay (see MC_ByteChannel): every      *)
(* transition once, with the inputs of the call and the outputs / snapshots *)
(* M expects (lastAct', hidden from the VIEW).  States are printed as a     *)
(* compact injective key of the VIEW.                                       *)
EXTENDS Links, Json

LaneCode(l) == IF lanes[l] = "new" THEN 0 ELSE IF lanes[l] = "up" THEN 1 ELSE 2
Key == <<[l \in Lanes |-> IF fwd[l].here THEN 1 + B2I(fwd[l].rep) + 2 * Mask(fwd[l].rem, NR) ELSE 0],
         [r \in Remotes |-> IF bwd[r].here THEN 1 + Mask(bwd[r].lanes, NL) ELSE 0],
         total, lc, alc,
         Mask({l \in Lanes : rdr[l]}, NL),
         [l \in Lanes |-> LaneCode(l)],
         Mask(att, NR), Mask(closed, NR), B2I(stopped),
         [l \in Lanes |-> Mask(LinkedOf(linked, l), NR)],
         Mask(gone, NL), Mask(lost, NL),
         [l \in Lanes |-> Mask(LinkedOf(ph, l), NR)]>>

EdgeDump == PrintT(<<"EDGE", ToJson([s |-> Key, a |-> lastAct', t |-> Key'])>>)
InitDump == (lastAct.k = "init") => PrintT(<<"INIT", ToJson(Key)>>)
=============================================================================

------------------------------ MODULE MC_Links ------------------------------
EXTENDS Links, Json
\* State-graph dump for replay (see MC_ByteChannel): every transition once, with the inputs of
\* the call and the outputs / snapshots M expects (lastAct, hidden by the VIEW).
EdgeDump == PrintT(<<"EDGE", ToJson([s |-> View, a |-> lastAct', t |-> View'])>>)
InitDump == (lastAct.k = "init") => PrintT(<<"INIT", ToJson(View)>>)
=============================================================================

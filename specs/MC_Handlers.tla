----------------------------- MODULE MC_Handlers -----------------------------
(***************************************************************************)
(* Handlers + what TLC needs to act as the case generator (Gen role):      *)
(* stimulus / initial-state pools and the REPLAY dump of every completed   *)
(* behaviour (program, stimuli, expected events per stimulus, expected     *)
(* fate of the agent).  Used both for exhaustive enumeration (small pool)  *)
(* and with -simulate (large pool).                                        *)
(***************************************************************************)
EXTENDS Handlers, Json

St(k, l, x, y) == [k |-> k, l |-> l, x |-> x, y |-> y]

StimsTiny  == {St("cmd", "c", 1, 0), St("set", "a", 1, 0)}
StimsQuick == {St("cmd", "c", 1, 0), St("set", "a", 1, 0), St("set", "b", 2, 0),
               St("upd", "m", 1, 7), St("rem", "m", 1, 0), St("clr", "m", 0, 0), St("sync", "a", 0, 0)}
StimsFull  == StimsQuick \cup
              {St("cmd", "c", 2, 0), St("set", "a", 2, 0), St("set", "b", 1, 0), St("upd", "m", 2, 8),
               St("rem", "m", 2, 0), St("sync", "m", 0, 0), St("sync", "b", 0, 0),
               St("take", "m", 1, 0), St("drop", "m", 1, 0), St("take", "m", 0, 0), St("drop", "m", 2, 0)}

MapsEmpty == {<<0, 0>>}
MapsBoth  == {<<0, 0>>, <<5, 6>>}

ProgOut == [s \in Slots |-> IF prog[s] = Unset THEN B("fbyR", <<>>) ELSE prog[s]]
Chosen == {s \in Slots : prog[s] # Unset}

\* evaluated as an invariant: prints each completed behaviour once (exhaustive mode: once per distinct terminal
\* state; simulation mode: at the end of every generated behaviour)
Emit == Terminal => PrintT(<<"REPLAY", ToJson([prog |-> ProgOut, acts |-> acts, m0 |-> m0, nslots |-> Cardinality(Chosen)])>>)
=============================================================================

------------------------------ MODULE ByteChannel ------------------------------
(***************************************************************************)
(* Mechanism specification (M) of swimos_byte_channel: the mutex-protected *)
(* Conduit shared by ByteWriter / ByteReader, one action per public poll   *)
(* call (each call holds the mutex for its whole duration, so a call is    *)
(* one atomic step), plus the thread-local cooperative budget of the coop  *)
(* module.                                                                 *)
(*                                                                         *)
(* Content is abstracted to a length: the harness writes byte i of the     *)
(* stream as a function of i and checks that what is read is the matching  *)
(* prefix, so "len" is all the model needs.                                *)
(***************************************************************************)
EXTENDS Naturals, Sequences, TLC

CONSTANTS Cap,      \* capacity of the channel
          MaxReq,   \* largest read buffer / write slice offered in one call
          Budget,   \* coop budget installed at the start of the task poll (>= 2), 0 = no coop modelling
          NW        \* distinct wakers each side may present (a half can be polled from another task / under a timeout:
                    \* the waker of the latest poll is the one that must be woken)

VARIABLES len,      \* bytes buffered                             (Conduit.data.len())
          slot,     \* whose waker sits in the single shared slot (Conduit.waker): "none" | "R" | "W"
          slotW,    \* ... and which of that side's wakers it is (0 when the slot is empty)
          rWid, wWid,       \* the waker the side presented when it was last told to wait
          closed,   \* Conduit.closed
          rAlive, wAlive,   \* the halves not yet dropped
          rWait, wWait,     \* side got Pending from the conduit and its waker has not been woken since
          budget,           \* thread-local TASK_BUDGET (0 = None)
          lastAct           \* the call just made, with the result the implementation must give

vars == <<len, slot, slotW, rWid, wWid, closed, rAlive, wAlive, rWait, wWait, budget, lastAct>>
View == <<len, slot, slotW, rWid, wWid, closed, rAlive, wAlive, rWait, wWait, budget>>
Wakers == 1..NW

Min(a, b) == IF a < b THEN a ELSE b

Init == /\ len = 0 /\ slot = "none" /\ slotW = 0 /\ rWid = 0 /\ wWid = 0 /\ closed = FALSE
        /\ rAlive = TRUE /\ wAlive = TRUE /\ rWait = FALSE /\ wWait = FALSE
        /\ budget = Budget
        /\ lastAct = [k |-> "init"]

\* Conduit::wake : take the slot and wake whoever is in it.
WakeR == slot = "R"
WakeW == slot = "W"
Woken == IF slot = "R" THEN "R" ELSE IF slot = "W" THEN "W" ELSE "none"

\* coop::consume_budget.  TRUE = the call must yield (Pending + self wake).
MustYield == Budget > 0 /\ budget = 1    \* saturating_sub(1) reaches 0
\* After a yield the budget is None; a well-behaved task returns Pending and is polled
\* again (NewPoll) before it makes another call, so no call is enabled with budget = 0.
CanCall == Budget = 0 \/ budget > 0
AfterConsume == IF Budget = 0 THEN 0 ELSE budget - 1

\* A cooperative yield: nothing but the budget changes, the caller's own waker is woken.
Yield(side, act) ==
    /\ MustYield
    /\ budget' = 0
    /\ lastAct' = act @@ [r |-> "yield", wake |-> side, wid |-> act.w]
    /\ UNCHANGED <<len, slot, slotW, rWid, wWid, closed, rAlive, wAlive, rWait, wWait>>

PollRead(n, w) ==
    /\ rAlive /\ CanCall
    /\ LET act == [k |-> "read", n |-> n, w |-> w] IN
       \/ Yield("R", act)
       \/ /\ ~MustYield
          /\ IF len > 0 THEN
                LET c == Min(len, n) IN
                /\ len' = len - c
                /\ IF c > 0
                     THEN /\ slot' = "none" /\ slotW' = 0
                          /\ rWait' = IF WakeR THEN FALSE ELSE rWait
                          /\ wWait' = IF WakeW THEN FALSE ELSE wWait
                          /\ lastAct' = act @@ [r |-> "ready", c |-> c, wake |-> Woken, wid |-> slotW]
                     ELSE /\ UNCHANGED <<slot, slotW, rWait, wWait>>
                          /\ lastAct' = act @@ [r |-> "ready", c |-> 0, wake |-> "none", wid |-> 0]
                /\ rWid' = IF c > 0 /\ WakeR THEN 0 ELSE rWid
                /\ wWid' = IF c > 0 /\ WakeW THEN 0 ELSE wWid
                /\ budget' = AfterConsume
                /\ UNCHANGED <<closed, rAlive, wAlive>>
             ELSE IF closed THEN
                /\ lastAct' = act @@ [r |-> "ready", c |-> 0, wake |-> "none", wid |-> 0]
                /\ budget' = AfterConsume
                /\ UNCHANGED <<len, slot, slotW, rWid, wWid, closed, rAlive, wAlive, rWait, wWait>>
             ELSE
                \* the waker of THIS poll replaces whatever is in the slot
                /\ slot' = "R" /\ slotW' = w /\ rWait' = TRUE /\ rWid' = w /\ wWid' = wWid
                \* the slot is shared: registering the reader evicts a registered writer
                /\ wWait' = wWait
                /\ lastAct' = act @@ [r |-> "pending", wake |-> "none", wid |-> 0]
                /\ budget' = IF Budget = 0 THEN 0 ELSE AfterConsume + 1   \* track_progress gives the unit back
                /\ UNCHANGED <<len, closed, rAlive, wAlive>>

PollWrite(n, w) ==
    /\ wAlive /\ CanCall
    /\ LET act == [k |-> "write", n |-> n, w |-> w] IN
       \/ Yield("W", act)
       \/ /\ ~MustYield
          /\ IF closed THEN
                /\ lastAct' = act @@ [r |-> "err", wake |-> "none", wid |-> 0]
                /\ budget' = AfterConsume
                /\ UNCHANGED <<len, slot, slotW, rWid, wWid, closed, rAlive, wAlive, rWait, wWait>>
             ELSE IF n = 0 THEN
                /\ lastAct' = act @@ [r |-> "ready", c |-> 0, wake |-> "none", wid |-> 0]
                /\ budget' = AfterConsume
                /\ UNCHANGED <<len, slot, slotW, rWid, wWid, closed, rAlive, wAlive, rWait, wWait>>
             ELSE IF len = Cap THEN
                /\ slot' = "W" /\ slotW' = w /\ wWait' = TRUE /\ wWid' = w /\ rWid' = rWid /\ rWait' = rWait
                /\ lastAct' = act @@ [r |-> "pending", wake |-> "none", wid |-> 0]
                /\ budget' = IF Budget = 0 THEN 0 ELSE AfterConsume + 1
                /\ UNCHANGED <<len, closed, rAlive, wAlive>>
             ELSE
                LET c == Min(n, Cap - len) IN
                /\ len' = len + c
                /\ slot' = "none" /\ slotW' = 0
                /\ rWait' = IF WakeR THEN FALSE ELSE rWait
                /\ wWait' = IF WakeW THEN FALSE ELSE wWait
                /\ rWid' = IF WakeR THEN 0 ELSE rWid
                /\ wWid' = IF WakeW THEN 0 ELSE wWid
                /\ lastAct' = act @@ [r |-> "ready", c |-> c, wake |-> Woken, wid |-> slotW]
                /\ budget' = AfterConsume
                /\ UNCHANGED <<closed, rAlive, wAlive>>

Flush(w) ==
    /\ wAlive /\ CanCall
    /\ LET act == [k |-> "flush", w |-> w] IN
       \/ Yield("W", act)
       \/ /\ ~MustYield
          /\ lastAct' = act @@ [r |-> "ready", wake |-> "none", wid |-> 0]
          /\ budget' = AfterConsume
          /\ UNCHANGED <<len, slot, slotW, rWid, wWid, closed, rAlive, wAlive, rWait, wWait>>

Close(act) ==
    /\ closed' = TRUE
    /\ slot' = "none" /\ slotW' = 0
    /\ rWait' = IF WakeR THEN FALSE ELSE rWait
    /\ wWait' = IF WakeW THEN FALSE ELSE wWait
    /\ rWid' = IF WakeR THEN 0 ELSE rWid
    /\ wWid' = IF WakeW THEN 0 ELSE wWid
    /\ lastAct' = act @@ [r |-> "ready", wake |-> Woken, wid |-> slotW]
    /\ UNCHANGED len

Shutdown(w) ==
    /\ wAlive /\ CanCall
    /\ LET act == [k |-> "shutdown", w |-> w] IN
       \/ Yield("W", act)
       \/ /\ ~MustYield
          /\ Close(act)
          /\ budget' = AfterConsume
          /\ UNCHANGED <<rAlive, wAlive>>

DropReader == /\ rAlive /\ rAlive' = FALSE /\ Close([k |-> "dropR"]) /\ UNCHANGED <<wAlive, budget>>
DropWriter == /\ wAlive /\ wAlive' = FALSE /\ Close([k |-> "dropW"]) /\ UNCHANGED <<rAlive, budget>>

\* The task is polled afresh: RunWithBudget re-installs the budget.
NewPoll == /\ Budget > 0 /\ budget # Budget /\ budget' = Budget
           /\ lastAct' = [k |-> "newpoll"]
           /\ UNCHANGED <<len, slot, slotW, rWid, wWid, closed, rAlive, wAlive, rWait, wWait>>

Next == \/ \E n \in 0..MaxReq : \E w \in Wakers : PollRead(n, w) \/ PollWrite(n, w)
        \/ (\E w \in Wakers : Flush(w) \/ Shutdown(w)) \/ DropReader \/ DropWriter \/ NewPoll

Spec == Init /\ [][Next]_vars

-----------------------------------------------------------------------------
(* P: the property (C12) stated over the mechanism's observable state.      *)

TypeOK == /\ len \in 0..Cap /\ slot \in {"none", "R", "W"} /\ slotW \in 0..NW /\ (slot = "none" <=> slotW = 0)
          /\ closed \in BOOLEAN /\ rWait \in BOOLEAN /\ wWait \in BOOLEAN

Bounded == len <= Cap

\* No lost wake-up: a side that was told to wait and has not been woken since
\* really has nothing to do, and the channel is still open.
NoLostWakeupR == (rAlive /\ rWait) => (len = 0 /\ ~closed)
NoLostWakeupW == (wAlive /\ wWait) => (len = Cap /\ ~closed)

\* The single slot is enough: it always holds the side that is waiting.
\* ... and that side's waker of its LATEST poll (a half may be polled again with another waker before the peer moves)
SlotHoldsWaiter == /\ (rAlive /\ rWait) => (slot = "R" /\ slotW = rWid)
                   /\ (wAlive /\ wWait) => (slot = "W" /\ slotW = wWid)

\* Results: end-of-stream only once closed and drained; writes fail once closed.
ResultSound ==
    /\ (lastAct.k = "read" /\ lastAct.r = "ready" /\ lastAct.n > 0 /\ lastAct.c = 0) => closed
    /\ (lastAct.k = "write" /\ lastAct.r = "ready") => ~closed
    /\ (lastAct.k = "write" /\ lastAct.r = "err") => closed

=============================================================================

--------------------- MODULE MC_IntrospectionRegistry ---------------------
EXTENDS IntrospectionRegistry, Json
EdgeDump == PrintT(<<"EDGE", ToJson([s |-> View, a |-> lastAct', t |-> View'])>>)
InitDump == (lastAct.k = "init") => PrintT(<<"INIT", ToJson(View)>>)
=============================================================================

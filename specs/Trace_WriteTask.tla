---------------------------- MODULE Trace_WriteTask ----------------------------
(***************************************************************************)
(* P for the write-task core (C01 / C03 / C04 / C14 at component level) as *)
(* a trace specification: only the ghost part of WriteTask.tla is driven,  *)
(* from what was pushed into the real WriteTaskHarness and the frames it   *)
(* really wrote.  Used for executions that differ from the mechanism model.*)
(*   reset | attach r | link r lane | unlink r lane queued infl            *)
(*   push lane target resp | done r frames drained | fail r                *)
(*   lanefail lane infl:[r -> frames] | prune r | unknown r                *)
(* "infl" = the frames of the write that was in flight for that remote when*)
(* the unlinked had to queue (known from the rest of the recorded trace).  *)
(***************************************************************************)
EXTENDS WriteTask, Json, IOUtils

Rec == ndJsonDeserialize(IOEnv.TRACE)
VARIABLE i
tvars == <<vars, i>>

Max(a, b) == IF a > b THEN a ELSE b
Has(e, f) == f \in DOMAIN e

TraceInit == Init /\ i = 1 /\ TLCSet(1, 1)

Keep == UNCHANGED <<alive, wr, infl, spq, wq, up, npush, nspec, lastAct>>

GFresh(r) ==
    /\ gopen' = [gopen EXCEPT ![r] = [l \in Lanes |-> FALSE]]
    /\ gval' = [gval EXCEPT ![r] = [l \in Lanes |-> 0]] /\ gdue' = [gdue EXCEPT ![r] = [l \in Lanes |-> 0]]
    /\ gsup' = [gsup EXCEPT ![r] = [l \in Lanes |-> <<>>]] /\ gsyn' = [gsyn EXCEPT ![r] = [l \in Lanes |-> 0]]
    /\ gowed' = [gowed EXCEPT ![r] = [l \in Lanes |-> FALSE]]
    /\ gref' = [gref EXCEPT ![r] = [l \in Lanes |-> EmptyMap]] /\ grep' = [grep EXCEPT ![r] = [l \in Lanes |-> EmptyMap]]

ResetOne(r, l, frs) ==
    LET g == GhostResetF(r, l, frs) IN
    /\ gdue' = [gdue EXCEPT ![r][l] = g.due] /\ gsup' = [gsup EXCEPT ![r][l] = g.sup]
    /\ gref' = [gref EXCEPT ![r][l] = g.ref] /\ gsyn' = [gsyn EXCEPT ![r][l] = g.syn]
    /\ gowed' = [gowed EXCEPT ![r][l] = g.owed]

CaughtUpR(r) ==
    \A l \in Lanes :
       /\ (KindOf[l] = "value" /\ gdue'[r][l] > 0) => gval'[r][l] = gdue'[r][l]
       /\ (KindOf[l] = "supply") => gsup'[r][l] = <<>>
       /\ (KindOf[l] = "map") => grep'[r][l] = gref'[r][l]
       /\ ~gowed'[r][l]

Step(e) ==
    \/ /\ e.e = "reset"
       /\ att' = [r \in Remotes |-> FALSE] /\ linked' = {}
       /\ gopen' = RL(FALSE) /\ gval' = RL(0) /\ gdue' = RL(0) /\ gsup' = RL(<<>>)
       /\ gref' = RL(EmptyMap) /\ grep' = RL(EmptyMap) /\ gsyn' = RL(0) /\ gowed' = RL(FALSE) /\ ok' = TRUE
       /\ Keep
    \/ /\ e.e = "attach"
       /\ att' = [att EXCEPT ![e.r] = TRUE] /\ GFresh(e.r) /\ UNCHANGED <<linked, ok>> /\ Keep
    \/ /\ e.e = "link"
       /\ linked' = IF att[e.r] THEN linked \cup {<<e.lane, e.r>>} ELSE linked
       /\ UNCHANGED <<att, gvars>> /\ Keep
    \/ /\ e.e = "unlink"
       /\ linked' = linked \ {<<e.lane, e.r>>}
       /\ IF <<e.lane, e.r>> \in linked /\ e.queued
            THEN ResetOne(e.r, e.lane, e.infl) /\ UNCHANGED <<att, gopen, gval, grep, ok>>
            ELSE UNCHANGED <<att, gvars>>
       /\ Keep
    \/ /\ e.e \in {"unknown", "prune"}
       /\ att' = IF e.e = "prune" /\ ~\E p \in linked : p[2] = e.r THEN [att EXCEPT ![e.r] = FALSE] ELSE att
       /\ UNCHANGED <<linked, gvars>> /\ Keep
    \/ /\ e.e = "push"
       /\ LET T == IF e.target = 0 THEN {r \in Remotes : <<e.lane, r>> \in linked /\ att[r]}
                   ELSE IF att[e.target] THEN {e.target} ELSE {} IN
          /\ linked' = IF e.target = 0 THEN linked ELSE linked \cup {<<e.lane, e.target>>}
          /\ gdue' = [r \in Remotes |-> IF r \in T THEN [gdue[r] EXCEPT ![e.lane] = GhostPush(r, e.lane, e.resp, G(r, e.lane)).due] ELSE gdue[r]]
          /\ gsup' = [r \in Remotes |-> IF r \in T THEN [gsup[r] EXCEPT ![e.lane] = GhostPush(r, e.lane, e.resp, G(r, e.lane)).sup] ELSE gsup[r]]
          /\ gref' = [r \in Remotes |-> IF r \in T THEN [gref[r] EXCEPT ![e.lane] = GhostPush(r, e.lane, e.resp, G(r, e.lane)).ref] ELSE gref[r]]
          /\ gsyn' = [r \in Remotes |-> IF r \in T THEN [gsyn[r] EXCEPT ![e.lane] = GhostPush(r, e.lane, e.resp, G(r, e.lane)).syn] ELSE gsyn[r]]
          /\ gowed' = [r \in Remotes |-> IF r \in T THEN [gowed[r] EXCEPT ![e.lane] = GhostPush(r, e.lane, e.resp, G(r, e.lane)).owed] ELSE gowed[r]]
       /\ UNCHANGED <<att, gopen, gval, grep, ok>> /\ Keep
    \/ /\ e.e = "done"
       /\ LET st == EmitAll(e.r, e.frames, GState(e.r)) IN
          /\ st.ok                     \* every frame that was written is allowed by P
          /\ gopen' = [gopen EXCEPT ![e.r] = st.open] /\ gval' = [gval EXCEPT ![e.r] = st.val]
          /\ gsup' = [gsup EXCEPT ![e.r] = st.sup] /\ grep' = [grep EXCEPT ![e.r] = st.rep]
          /\ gsyn' = [gsyn EXCEPT ![e.r] = st.syn] /\ gowed' = [gowed EXCEPT ![e.r] = st.owed] /\ ok' = st.ok
       /\ UNCHANGED <<att, linked, gdue, gref>> /\ Keep
       /\ e.drained => CaughtUpR(e.r)    \* the writer is back: everything owed has been sent
    \/ /\ e.e = "fail"
       /\ att' = [att EXCEPT ![e.r] = FALSE] /\ linked' = {p \in linked : p[2] # e.r}
       /\ UNCHANGED gvars /\ Keep
    \/ /\ e.e = "lanefail"
       /\ linked' = {p \in linked : p[1] # e.lane}
       /\ LET T == {r \in Remotes : <<e.lane, r>> \in linked /\ att[r] /\ e.queued[r]} IN
          /\ gdue' = [r \in Remotes |-> IF r \in T THEN [gdue[r] EXCEPT ![e.lane] = GhostResetF(r, e.lane, e.infl[r]).due] ELSE gdue[r]]
          /\ gsup' = [r \in Remotes |-> IF r \in T THEN [gsup[r] EXCEPT ![e.lane] = GhostResetF(r, e.lane, e.infl[r]).sup] ELSE gsup[r]]
          /\ gref' = [r \in Remotes |-> IF r \in T THEN [gref[r] EXCEPT ![e.lane] = GhostResetF(r, e.lane, e.infl[r]).ref] ELSE gref[r]]
          /\ gsyn' = [r \in Remotes |-> IF r \in T THEN [gsyn[r] EXCEPT ![e.lane] = GhostResetF(r, e.lane, e.infl[r]).syn] ELSE gsyn[r]]
          /\ gowed' = [r \in Remotes |-> IF r \in T THEN [gowed[r] EXCEPT ![e.lane] = GhostResetF(r, e.lane, e.infl[r]).owed] ELSE gowed[r]]
       /\ UNCHANGED <<att, gopen, gval, grep, ok>> /\ Keep

TraceNext == /\ i <= Len(Rec)
             /\ Step(Rec[i])
             /\ i' = i + 1
             /\ TLCSet(1, Max(TLCGet(1), i + 1))

TraceSpec == TraceInit /\ [][TraceNext]_tvars

TraceAccepted ==
    LET m == TLCGet(1) IN
    /\ PrintT(<<"TRACE_RESULT", ToJson([accepted |-> (m = Len(Rec) + 1), matched |-> m - 1, total |-> Len(Rec), kf |-> <<>>])>>)
    /\ m = Len(Rec) + 1
=============================================================================

--------------------------------- MODULE Lanes ---------------------------------
(***************************************************************************)
(* Mechanism specification (M) of the agent-side lane objects of           *)
(* swimos_agent, one lane per model (constant Kind), one action per call   *)
(* the agent task makes on a lane; the case analysis inside an action is   *)
(* the case analysis of the code (comments name the branch).               *)
(*                                                                         *)
(*  "value"    lanes/value/mod.rs + stores/value/mod.rs                    *)
(*             ValueLane { store: ValueStore { inner.content, dirty },     *)
(*                         sync_queue }                                    *)
(*  "command"  lanes/command/mod.rs  CommandLane { prev_command, dirty }   *)
(*  "supply"   lanes/supply/mod.rs   SupplyLaneInner { sync_queue,         *)
(*                                                     event_queue }       *)
(*  "demand"   lanes/demand/mod.rs   DemandLane { computed_value,          *)
(*                                               sync_queue, cued }        *)
(*  "map"      lanes/map/mod.rs + map_storage/mod.rs + lanes/queues/mod.rs *)
(*             MapLane { MapStoreInner { content, queue: WriteQueues {     *)
(*             event_queue, sync_queues, next { sync_index, next } } } }   *)
(*             The event queue is modelled as the sequence it denotes (at  *)
(*             most one entry per key, replace in place, a clear empties   *)
(*             it); its epoch index arithmetic is MapQueue.tla's subject.  *)
(*                                                                         *)
(* Calls:  set / command / update / remove / clear / take / drop arriving  *)
(* as commands (AgentSpec::on_value_command / on_map_command: decode, then *)
(* the lane's handler) or made by the agent's own handlers (HandlerContext)*)
(* or through the lane's public methods (replace, transform_entry);        *)
(* sync (AgentSpec::on_sync); write (AgentSpec::write_event =              *)
(* LaneItem::write_to_buffer).  lastAct holds the call and everything M    *)
(* expects back: the frames written, the WriteResult, whether the handler  *)
(* reported the lane as modified, what the lane holds afterwards.          *)
(*                                                                         *)
(* P (LanesP.tla) rides along as the ghost p when Ghost is TRUE; PAccepts  *)
(* is the property.  With Ghost = FALSE the state space is finite and the  *)
(* state graph is dumped for replay on the real lanes (MC_Lanes.tla).      *)
(***************************************************************************)
EXTENDS Integers, Sequences, FiniteSets, TLC, LanesP

CONSTANTS Kind,       \* "value" | "command" | "supply" | "demand" | "map"
          NV,         \* values 1..NV (a value lane starts holding 0)
          NK,         \* map keys 1..NK, as ranks in the documented key order
          Remotes,    \* remote ids that may ask to sync
          MaxSyncQ,   \* bound on the length of a sync_queue (value-like lanes; a remote may ask again before it is answered)
          MaxFifo,    \* bound on a supply lane's event_queue
          MaxMapSync, \* bound on the unanswered sync requests of one remote on a map lane (each has its own snapshot)
          Vias,       \* the ways a call may arrive: subset of {"cmd", "h", "replace", "direct"} (they differ in the code path
                      \* exercised on the real lane, not in their effect on the state: one of them is enough for B3)
          Ghost,      \* maintain P's ghost state
          AllowF12,   \* P's deviation for known finding F12 (a negative control runs with FALSE)
          MaxLag      \* with Ghost: state constraint LagBound

Vals == 1..NV
Keys == 1..NK

VARIABLES val,       \* ValueStore.content | CommandLane.prev_command | DemandLane.computed_value   (0: initial / None)
          dirty,     \* ValueStore.dirty   | CommandLane.dirty        | DemandLane.cued
          syncq,     \* sync_queue of a value / supply / demand lane: Seq(remote id)
          fifo,      \* SupplyLaneInner.event_queue
          content,   \* MapStoreInner.content : [Keys -> 0..NV], 0 = no entry
          evq,       \* WriteQueues.event_queue as a sequence of [op, k]
          syncqs,    \* WriteQueues.sync_queues : Seq([id, keys])
          nextSel,   \* WriteQueues.next.next : "event" | "sync"
          syncIdx,   \* WriteQueues.next.sync_index
          p,         \* ghost: P
          lastAct    \* the call just made and what M expects back (hidden from the VIEW)

vars == <<val, dirty, syncq, fifo, content, evq, syncqs, nextSel, syncIdx, p, lastAct>>
View == [val |-> val, dirty |-> dirty, syncq |-> syncq, fifo |-> fifo, content |-> content, evq |-> evq,
         syncqs |-> syncqs, nextSel |-> nextSel, syncIdx |-> syncIdx]

\* the view of the exhaustive runs with the ghost: everything but lastAct (the laws about lastAct are action properties)
ViewG == <<View, p>>

G(x) == IF Ghost THEN x ELSE p
CurMap == [k \in Keys |-> content[k]]

Frame(t, id, op, k, v) == [t |-> t, id |-> id, op |-> op, k |-> k, v |-> v]
EvF(v) == Frame("event", "", "", 0, v)
SyF(id, v) == Frame("sync", id, "", 0, v)
SdF(id) == Frame("synced", id, "", 0, 0)

-----------------------------------------------------------------------------
(* value lane                                                                *)

\* ValueStore::set / ValueStore::replace: content = v; previous = Some(old); dirty = true.
\* via: "cmd" (on_value_command -> decode_and_set), "h" (HandlerContext::set_value), "replace" (ValueLane::replace)
VSet(via, v) ==
    /\ Kind = "value"
    /\ val' = v /\ dirty' = TRUE
    /\ p' = G(LPSet(p, v, TRUE))
    /\ lastAct' = [k |-> "set", via |-> via, v |-> v, mod |-> TRUE, cur |-> v]
    /\ UNCHANGED <<syncq, fifo, content, evq, syncqs, nextSel, syncIdx>>

\* a command whose body does not decode as the lane's type (Decode fails with BadCommand / IncompleteCommand before the
\* lane is touched): nothing changes, nothing is reported as modified
VBadCmd ==
    /\ Kind = "value" /\ "cmd" \in Vias
    /\ lastAct' = [k |-> "badcmd", what |-> "val", fail |-> TRUE, cur |-> val]
    /\ UNCHANGED <<val, dirty, syncq, fifo, content, evq, syncqs, nextSel, syncIdx, p>>

\* ValueLane::sync: sync_queue.push_back(id)   (the handler reports Modification::no_trigger)
VSync(r) ==
    /\ Kind = "value" /\ Len(syncq) < MaxSyncQ
    /\ syncq' = Append(syncq, r)
    /\ p' = G(LPSync(p, r, TRUE))
    /\ lastAct' = [k |-> "sync", id |-> r, mod |-> TRUE, cur |-> val]
    /\ UNCHANGED <<val, dirty, fifo, content, evq, syncqs, nextSel, syncIdx>>

\* <ValueLane as LaneItem>::write_to_buffer
VWrite ==
    /\ Kind = "value"
    /\ IF syncq # << >>
       THEN \* if let Some(id) = sync.pop_front(): SyncEvent(id, value) and Synced(id) into one buffer; the dirty flag is not touched
            LET id == Head(syncq)
                res == IF dirty \/ Len(syncq) > 1 THEN "more" ELSE "done"      \* store.has_data_to_write() || !sync.is_empty()
                frames == <<SyF(id, val), SdF(id)>> IN
            /\ syncq' = Tail(syncq) /\ dirty' = dirty
            /\ p' = G(LPWrite(p, res, frames))
            /\ lastAct' = [k |-> "write", res |-> res, frames |-> frames, cur |-> val]
       ELSE IF dirty
       THEN \* store.consume(..): dirty.replace(false) and the event is encoded with the value read now
            /\ dirty' = FALSE /\ syncq' = syncq
            /\ p' = G(LPWrite(p, "done", <<EvF(val)>>))
            /\ lastAct' = [k |-> "write", res |-> "done", frames |-> <<EvF(val)>>, cur |-> val]
       ELSE /\ UNCHANGED <<dirty, syncq>>
            /\ p' = G(LPWrite(p, "nodata", << >>))
            /\ lastAct' = [k |-> "write", res |-> "nodata", frames |-> << >>, cur |-> val]
    /\ UNCHANGED <<val, fifo, content, evq, syncqs, nextSel, syncIdx>>

-----------------------------------------------------------------------------
(* command lane                                                              *)

\* CommandLane::command: prev_command = Some(v); dirty = true.   via: "cmd" (decode_and_command) | "h" (HandlerContext::command)
CCommand(via, v) ==
    /\ Kind = "command"
    /\ val' = v /\ dirty' = TRUE
    /\ p' = G(LPSet(p, v, TRUE))
    /\ lastAct' = [k |-> "command", via |-> via, v |-> v, mod |-> TRUE]
    /\ UNCHANGED <<syncq, fifo, content, evq, syncqs, nextSel, syncIdx>>

CBadCmd ==
    /\ Kind = "command" /\ "cmd" \in Vias
    /\ lastAct' = [k |-> "badcmd", what |-> "val", fail |-> TRUE]
    /\ UNCHANGED <<val, dirty, syncq, fifo, content, evq, syncqs, nextSel, syncIdx, p>>

CWrite ==
    /\ Kind = "command"
    /\ IF dirty /\ val # 0          \* if dirty.get() { if let Some(value) = prev_command
       THEN /\ dirty' = FALSE
            /\ p' = G(LPWrite(p, "done", <<EvF(val)>>))
            /\ lastAct' = [k |-> "write", res |-> "done", frames |-> <<EvF(val)>>]
       ELSE /\ dirty' = dirty
            /\ p' = G(LPWrite(p, "nodata", << >>))
            /\ lastAct' = [k |-> "write", res |-> "nodata", frames |-> << >>]
    /\ UNCHANGED <<val, syncq, fifo, content, evq, syncqs, nextSel, syncIdx>>

-----------------------------------------------------------------------------
(* supply lane                                                               *)

\* SupplyLane::push (handler Supply): event_queue.push_back(v); Modification::no_trigger
SPush(v) ==
    /\ Kind = "supply" /\ Len(fifo) < MaxFifo
    /\ fifo' = Append(fifo, v)
    /\ p' = G(LPPush(p, v, TRUE))
    /\ lastAct' = [k |-> "push", v |-> v, mod |-> TRUE]
    /\ UNCHANGED <<val, dirty, syncq, content, evq, syncqs, nextSel, syncIdx>>

SSync(r) ==
    /\ Kind = "supply" /\ Len(syncq) < MaxSyncQ
    /\ syncq' = Append(syncq, r)
    /\ p' = G(LPSync(p, r, TRUE))
    /\ lastAct' = [k |-> "sync", id |-> r, mod |-> TRUE]
    /\ UNCHANGED <<val, dirty, fifo, content, evq, syncqs, nextSel, syncIdx>>

\* <SupplyLane as LaneItem>::write_to_buffer: a pending sync is answered first (synced alone), else one item;
\* the result is computed from what is left and is never NoData (an idle lane answers Done with an empty buffer)
SWrite ==
    /\ Kind = "supply"
    /\ LET frames == IF syncq # << >> THEN <<SdF(Head(syncq))>>
                     ELSE IF fifo # << >> THEN <<EvF(Head(fifo))>> ELSE << >>
           sq2 == IF syncq # << >> THEN Tail(syncq) ELSE syncq
           ff2 == IF syncq = << >> /\ fifo # << >> THEN Tail(fifo) ELSE fifo
           res == IF ff2 # << >> \/ sq2 # << >> THEN "more" ELSE "done" IN
       /\ syncq' = sq2 /\ fifo' = ff2
       /\ p' = G(LPWrite(p, res, frames))
       /\ lastAct' = [k |-> "write", res |-> res, frames |-> frames]
    /\ UNCHANGED <<val, dirty, content, evq, syncqs, nextSel, syncIdx>>

-----------------------------------------------------------------------------
(* demand lane.  The agent runs the lane's on_cue handler (Demand: computed_ *)
(* value = Some(v)) in the same event cycle as the Cue / the sync request    *)
(* that triggered it, before any write: one atomic call each.                *)

DCue(v) ==
    /\ Kind = "demand"
    /\ dirty' = TRUE /\ val' = v
    /\ p' = G(LPCue(p, v, TRUE))
    /\ lastAct' = [k |-> "cue", v |-> v, mod |-> TRUE]
    /\ UNCHANGED <<syncq, fifo, content, evq, syncqs, nextSel, syncIdx>>

DSync(r, v) ==
    /\ Kind = "demand" /\ Len(syncq) < MaxSyncQ
    /\ syncq' = Append(syncq, r) /\ val' = v
    /\ p' = G(LPDSync(p, r, v, TRUE))
    /\ lastAct' = [k |-> "dsync", id |-> r, v |-> v, mod |-> TRUE]
    /\ UNCHANGED <<dirty, fifo, content, evq, syncqs, nextSel, syncIdx>>

DWrite ==
    /\ Kind = "demand"
    /\ IF val # 0 /\ syncq # << >>
       THEN LET id == Head(syncq)
                more == dirty \/ Len(syncq) > 1        \* cued.get() || !sync_queue.is_empty()
                res == IF more THEN "more" ELSE "done"
                frames == <<SyF(id, val), SdF(id)>> IN
            /\ syncq' = Tail(syncq) /\ dirty' = dirty
            /\ val' = IF more THEN val ELSE 0           \* *computed_value = None
            /\ p' = G(LPWrite(p, res, frames))
            /\ lastAct' = [k |-> "write", res |-> res, frames |-> frames]
       ELSE IF val # 0 /\ dirty
       THEN /\ dirty' = FALSE /\ val' = 0 /\ syncq' = syncq
            /\ p' = G(LPWrite(p, "done", <<EvF(val)>>))
            /\ lastAct' = [k |-> "write", res |-> "done", frames |-> <<EvF(val)>>]
       ELSE /\ UNCHANGED <<val, dirty, syncq>>
            /\ p' = G(LPWrite(p, "nodata", << >>))
            /\ lastAct' = [k |-> "write", res |-> "nodata", frames |-> << >>]
    /\ UNCHANGED <<fifo, content, evq, syncqs, nextSel, syncIdx>>

-----------------------------------------------------------------------------
(* map lane                                                                  *)

ClrE == [op |-> "clr", k |-> 0]
EHas(q, c) == \E j \in DOMAIN q : q[j].k = c /\ q[j].op # "clr"
EIdx(q, c) == CHOOSE j \in DOMAIN q : q[j].k = c /\ q[j].op # "clr"
\* EventQueue::push of a keyed action: replace the queued entry of the key in place, or append
EPut(q, op, c) == IF EHas(q, c) THEN [q EXCEPT ![EIdx(q, c)] = [op |-> op, k |-> c]] ELSE Append(q, [op |-> op, k |-> c])
WqEmpty(q, sqs) == q = << >> /\ Len(sqs) = 0       \* WriteQueues::is_empty
Present == {c \in Keys : content[c] # 0}

\* MapStoreInner::update: content.insert; queue.push(Update)      via: "cmd" (on_map_command) | "h" (HandlerContext::update)
MUpdate(via, c, v) ==
    /\ Kind = "map"
    /\ content' = [content EXCEPT ![c] = v]
    /\ evq' = EPut(evq, "upd", c)
    /\ p' = G(LPMapUpd(p, c, v, TRUE))
    /\ lastAct' = [k |-> "upd", via |-> via, key |-> c, v |-> v, mod |-> TRUE, cur |-> [content EXCEPT ![c] = v]]
    /\ UNCHANGED <<val, dirty, syncq, fifo, syncqs, nextSel, syncIdx>>

\* MapStoreInner::remove: if let Some(prev) = content.remove(key) { queue.push(Remove) } - nothing for an absent key,
\* but the handler MapLaneRemove reports Modification::of(lane) either way
MRemove(via, c) ==
    /\ Kind = "map"
    /\ IF content[c] # 0
       THEN content' = [content EXCEPT ![c] = 0] /\ evq' = EPut(evq, "rem", c)
       ELSE UNCHANGED <<content, evq>>
    /\ p' = G(LPMapRem(p, c, TRUE))
    /\ lastAct' = [k |-> "rem", via |-> via, key |-> c, mod |-> TRUE, cur |-> [content EXCEPT ![c] = 0]]
    /\ UNCHANGED <<val, dirty, syncq, fifo, syncqs, nextSel, syncIdx>>

\* MapStoreInner::clear: content.take(); queue.push(Clear)  (also when the map is already empty)
MClear(via) ==
    /\ Kind = "map"
    /\ content' = [c \in Keys |-> 0]
    /\ evq' = <<ClrE>>
    /\ p' = G(LPMapClr(p, TRUE))
    /\ lastAct' = [k |-> "clr", via |-> via, mod |-> TRUE, cur |-> [c \in Keys |-> 0]]
    /\ UNCHANGED <<val, dirty, syncq, fifo, syncqs, nextSel, syncIdx>>

\* an update / remove command whose key or value text does not decode (DecodeMapMessage fails before MapLaneUpdate runs)
MBadCmd(what) ==
    /\ Kind = "map" /\ "cmd" \in Vias
    /\ lastAct' = [k |-> "badcmd", what |-> what, fail |-> TRUE, cur |-> CurMap]
    /\ UNCHANGED <<val, dirty, syncq, fifo, content, evq, syncqs, nextSel, syncIdx, p>>

\* MapStoreInner::transform_entry(key, f) with f = (_ => to), to = 0 meaning None.
\* via: "h" (HandlerContext::transform_entry: Modification unless NoChange) | "direct" (MapLane::transform_entry)
MTransform(via, c, to) ==
    /\ Kind = "map"
    /\ LET pres == content[c] # 0
           out == IF to # 0 THEN "update" ELSE IF pres THEN "remove" ELSE "nochange" IN
       /\ content' = [content EXCEPT ![c] = to]
       /\ evq' = IF out = "update" THEN EPut(evq, "upd", c) ELSE IF out = "remove" THEN EPut(evq, "rem", c) ELSE evq
       /\ p' = G(IF to # 0 THEN LPMapUpd(p, c, to, TRUE) ELSE LPMapRem(p, c, out # "nochange"))
       /\ lastAct' = [k |-> "tr", via |-> via, key |-> c, to |-> to, out |-> out, mod |-> (out # "nochange"),
                      cur |-> [content EXCEPT ![c] = to]]
    /\ UNCHANGED <<val, dirty, syncq, fifo, syncqs, nextSel, syncIdx>>

\* MapLaneDropOrTake (a Drop / Take command): drop_or_take(map, kind, n), then MapLaneRemoveMultiple removes each key in order;
\* the lane is reported as modified once per removed key (not at all if nothing is removed)
RECURSIVE RemAll(_, _)
RemAll(q, ks) == IF ks = << >> THEN q ELSE RemAll(EPut(q, "rem", Head(ks)), Tail(ks))
MTakeDrop(kind, n) ==
    /\ Kind = "map"
    /\ LET removed == TDRemoved(Present, kind, n)
           S == {removed[j] : j \in DOMAIN removed}
           c2 == [c \in Keys |-> IF c \in S THEN 0 ELSE content[c]] IN
       /\ content' = c2
       /\ evq' = RemAll(evq, removed)
       /\ p' = G(LPMapTd(p, kind, n, S # {}))
       /\ lastAct' = [k |-> kind, n |-> n, mod |-> (S # {}), cur |-> c2]
    /\ UNCHANGED <<val, dirty, syncq, fifo, syncqs, nextSel, syncIdx>>

\* MapLane::sync: keys = content.keys() (key order for an ordered backing); queue.sync(id, keys)
MSync(r) ==
    /\ Kind = "map"
    /\ Cardinality({j \in DOMAIN syncqs : syncqs[j].id = r}) < MaxMapSync
    /\ syncqs' = Append(syncqs, [id |-> r, keys |-> PSorted(Present)])
    /\ p' = G(LPSync(p, r, TRUE))
    /\ lastAct' = [k |-> "sync", id |-> r, mod |-> TRUE, cur |-> CurMap]
    /\ UNCHANGED <<val, dirty, syncq, fifo, content, evq, nextSel, syncIdx>>

Flip(s) == IF s = "event" THEN "sync" ELSE "event"
\* update_sync_queues: Update / Remove => queue.remove(k) in every snapshot ; Clear => every snapshot emptied
PruneKey(sqs, c) == [j \in DOMAIN sqs |-> [sqs[j] EXCEPT !.keys = SelectSeq(@, LAMBDA x : x # c)]]
PruneAll(sqs) == [j \in DOMAIN sqs |-> [sqs[j] EXCEPT !.keys = << >>]]
RemoveAt(s, j) == SubSeq(s, 1, j - 1) \o SubSeq(s, j + 1, Len(s))
NoRaw == [t |-> "none", op |-> "", id |-> "", k |-> 0]

\* WriteQueues::pop   st = [evq, syncqs, nextSel, syncIdx]
RawPop(st) ==
    LET sel == st.nextSel                          \* let selection = next.flip();
        st1 == [st EXCEPT !.nextSel = Flip(sel)] IN
    IF (sel = "event" /\ st.evq # << >>) \/ Len(st.syncqs) = 0
    THEN IF st.evq # << >>
         THEN LET e == Head(st.evq) IN
              [st  |-> [st1 EXCEPT !.evq = Tail(st.evq),
                                   !.syncqs = IF e.op = "clr" THEN PruneAll(@) ELSE PruneKey(@, e.k)],
               raw |-> [t |-> "event", op |-> e.op, id |-> "", k |-> e.k]]
         ELSE [st |-> st1, raw |-> NoRaw]
    ELSE IF st.syncIdx < Len(st.syncqs)            \* sync_queues.get_mut(*sync_index)
    THEN LET sq == st.syncqs[st.syncIdx + 1] IN
         IF Len(sq.keys) > 0
         THEN [st  |-> [st1 EXCEPT !.syncqs[st.syncIdx + 1].keys = Tail(@),
                                   !.syncIdx = (st.syncIdx + 1) % Len(st.syncqs)],
               raw |-> [t |-> "sync", op |-> "upd", id |-> sq.id, k |-> Head(sq.keys)]]
         ELSE LET rest == RemoveAt(st.syncqs, st.syncIdx + 1) IN
              [st  |-> [st1 EXCEPT !.syncqs = rest,
                                   !.syncIdx = IF st.syncIdx >= Len(rest) THEN 0 ELSE st.syncIdx],
               raw |-> [t |-> "synced", op |-> "", id |-> sq.id, k |-> 0]]
    ELSE [st |-> st1, raw |-> NoRaw]

\* <WriteQueues as MapEventQueue>::pop: loop { match WriteQueues::pop(self)? { .. } }
\*   Event(Update k): to_operation reads the value NOW (no entry: nothing emitted, loop) ; Event(Remove / Clear): emitted
\*   SyncEvent(id, k): content.get(k) NOW (no entry: loop) ; Synced(id): emitted
RECURSIVE PopLoop(_)
PopLoop(st) ==
    LET r == RawPop(st)  raw == r.raw IN
    IF raw.t = "none" THEN [st |-> r.st, frames |-> << >>]
    ELSE IF raw.t = "synced" THEN [st |-> r.st, frames |-> <<SdF(raw.id)>>]
    ELSE IF raw.op = "upd"
         THEN IF content[raw.k] = 0 THEN PopLoop(r.st)
              ELSE [st |-> r.st, frames |-> <<Frame(raw.t, raw.id, "upd", raw.k, content[raw.k])>>]
    ELSE [st |-> r.st, frames |-> <<Frame("event", "", raw.op, raw.k, 0)>>]

\* <MapLane as LaneItem>::write_to_buffer: one response per call
MWrite ==
    /\ Kind = "map"
    /\ LET r == PopLoop([evq |-> evq, syncqs |-> syncqs, nextSel |-> nextSel, syncIdx |-> syncIdx])
           res == IF r.frames = << >> THEN "nodata"
                  ELSE IF WqEmpty(r.st.evq, r.st.syncqs) THEN "done" ELSE "more" IN
       /\ evq' = r.st.evq /\ syncqs' = r.st.syncqs /\ nextSel' = r.st.nextSel /\ syncIdx' = r.st.syncIdx
       /\ p' = G(LPWrite(p, res, r.frames))
       /\ lastAct' = [k |-> "write", res |-> res, frames |-> r.frames, cur |-> CurMap]
    /\ UNCHANGED <<val, dirty, syncq, fifo, content>>

-----------------------------------------------------------------------------
Init ==
    /\ val = 0 /\ dirty = FALSE /\ syncq = << >> /\ fifo = << >>
    /\ content = [c \in Keys |-> 0] /\ evq = << >> /\ syncqs = << >> /\ nextSel = "event" /\ syncIdx = 0
    /\ p = LPInit(Kind, NK, Remotes, IF AllowF12 THEN {"F12"} ELSE {}, "", {})
    /\ lastAct = [k |-> "init"]

\* (named cases so that TLC's coverage report shows each of them)
VSetCmd(v) == "cmd" \in Vias /\ VSet("cmd", v)
VSetHandler(v) == "h" \in Vias /\ VSet("h", v)
VReplace(v) == "replace" \in Vias /\ VSet("replace", v)
CCommandCmd(v) == "cmd" \in Vias /\ CCommand("cmd", v)
CCommandHandler(v) == "h" \in Vias /\ CCommand("h", v)
MUpdateCmd(c, v) == "cmd" \in Vias /\ MUpdate("cmd", c, v)
MUpdateHandler(c, v) == "h" \in Vias /\ MUpdate("h", c, v)
MRemoveCmd(c) == "cmd" \in Vias /\ MRemove("cmd", c)
MRemoveHandler(c) == "h" \in Vias /\ MRemove("h", c)
MClearCmd == "cmd" \in Vias /\ MClear("cmd")
MClearHandler == "h" \in Vias /\ MClear("h")
MTransformHandler(c, to) == "h" \in Vias /\ MTransform("h", c, to)
MTransformDirect(c, to) == "direct" \in Vias /\ MTransform("direct", c, to)
MTake(n) == MTakeDrop("take", n)
MDrop(n) == MTakeDrop("drop", n)

Next ==
    \/ \E v \in Vals : VSetCmd(v) \/ VSetHandler(v) \/ VReplace(v)
    \/ VBadCmd
    \/ \E r \in Remotes : VSync(r)
    \/ VWrite
    \/ \E v \in Vals : CCommandCmd(v) \/ CCommandHandler(v)
    \/ CBadCmd
    \/ CWrite
    \/ \E v \in Vals : SPush(v)
    \/ \E r \in Remotes : SSync(r)
    \/ SWrite
    \/ \E v \in Vals : DCue(v)
    \/ \E r \in Remotes, v \in Vals : DSync(r, v)
    \/ DWrite
    \/ \E c \in Keys, v \in Vals : MUpdateCmd(c, v) \/ MUpdateHandler(c, v)
    \/ \E c \in Keys : MRemoveCmd(c) \/ MRemoveHandler(c)
    \/ MClearCmd \/ MClearHandler
    \/ \E w \in {"key", "val", "remkey"} : MBadCmd(w)
    \/ \E c \in Keys, to \in 0..NV : MTransformHandler(c, to) \/ MTransformDirect(c, to)
    \/ \E n \in 0..(NK + 1) : MTake(n) \/ MDrop(n)
    \/ \E r \in Remotes : MSync(r)
    \/ MWrite

Spec == Init /\ [][Next]_vars

LagBound == LPLag(p) <= MaxLag

-----------------------------------------------------------------------------
(* P: everything the lane wrote, and every result it returned, was acceptable (C01 / C02 / C03 / C14 at lane level) *)
PAccepts == Ghost => p.ok
\* the only deviation P ever took is the listed one
OnlyListedDeviations == \A x \in p.kf : x.id = "F12"

(* M-only sanity and the exact form of W for this implementation *)
TypeOK ==
    /\ val \in 0..NV /\ dirty \in BOOLEAN
    /\ content \in [Keys -> 0..NV]
    /\ nextSel \in {"event", "sync"}
    /\ \A j \in DOMAIN syncq : syncq[j] \in Remotes
    /\ Len(syncq) <= MaxSyncQ /\ Len(fifo) <= MaxFifo

\* NextWrite.sync_index points into sync_queues (or they are empty and it is 0)
SyncIdxOk == IF Len(syncqs) = 0 THEN syncIdx = 0 ELSE syncIdx < Len(syncqs)

\* the event queue holds at most one entry per key, a clear only at its head, never an Update for a key without an entry
\* (so to_operation's None branch is dead) nor a Remove for a key that has one
EventQueueOk ==
    /\ \A a, b \in DOMAIN evq : (a # b /\ evq[a].op # "clr" /\ evq[b].op # "clr") => evq[a].k # evq[b].k
    /\ \A a \in DOMAIN evq : evq[a].op = "clr" => a = 1
    /\ \A a \in DOMAIN evq : /\ evq[a].op = "upd" => content[evq[a].k] # 0
                             /\ evq[a].op = "rem" => content[evq[a].k] = 0

\* a snapshot never lists a key twice
SnapshotsOk == \A j \in DOMAIN syncqs : \A a, b \in DOMAIN syncqs[j].keys : a # b => syncqs[j].keys[a] # syncqs[j].keys[b]

\* exactly what is left to write, in this implementation's terms
Pending ==
    CASE Kind \in {"value", "demand"} -> dirty \/ syncq # << >>
      [] Kind = "command" -> dirty
      [] Kind = "supply" -> fifo # << >> \/ syncq # << >>
      [] Kind = "map" -> ~WqEmpty(evq, syncqs)

\* W, exact: NoData iff nothing was written; Done => nothing left; DataStillAvailable => something left
\* (a supply lane answers Done, not NoData, when idle: the one place where "Done" comes with an empty buffer)
ResultExact ==
    lastAct.k = "write" =>
        /\ lastAct.res = "nodata" => lastAct.frames = << >>
        /\ (lastAct.frames = << >> /\ Kind # "supply") => lastAct.res = "nodata"
        /\ lastAct.res \in {"nodata", "done"} => ~Pending
        /\ lastAct.res = "more" => Pending

\* the same as an action property (checked on every transition, also when lastAct is hidden by a VIEW)
ResultExactAct == [][ResultExact']_vars

\* a demand lane holds a computed value exactly while it has something to write with it
DemandComputedOk == Kind = "demand" => ((val # 0) <=> (dirty \/ syncq # << >>))
=============================================================================

------------------------------ MODULE MC_Recon ------------------------------
(***************************************************************************)
(* Evaluation of the C09 laws (Recon.tla, section 4) over the observation  *)
(* table recorded from the real implementation.  The table is an ndjson    *)
(* file (environment variable TABLE), one row per generated case; TLC      *)
(* steps through it, one action per kind of row, and collects the rows     *)
(* that break a law together with the names of the broken laws.            *)
(* Nothing is decided outside TLC: the harness only records ids of inputs  *)
(* and outputs, and the Python driver only maps the broken (row, law)      *)
(* pairs reported here to VIOLATION / KNOWN-FINDING lines.                 *)
(***************************************************************************)
EXTENDS Recon, Json, IOUtils

Rows == ndJsonDeserialize(IOEnv.TABLE)

VARIABLES i
vars == <<i>>

\* register 1: number of rows evaluated; register 2: sequence of [id, laws] for rows that break a law;
\* registers 3..7: per law, how many rows it was non-vacuously evaluated on
LawInit == /\ i = 1
           /\ TLCSet(1, 0) /\ TLCSet(2, <<>>)
           /\ \A j \in 1..Len(LawNames) : TLCSet(2 + j, 0)

\* a law is exercised by a row when its premise holds (non-vacuity statistics)
Exercises(name, r) ==
    CASE name = "Total" -> TRUE
      [] name = "RoundTrip" -> Total(r) /\ ~Flag(r, "nonfinite") /\ ~Flag(r, "skip") /\
                               (r.k = "typed" \/ (r.k = "value" /\ Flag(r, "produced")) \/ (r.k = "text" /\ Has(r, "vid")))
      [] name = "FixedPoint" -> Total(r) /\ r.k \in {"value", "text"} /\ ~Flag(r, "nonfinite") /\ Has(r, "pr")
      [] name = "ChunkIndependent" -> Total(r) /\ Has(r, "chunk")
      [] name = "CallsLaw" -> Total(r) /\ Has(r, "chunk") /\ \E j \in 1..Len(r.chunk) : Has(r.chunk[j], "sample")

Evaluate(r) ==
    LET b == Broken(r) IN
    /\ TLCSet(1, TLCGet(1) + 1)
    /\ \A j \in 1..Len(LawNames) : Exercises(LawNames[j], r) => TLCSet(2 + j, TLCGet(2 + j) + 1)
    /\ (b # {}) => TLCSet(2, Append(TLCGet(2), [id |-> r.id, laws |-> b]))

CheckValueRow == /\ i <= Len(Rows) /\ Total(Rows[i]) /\ Rows[i].k = "value"
                 /\ Evaluate(Rows[i]) /\ i' = i + 1
CheckTypedRow == /\ i <= Len(Rows) /\ Total(Rows[i]) /\ Rows[i].k = "typed"
                 /\ Evaluate(Rows[i]) /\ i' = i + 1
CheckTextRow  == /\ i <= Len(Rows) /\ Total(Rows[i]) /\ Rows[i].k = "text"
                 /\ Evaluate(Rows[i]) /\ i' = i + 1
\* a panic or a hang in the code under test: the row carries nothing else
CheckFailedRow == /\ i <= Len(Rows) /\ ~Total(Rows[i])
                  /\ Evaluate(Rows[i]) /\ i' = i + 1

LawNext == CheckValueRow \/ CheckTypedRow \/ CheckTextRow \/ CheckFailedRow
LawSpec == LawInit /\ [][LawNext]_vars

LawsEvaluated ==
    PrintT(<<"LAW_RESULT", ToJson([rows |-> TLCGet(1), total |-> Len(Rows), broken |-> TLCGet(2),
                                   exercised |-> [j \in 1..Len(LawNames) |-> TLCGet(2 + j)],
                                   laws |-> LawNames])>>)
=============================================================================

---------------------------- MODULE MC_ReconChunk ----------------------------
(***************************************************************************)
(* ReconChunk + the dump of every complete way of cutting a frame that     *)
(* TLC explored (PLAN): the cut plans the harness applies to the real      *)
(* decoders.  With VIEW = all variables (the plan is part of the state)    *)
(* every plan is a distinct terminal state and is printed exactly once.    *)
(***************************************************************************)
EXTENDS ReconChunk, Json

EmitPlan == Finished => PrintT(<<"PLAN", ToJson([l |-> L, v |-> V, kind |-> kind, hdr |-> hcut, cuts |-> cuts,
                                                 result |-> result, consumed |-> consumed])>>)
=============================================================================

----------------------------- MODULE ReconCompare -----------------------------
(***************************************************************************)
(* C15 - comparing and hashing Recon text agrees with comparing parsed     *)
(* values.                                                                 *)
(*                                                                         *)
(*  D  DATA MODEL.  Abstract Recon values (leaves, records with attributes *)
(*     and items, slots) at small scope, and for every value its           *)
(*     RENDERINGS: token sequences produced by Render(v, style) for the    *)
(*     formatting freedoms of Recon (separator , ; newline, padding,       *)
(*     `@a` / `@a()`, `@a` / `@a{}`, implicit `@a(1,2)` / braced           *)
(*     `@a({1,2})` attribute bodies, `@a{1}` / `@a 1`, bare / quoted       *)
(*     text, decimal / hex / leading-zero numbers, float spellings).       *)
(*     NEAR MISSES are single abstract edits of a value (Edit), INVALID    *)
(*     texts are corruptions of a rendering (Corrupt).  TLC enumerates     *)
(*     the state space  value -> edited value -> rendering -> corruption   *)
(*     (module MC_ReconCompare dumps it); the check joins the tokens to    *)
(*     text, adds the output of the three real printers, and the harness   *)
(*     observes compare_recon_values, recon_hash, parse + Value::eq.       *)
(*                                                                         *)
(*  P  PROPERTY.  The laws of the statement over the observed pair table   *)
(*     (module Laws_ReconCompare evaluates them with TLC).                 *)
(*                                                                         *)
(*  M  MECHANISM.  What the implementation is meant to compute:            *)
(*     NormalForm(v)  - the value up to Value::eq (the sign of a float     *)
(*                      zero is not observable); compare and parse-eq      *)
(*                      agree with equality of normal forms;               *)
(*     HashEvents(v, style) - the event stream HashParser feeds to the     *)
(*                      hasher: numbers normalised (one key per number),   *)
(*                      floats by bit pattern, and StartBody / EndRecord   *)
(*                      inserted around an implicit attribute body exactly *)
(*                      when the LEXICAL SCAN is_implicit_record finds a   *)
(*                      `,` `;` or `:` before the closing `)`              *)
(*                      (recon_parser/record/hash.rs).                     *)
(*     M is compared with the observations (MODEL-DRIFT only) and tells    *)
(*     which pairs the unchanged code is known to get wrong.               *)
(***************************************************************************)
EXTENDS Integers, Sequences, FiniteSets, TLC

CONSTANTS Wide      \* FALSE: quick scope, TRUE: thorough scope (more components, more special leaves)

-----------------------------------------------------------------------------
(* D. values *)

None == [t |-> "none"]
Leaf(id) == [t |-> "leaf", id |-> id]
Rec(attrs, items) == [t |-> "rec", attrs |-> attrs, items |-> items]
Attr(n, b) == [name |-> n, body |-> b]                      \* b = None: `@n`
VItem(v) == [slot |-> FALSE, key |-> None, val |-> v]
SItem(k, v) == [slot |-> TRUE, key |-> k, val |-> v]        \* v = Leaf("ext"): `k:`

N1 == Leaf("n1")
TA == Leaf("ta")
Ext == Leaf("ext")
\* generic leaves used to build structure; special leaves are put in by edits
Generic == {N1, TA}
SpecialLeafIds == IF Wide THEN {"n2", "nbig", "f0", "fneg0", "fh", "tb", "tsp", "tcomma", "tcolon", "tclose", "topen", "tbrace", "bt", "blob"}
                          ELSE {"n2", "f0", "fneg0", "tsp", "tcomma", "tclose", "topen", "bt"}
LeafIds == {"n1", "ta", "ext"} \cup SpecialLeafIds

Items1(X) == {VItem(x) : x \in X} \cup {SItem(k, x) : k \in Generic, x \in X \cup {Ext}}
SeqUpTo2(S) == {<<>>} \cup {<<a>> : a \in S} \cup {<<a, b>> : a, b \in S}
AttrOpts(X) == {<<>>} \cup {<<Attr("a", b)>> : b \in X \cup {None}}
RecsOver(X) == {Rec(as, is) : as \in AttrOpts(X), is \in SeqUpTo2(Items1(X))}

E0 == Rec(<<>>, <<>>)
\* components of the second level: the shapes around which implicit / explicit forms differ
CompQuick == {N1, TA, E0,
              Rec(<<>>, <<VItem(N1)>>),
              Rec(<<>>, <<VItem(N1), VItem(TA)>>),
              Rec(<<Attr("b", None)>>, <<>>),
              Rec(<<Attr("b", Rec(<<>>, <<VItem(N1), VItem(TA)>>))>>, <<>>)}
CompWide == CompQuick \cup
             {Rec(<<>>, <<SItem(TA, N1)>>),
              Rec(<<Attr("b", N1)>>, <<>>),
              Rec(<<Attr("b", None)>>, <<VItem(N1)>>),
              Rec(<<>>, <<VItem(Rec(<<>>, <<VItem(N1)>>))>>)}
Comp == IF Wide THEN CompWide ELSE CompQuick

TwoAttrs == {Rec(<<Attr("a", x), Attr("b", y)>>, is) : x, y \in {None, N1, Rec(<<>>, <<VItem(N1), VItem(TA)>>)},
                                                      is \in {<<>>, <<VItem(N1)>>, <<VItem(N1), VItem(TA)>>}}
BaseValues == Generic \cup RecsOver(Generic) \cup RecsOver(Comp) \cup TwoAttrs

-----------------------------------------------------------------------------
(* D. near misses: one abstract edit *)

IsRec(v) == v.t = "rec"
Front(s) == SubSeq(s, 1, Len(s) - 1)
ReplaceAt(s, i, x) == [s EXCEPT ![i] = x]

RECURSIVE NumLeaves(_)
SumLeaves(s, f(_)) == LET RECURSIVE Sum(_) Sum(i) == IF i > Len(s) THEN 0 ELSE f(s[i]) + Sum(i + 1) IN Sum(1)
NumLeaves(v) ==
    CASE v.t = "none" -> 0
      [] v.t = "leaf" -> 1
      [] v.t = "rec" -> SumLeaves(v.attrs, LAMBDA a : NumLeaves(a.body)) +
                        SumLeaves(v.items, LAMBDA i : (IF i.slot THEN NumLeaves(i.key) ELSE 0) + NumLeaves(i.val))

\* replace the n-th leaf (document order) of v by l
RECURSIVE ReplaceLeaf(_, _, _)
RECURSIVE ReplaceInAttrs(_, _, _, _), ReplaceInItems(_, _, _, _)
ReplaceInAttrs(as, i, n, l) ==
    IF i > Len(as) THEN as
    ELSE LET k == NumLeaves(as[i].body) IN
         IF n <= k THEN ReplaceAt(as, i, Attr(as[i].name, ReplaceLeaf(as[i].body, n, l)))
         ELSE ReplaceInAttrs(as, i + 1, n - k, l)
ReplaceInItems(is, i, n, l) ==
    IF i > Len(is) THEN is
    ELSE LET kk == IF is[i].slot THEN NumLeaves(is[i].key) ELSE 0
             kv == NumLeaves(is[i].val) IN
         IF n <= kk THEN ReplaceAt(is, i, SItem(ReplaceLeaf(is[i].key, n, l), is[i].val))
         ELSE IF n <= kk + kv THEN ReplaceAt(is, i, [is[i] EXCEPT !.val = ReplaceLeaf(is[i].val, n - kk, l)])
         ELSE ReplaceInItems(is, i + 1, n - kk - kv, l)
ReplaceLeaf(v, n, l) ==
    CASE v.t = "leaf" -> l
      [] v.t = "rec" -> LET ka == SumLeaves(v.attrs, LAMBDA a : NumLeaves(a.body)) IN
                        IF n <= ka THEN Rec(ReplaceInAttrs(v.attrs, 1, n, l), v.items)
                        ELSE Rec(v.attrs, ReplaceInItems(v.items, 1, n - ka, l))
      [] OTHER -> v

\* structural edits at the top of a record
TopEdits(x) ==
    IF ~IsRec(x) THEN {Rec(<<>>, <<VItem(x)>>)}                                        \* wrap: x -> {x}
    ELSE
      (IF x.items # <<>> THEN {Rec(x.attrs, Front(x.items))} ELSE {})                   \* drop the last item
      \cup {Rec(x.attrs, Append(x.items, VItem(N1)))}                                   \* append an item
      \cup (IF x.items # <<>> /\ ~x.items[1].slot
              THEN {Rec(x.attrs, ReplaceAt(x.items, 1, VItem(Rec(<<>>, <<x.items[1]>>)))),        \* x -> {x}
                    Rec(x.attrs, ReplaceAt(x.items, 1, SItem(TA, x.items[1].val)))}               \* x -> a:x
              ELSE {})
      \cup (IF x.items # <<>> /\ x.items[1].slot
              THEN {Rec(x.attrs, ReplaceAt(x.items, 1, VItem(x.items[1].val))),                   \* k:x -> x
                    Rec(x.attrs, <<VItem(x.items[1].key), VItem(x.items[1].val)>> \o Tail(x.items))}   \* k:x -> k,x
              ELSE {})
      \cup (IF Len(x.items) = 1 /\ ~x.items[1].slot /\ IsRec(x.items[1].val) /\ x.items[1].val.attrs = <<>>
              THEN {Rec(x.attrs, x.items[1].val.items)} ELSE {})                        \* { {..} } -> {..}
      \cup (IF x.attrs # <<>>
              THEN {Rec(Tail(x.attrs), x.items),                                        \* drop the attribute
                    Rec(ReplaceAt(x.attrs, 1, Attr("c", x.attrs[1].body)), x.items),    \* rename it
                    Rec(ReplaceAt(x.attrs, 1, Attr(x.attrs[1].name, None)), x.items),   \* drop its body
                    Rec(Tail(x.attrs), <<VItem(Rec(<<x.attrs[1]>>, <<>>))>> \o x.items)}   \* @a{..} -> {@a,..}
              ELSE {Rec(<<Attr("a", None)>>, x.items)})                                 \* add an attribute
      \cup (IF x.attrs # <<>> /\ x.attrs[1].body # None
              THEN {Rec(ReplaceAt(x.attrs, 1, Attr(x.attrs[1].name, Rec(<<>>, <<VItem(x.attrs[1].body)>>))), x.items)}   \* @a(x) -> @a({x})
              ELSE {})
      \cup (IF x.attrs # <<>> /\ x.items # <<>> /\ ~x.items[1].slot /\ x.attrs[1].body = None
              THEN {Rec(ReplaceAt(x.attrs, 1, Attr(x.attrs[1].name, x.items[1].val)), Tail(x.items))}   \* @a{x,..} -> @a(x){..}
              ELSE {})
      \cup (IF x.attrs # <<>> /\ x.attrs[1].body # None
              THEN {Rec(ReplaceAt(x.attrs, 1, Attr(x.attrs[1].name, None)), <<VItem(x.attrs[1].body)>> \o x.items)}  \* @a(x){..} -> @a{x,..}
              ELSE {})

\* the same edits one level down (in an attribute body or an item value)
DeepEdits(x) ==
    IF ~IsRec(x) THEN {}
    ELSE UNION {{Rec(ReplaceAt(x.attrs, i, Attr(x.attrs[i].name, w)), x.items) : w \in TopEdits(x.attrs[i].body)}
                  : i \in {j \in 1..Len(x.attrs) : IsRec(x.attrs[j].body)}}
         \cup UNION {{Rec(x.attrs, ReplaceAt(x.items, i, [x.items[i] EXCEPT !.val = w])) : w \in TopEdits(x.items[i].val)}
                  : i \in {j \in 1..Len(x.items) : IsRec(x.items[j].val)}}

LeafEdits(x) == {ReplaceLeaf(x, n, Leaf(id)) : n \in 1..NumLeaves(x), id \in SpecialLeafIds \cup {"n1", "ta"}}

Edits(x) == (TopEdits(x) \cup DeepEdits(x) \cup LeafEdits(x)) \ {x}

-----------------------------------------------------------------------------
(* D. renderings: styles and tokens.  A token is a string; "NL" is a newline, "SP" a space. *)

Style == [sep : {",", ";", "NL"}, pad : BOOLEAN, ea : BOOLEAN, eb : BOOLEAN, ab : BOOLEAN, sg : BOOLEAN,
          tx : BOOLEAN, nm : {"dec", "hex", "lead0", "alt"}]
Default == [sep |-> ",", pad |-> FALSE, ea |-> FALSE, eb |-> FALSE, ab |-> FALSE, sg |-> FALSE, tx |-> FALSE, nm |-> "dec"]
\* every freedom on its own, and three combinations
StylesFull == {Default,
               [Default EXCEPT !.sep = ";"], [Default EXCEPT !.sep = "NL"], [Default EXCEPT !.pad = TRUE],
               [Default EXCEPT !.ea = TRUE], [Default EXCEPT !.eb = TRUE], [Default EXCEPT !.ab = TRUE],
               [Default EXCEPT !.sg = TRUE], [Default EXCEPT !.tx = TRUE], [Default EXCEPT !.nm = "hex"],
               [Default EXCEPT !.nm = "lead0"], [Default EXCEPT !.nm = "alt"],
               [sep |-> ";", pad |-> TRUE, ea |-> TRUE, eb |-> TRUE, ab |-> TRUE, sg |-> TRUE, tx |-> TRUE, nm |-> "hex"],
               [sep |-> "NL", pad |-> FALSE, ea |-> TRUE, eb |-> FALSE, ab |-> FALSE, sg |-> TRUE, tx |-> FALSE, nm |-> "alt"],
               [sep |-> "NL", pad |-> TRUE, ea |-> FALSE, eb |-> TRUE, ab |-> TRUE, sg |-> FALSE, tx |-> TRUE, nm |-> "lead0"]}
StylesFew == {Default,
              [sep |-> ";", pad |-> TRUE, ea |-> TRUE, eb |-> TRUE, ab |-> TRUE, sg |-> TRUE, tx |-> TRUE, nm |-> "hex"],
              [sep |-> "NL", pad |-> FALSE, ea |-> TRUE, eb |-> FALSE, ab |-> FALSE, sg |-> TRUE, tx |-> FALSE, nm |-> "alt"]}

\* spelling of a leaf.  Texts that are not identifiers are always quoted.
Spell(id, st) ==
    CASE id = "n1" -> (CASE st.nm = "dec" -> "1" [] st.nm = "hex" -> "0x1" [] st.nm = "lead0" -> "01" [] OTHER -> "0b1")
      [] id = "n2" -> (CASE st.nm = "dec" -> "2" [] st.nm = "hex" -> "0x2" [] st.nm = "lead0" -> "002" [] OTHER -> "0b10")
      [] id = "nbig" -> (IF st.nm \in {"hex", "alt"} THEN "0x10000000000000000" ELSE "18446744073709551616")
      [] id = "f0" -> (IF st.nm \in {"dec", "hex"} THEN "0.0" ELSE "0e0")
      [] id = "fneg0" -> (IF st.nm \in {"dec", "hex"} THEN "-0.0" ELSE "-0e0")
      [] id = "fh" -> (IF st.nm \in {"dec", "hex"} THEN "0.5" ELSE "5e-1")
      [] id = "ta" -> (IF st.tx THEN "\"a\"" ELSE "a")
      [] id = "tb" -> (IF st.tx THEN "\"b\"" ELSE "b")
      [] id = "tsp" -> "\"a b\""
      [] id = "tcomma" -> "\"x,y\""
      [] id = "tcolon" -> "\"k:v\""
      [] id = "tclose" -> "\")\""
      [] id = "topen" -> "\"(\""
      [] id = "tbrace" -> "\"}\""
      [] id = "bt" -> "true"
      [] id = "blob" -> "%AA=="
      [] id = "ext" -> ""

Sep(st) == IF st.sep = "NL" THEN <<"NL">> ELSE IF st.pad THEN <<st.sep, "SP">> ELSE <<st.sep>>
Open(st) == IF st.pad THEN <<"{", "SP">> ELSE <<"{">>
Close(st) == IF st.pad THEN <<"SP", "}">> ELSE <<"}">>

\* an attribute body that is a record may be written without its braces when this cannot be mistaken for a single value
CanImplicit(b) == IsRec(b) /\ b.attrs = <<>> /\ (Len(b.items) >= 2 \/ (Len(b.items) = 1 /\ b.items[1].slot))
Implicit(b, st) == CanImplicit(b) /\ ~st.ab

RECURSIVE Render(_, _)
RECURSIVE JoinItems(_, _, _)
RenderItem(i, st) == IF i.slot THEN Render(i.key, st) \o <<":">> \o (IF i.val = Ext THEN <<>> ELSE Render(i.val, st))
                     ELSE Render(i.val, st)
JoinItems(is, k, st) == IF k > Len(is) THEN <<>>
                        ELSE (IF k > 1 THEN Sep(st) ELSE <<>>) \o RenderItem(is[k], st) \o JoinItems(is, k + 1, st)
RenderAttr(a, st) ==
    <<"@" , a.name>> \o
    (CASE a.body = None -> (IF st.ea THEN <<"(", ")">> ELSE <<>>)
       [] Implicit(a.body, st) -> <<"(">> \o JoinItems(a.body.items, 1, st) \o <<")">>
       [] OTHER -> <<"(">> \o Render(a.body, st) \o <<")">>)
RECURSIVE RenderAttrs(_, _, _)
RenderAttrs(as, k, st) == IF k > Len(as) THEN <<>> ELSE RenderAttr(as[k], st) \o RenderAttrs(as, k + 1, st)
\* `@a 1`: a record with attributes and a single item that is a leaf (or itself starts with an attribute)
BareSingle(v, st) == /\ st.sg /\ v.attrs # <<>> /\ Len(v.items) = 1 /\ ~v.items[1].slot
                     /\ (v.items[1].val.t = "leaf" \/ (IsRec(v.items[1].val) /\ v.items[1].val.attrs # <<>>))
Render(v, st) ==
    CASE v.t = "leaf" -> <<Spell(v.id, st)>>
      [] v.t = "rec" ->
           RenderAttrs(v.attrs, 1, st) \o
           (IF v.items = <<>> THEN (IF v.attrs = <<>> \/ st.eb THEN <<"{", "}">> ELSE <<>>)
            ELSE IF BareSingle(v, st) THEN <<"SP">> \o Render(v.items[1].val, st)
            ELSE Open(st) \o JoinItems(v.items, 1, st) \o Close(st))

\* invalid texts: a corruption applied to the token sequence by the check
Corruptions == {"drop_last_close", "drop_first_open", "extra_close", "extra_open", "stray_colon", "unterminated_string", "lone_at"}

-----------------------------------------------------------------------------
(* M. normal form: the value up to Value::eq.  A sequence of strings (explicit event stream). *)

LeafKey(id) == CASE id \in {"f0", "fneg0"} -> "F0"      \* 0.0 == -0.0
                 [] OTHER -> id
RECURSIVE NF(_)
RECURSIVE NFAttrs(_, _), NFItems(_, _)
NFAttrs(as, k) == IF k > Len(as) THEN <<>>
                  ELSE <<"SA", as[k].name>> \o (IF as[k].body = None THEN <<>> ELSE NF(as[k].body)) \o <<"EA">> \o NFAttrs(as, k + 1)
NFItems(is, k) == IF k > Len(is) THEN <<>>
                  ELSE (IF is[k].slot THEN NF(is[k].key) \o <<"SLOT">> ELSE <<>>) \o NF(is[k].val) \o <<"IT">> \o NFItems(is, k + 1)
NF(v) == CASE v.t = "leaf" -> <<LeafKey(v.id)>>
           [] v.t = "rec" -> NFAttrs(v.attrs, 1) \o <<"SB">> \o NFItems(v.items, 1) \o <<"ER">>
NormalForm(v) == NF(v)
\* the same stream with the exact leaf: identifies the abstract value
RECURSIVE KY(_)
RECURSIVE KYAttrs(_, _), KYItems(_, _)
KYAttrs(as, k) == IF k > Len(as) THEN <<>>
                  ELSE <<"SA", as[k].name>> \o (IF as[k].body = None THEN <<>> ELSE KY(as[k].body)) \o <<"EA">> \o KYAttrs(as, k + 1)
KYItems(is, k) == IF k > Len(is) THEN <<>>
                  ELSE (IF is[k].slot THEN KY(is[k].key) \o <<"SLOT">> ELSE <<>>) \o KY(is[k].val) \o <<"IT">> \o KYItems(is, k + 1)
KY(x) == CASE x.t = "leaf" -> <<x.id>>
           [] x.t = "rec" -> KYAttrs(x.attrs, 1) \o <<"SB">> \o KYItems(x.items, 1) \o <<"ER">>
ValueKey(x) == KY(x)

(* M. what HashParser feeds to the hasher *)
HashLeafKey(id) == id              \* floats are hashed by bit pattern: "f0" and "fneg0" differ; numbers by value: one id per number

\* the characters is_implicit_record reacts to, for every token (string literals are scanned like any other text)
ScanChars(tok) ==
    CASE tok \in {",", ";", ":", "{", "}", "(", ")"} -> <<tok>>
      [] tok = "\"x,y\"" -> <<",">>
      [] tok = "\"k:v\"" -> <<":">>
      [] tok = "\")\"" -> <<")">>
      [] tok = "\"(\"" -> <<"(">>
      [] tok = "\"}\"" -> <<"}">>
      [] OTHER -> <<>>
RECURSIVE Flat(_, _)
Flat(toks, k) == IF k > Len(toks) THEN <<>> ELSE ScanChars(toks[k]) \o Flat(toks, k + 1)
\* is_implicit_record on the text that follows `@name(`: chars = scan characters of the body followed by ")"
RECURSIVE Scan(_, _, _)
Scan(chars, k, level) ==
    IF k > Len(chars) THEN FALSE                                  \* ran out of input
    ELSE LET c == chars[k] IN
         IF level = 0
           THEN CASE c \in {",", ";", ":"} -> TRUE
                  [] c \in {"{", "("} -> Scan(chars, k + 1, 1)
                  [] c = ")" -> FALSE
                  [] OTHER -> Scan(chars, k + 1, 0)               \* "}" is not a stop character at the top
           ELSE CASE c \in {"{", "("} -> Scan(chars, k + 1, level + 1)
                  [] c \in {"}", ")"} -> Scan(chars, k + 1, level - 1)
                  [] OTHER -> Scan(chars, k + 1, level)
Detected(bodyToks) == Scan(Flat(bodyToks, 1) \o <<")">>, 1, 0)

RECURSIVE HE(_, _)
RECURSIVE HEAttrs(_, _, _), HEItems(_, _, _)
HEAttr(a, st) ==
    <<"SA", a.name>> \o
    (CASE a.body = None -> <<>>
       [] Implicit(a.body, st) ->
            \* the parser emits the items only; the hasher adds StartBody / EndRecord if its scan says "implicit record"
            LET inner == HEItems(a.body.items, 1, st) IN
            IF Detected(JoinItems(a.body.items, 1, st)) THEN <<"SB">> \o inner \o <<"ER">> ELSE inner
       [] OTHER -> HE(a.body, st))
    \o <<"EA">>
HEAttrs(as, k, st) == IF k > Len(as) THEN <<>> ELSE HEAttr(as[k], st) \o HEAttrs(as, k + 1, st)
HEItems(is, k, st) == IF k > Len(is) THEN <<>>
                      ELSE (IF is[k].slot THEN HE(is[k].key, st) \o <<"SLOT">> ELSE <<>>) \o HE(is[k].val, st) \o <<"IT">> \o HEItems(is, k + 1, st)
HE(v, st) == CASE v.t = "leaf" -> <<HashLeafKey(v.id)>>
               [] v.t = "rec" -> HEAttrs(v.attrs, 1, st) \o <<"SB">> \o HEItems(v.items, 1, st) \o <<"ER">>
HashEvents(v, st) == HE(v, st)

\* diagnosis: does the rendering contain an implicit attribute body that the scan does not recognise?
RECURSIVE Undetected(_, _)
UndetAttrs(as, st) == \E k \in 1..Len(as) :
                         \/ Implicit(as[k].body, st) /\ ~Detected(JoinItems(as[k].body.items, 1, st))
                         \/ Undetected(as[k].body, st)
Undetected(v, st) == /\ IsRec(v)
                     /\ \/ UndetAttrs(v.attrs, st)
                        \/ \E k \in 1..Len(v.items) : Undetected(v.items[k].val, st) \/ (v.items[k].slot /\ Undetected(v.items[k].key, st))
RECURSIVE HasLeaf(_, _)
HasLeaf(v, ids) == CASE v.t = "leaf" -> v.id \in ids
                     [] v.t = "rec" -> \/ \E k \in 1..Len(v.attrs) : HasLeaf(v.attrs[k].body, ids)
                                       \/ \E k \in 1..Len(v.items) : HasLeaf(v.items[k].val, ids) \/ HasLeaf(v.items[k].key, ids)
                     [] OTHER -> FALSE

-----------------------------------------------------------------------------
(* The enumeration: value -> (edit) -> value' -> (layout) -> rendering -> (corrupt) -> invalid text *)

VARIABLES v,        \* the abstract value
          gen,      \* 0: a base value, 1: a near miss (one edit away from a base value)
          st,       \* the style of the rendering (None: not rendered yet)
          cor       \* the corruption applied ("none")
vars == <<v, gen, st, cor>>

Init == v \in BaseValues /\ gen = 0 /\ st = None /\ cor = "none"

Edit == /\ gen = 0 /\ st = None
        /\ v' \in Edits(v)
        /\ gen' = 1 /\ UNCHANGED <<st, cor>>

Layout == /\ st = None
          /\ st' \in (IF gen = 0 THEN StylesFull ELSE StylesFew)
          /\ UNCHANGED <<v, gen, cor>>

Corrupt == /\ gen = 0 /\ st = Default /\ cor = "none"
           /\ cor' \in Corruptions
           /\ UNCHANGED <<v, gen, st>>

Next == Edit \/ Layout \/ Corrupt
=============================================================================

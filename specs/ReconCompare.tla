----------------------------- MODULE ReconCompare -----------------------------
(***************************************************************************)
(* C15 - comparing and hashing Recon text agrees with comparing parsed     *)
(* values.                                                                 *)
(*                                                                         *)
(*  D  DATA MODEL.  Abstract Recon values (leaves, records with attributes *)
(*     and items, slots) at small scope, and for every value its           *)
(*     RENDERINGS: token sequences produced by Render(v, style) for the    *)
(*     formatting freedoms of Recon (separator , ; newline, padding,       *)
(*     `@a` / `@a()`, `@a` / `@a{}`, implicit `@a(1,2)` / braced           *)
(*     `@a({1,2})` attribute bodies, `@a{1}` / `@a 1`, bare / quoted       *)
(*     text, and five spellings of every number: decimal, hex, leading     *)
(*     zeros, binary / upper case, signed (`-0`, `+1`), for integers at    *)
(*     the limits of the tokenizer's kinds, signed zero and floats).       *)
(*     NEAR MISSES are single abstract edits of a value (Edit), INVALID    *)
(*     texts are corruptions of a rendering (Corrupt).  TLC enumerates     *)
(*     the state space  value -> edited value -> rendering -> corruption   *)
(*     (module Gen_ReconCompare dumps it); the check joins the tokens to    *)
(*     text, adds the output of the three real printers, and the harness   *)
(*     observes compare_recon_values, recon_hash, parse + Value::eq.       *)
(*                                                                         *)
(*  P  PROPERTY.  The laws of the statement over the observed pair table   *)
(*     (module MC_ReconCompare evaluates them with TLC).                 *)
(*                                                                         *)
(*  M  MECHANISM.  What the implementation is meant to compute:            *)
(*     NormalForm(v)  - the value up to Value::eq (the sign of a float     *)
(*                      zero is not observable): parse + Value::eq;        *)
(*     CompareEvents  - a transcription of incremental_compare and         *)
(*                      ValueValidator over the parse event streams (run   *)
(*                      by TLC on the pairs where the comparator's size    *)
(*                      bookkeeping decides: same primitive events,        *)
(*                      different nesting);                                *)
(*     HashEvents(v, style) - the event stream HashParser feeds to the     *)
(*                      hasher: numbers normalised (one key per number),   *)
(*                      floats by bit pattern, and StartBody / EndRecord   *)
(*                      inserted around an implicit attribute body exactly *)
(*                      when the LEXICAL SCAN is_implicit_record finds a   *)
(*                      `,` `;` or `:` before the closing `)`              *)
(*                      (recon_parser/record/hash.rs).                     *)
(*     M is compared with the observations (MODEL-DRIFT only) and tells    *)
(*     which pairs the unchanged code is known to get wrong.               *)
(***************************************************************************)
EXTENDS Integers, Sequences, FiniteSets, TLC

CONSTANTS Wide      \* FALSE: quick scope, TRUE: thorough scope (more components, more special leaves)

-----------------------------------------------------------------------------
(* D. values *)

None == [t |-> "none"]
Leaf(id) == [t |-> "leaf", id |-> id]
Rec(attrs, items) == [t |-> "rec", attrs |-> attrs, items |-> items]
Attr(n, b) == [name |-> n, body |-> b]                      \* b = None: `@n`
VItem(v) == [slot |-> FALSE, key |-> None, val |-> v]
SItem(k, v) == [slot |-> TRUE, key |-> k, val |-> v]        \* v = Leaf("ext"): `k:`

N1 == Leaf("n1")
\* the values slots can have in base values
SlotVals == {Leaf("n1"), Leaf("ta"), Rec(<<>>, <<VItem(Leaf("n1")), VItem(Leaf("ta"))>>)} \cup
            (IF Wide THEN {Rec(<<>>, <<>>), Rec(<<Attr("b", None)>>, <<>>)} ELSE {})
TA == Leaf("ta")
Ext == Leaf("ext")
\* generic leaves used to build structure; special leaves are put in by edits
Generic == {N1, TA}
\* numbers: every id is ONE number, with five spellings (see NumSpellings): integers at and around the limits of the kinds
\* the tokenizer distinguishes (Int: written with a minus sign and fits i64, UInt: no sign and fits u64, BigInt, BigUint),
\* the same integers as floats, both zeros
IntIds == {"n0", "n1", "nm1", "n2", "i32max", "i32min", "u32max", "p32", "i64max", "i64min", "mi64m1", "p63", "u64max", "nbig", "mbig"}
FloatIds == {"f0", "fneg0", "f1", "fm1", "fh", "f1e19", "fp64"}
NumIds == IntIds \cup FloatIds
SpecialLeafIds == IF Wide THEN {"n0", "nm1", "nbig", "i64min", "u64max", "f0", "fneg0", "tb", "tcomma", "tcolon", "tclose", "topen", "tbrace"}
                          ELSE {"n0", "f0", "fneg0", "tcomma", "tclose", "topen"}
LeafIds == {"n1", "ta", "ext", "tcloseb"} \cup SpecialLeafIds \cup NumIds

Items1(X) == {VItem(x) : x \in X} \cup {SItem(k, x) : k \in Generic, x \in (X \cap SlotVals) \cup {Ext}}
SeqUpTo2(S) == {<<>>} \cup {<<a>> : a \in S} \cup {<<a, b>> : a, b \in S}
AttrOpts(X) == {<<>>} \cup {<<Attr("a", b)>> : b \in X \cup {None}}
RecsOver(X) == {Rec(as, is) : as \in AttrOpts(X), is \in SeqUpTo2(Items1(X))}

E0 == Rec(<<>>, <<>>)
\* components of the second level: the shapes around which implicit / explicit forms differ
CompQuick == {N1, TA, E0,
              Rec(<<>>, <<VItem(N1)>>),
              Rec(<<>>, <<VItem(N1), VItem(TA)>>),
              Rec(<<Attr("b", None)>>, <<>>),
              Rec(<<Attr("b", Rec(<<>>, <<VItem(N1), VItem(TA)>>))>>, <<>>)}
CompWide == CompQuick \cup
             {Rec(<<>>, <<SItem(TA, N1)>>),
              Rec(<<>>, <<VItem(Rec(<<>>, <<VItem(N1)>>))>>)}
Comp == IF Wide THEN CompWide ELSE CompQuick

TwoAttrs == {Rec(<<Attr("a", x), Attr("b", y)>>, is) : x, y \in {None, N1, Rec(<<>>, <<VItem(N1), VItem(TA)>>)},
                                                      is \in {<<>>, <<VItem(N1)>>, <<VItem(N1), VItem(TA)>>}}
\* every number alone, as an attribute parameter, as a slot key, as a slot value and as an item: context c of number id
NumContext(id, c) == CASE c = 1 -> Leaf(id)
                       [] c = 2 -> Rec(<<Attr("a", Leaf(id))>>, <<>>)
                       [] c = 3 -> Rec(<<>>, <<SItem(Leaf(id), N1)>>)
                       [] c = 4 -> Rec(<<>>, <<SItem(TA, Leaf(id))>>)
                       [] c = 5 -> Rec(<<>>, <<VItem(Leaf(id)), VItem(TA)>>)
NumContexts == {NumContext(id, c) : id \in NumIds, c \in 1..5}
\* 0 for a value that is not one of these, else the context: all numbers in the same context are compared pairwise
ContextOf(x) == IF \E c \in 1..5 : \E id \in NumIds : x = NumContext(id, c)
                  THEN CHOOSE c \in 1..5 : \E id \in NumIds : x = NumContext(id, c) ELSE 0
\* slots whose KEY is a primitive, an attributed value, a record of one or two items, {@k}, @k(1){a}; in a record body,
\* in an attribute body, followed by another item or not, nested in an item and in a slot value
KAttr == Rec(<<Attr("k", None)>>, <<>>)
SlotKeys == {N1, KAttr, Rec(<<>>, <<VItem(N1)>>), Rec(<<>>, <<VItem(N1), VItem(TA)>>), Rec(<<>>, <<VItem(KAttr)>>),
             Rec(<<Attr("k", N1)>>, <<VItem(TA)>>)}
SlotContext(sl, c) == CASE c = 1 -> Rec(<<>>, <<sl>>)
                        [] c = 2 -> Rec(<<>>, <<sl, VItem(TA)>>)
                        [] c = 3 -> Rec(<<Attr("a", Rec(<<>>, <<sl>>))>>, <<>>)
                        [] c = 4 -> Rec(<<Attr("a", Rec(<<>>, <<sl, VItem(TA)>>))>>, <<>>)
                        [] c = 5 -> Rec(<<>>, <<VItem(Rec(<<>>, <<sl>>))>>)
                        [] c = 6 -> Rec(<<>>, <<SItem(TA, Rec(<<>>, <<sl>>))>>)
SlotShapes == {SlotContext(SItem(k, x), c) : k \in SlotKeys, x \in {N1, Ext, Rec(<<>>, <<VItem(N1)>>)}, c \in 1..6}
\* implicit attribute bodies whose first item is a string literal that the lexical scan of the hasher reacts to
ScanShapes == {Rec(<<Attr("a", Rec(<<>>, <<VItem(Leaf(l)), VItem(N1)>>))>>, is)
                 : l \in {"tclose", "tcloseb", "topen", "tbrace", "tcomma", "tcolon"}, is \in {<<>>, <<VItem(TA)>>}}
BaseValues == Generic \cup RecsOver(Generic) \cup RecsOver(Comp) \cup TwoAttrs \cup NumContexts \cup SlotShapes \cup ScanShapes

-----------------------------------------------------------------------------
(* D. near misses: one abstract edit *)

IsRec(v) == v.t = "rec"
Front(s) == SubSeq(s, 1, Len(s) - 1)
ReplaceAt(s, i, x) == [s EXCEPT ![i] = x]

RECURSIVE NumLeaves(_)
SumLeaves(s, f(_)) == LET RECURSIVE Sum(_) Sum(i) == IF i > Len(s) THEN 0 ELSE f(s[i]) + Sum(i + 1) IN Sum(1)
NumLeaves(v) ==
    CASE v.t = "none" -> 0
      [] v.t = "leaf" -> 1
      [] v.t = "rec" -> SumLeaves(v.attrs, LAMBDA a : NumLeaves(a.body)) +
                        SumLeaves(v.items, LAMBDA i : (IF i.slot THEN NumLeaves(i.key) ELSE 0) + NumLeaves(i.val))

\* replace the n-th leaf (document order) of v by l
RECURSIVE ReplaceLeaf(_, _, _)
RECURSIVE ReplaceInAttrs(_, _, _, _), ReplaceInItems(_, _, _, _)
ReplaceInAttrs(as, i, n, l) ==
    IF i > Len(as) THEN as
    ELSE LET k == NumLeaves(as[i].body) IN
         IF n <= k THEN ReplaceAt(as, i, Attr(as[i].name, ReplaceLeaf(as[i].body, n, l)))
         ELSE ReplaceInAttrs(as, i + 1, n - k, l)
ReplaceInItems(is, i, n, l) ==
    IF i > Len(is) THEN is
    ELSE LET kk == IF is[i].slot THEN NumLeaves(is[i].key) ELSE 0
             kv == NumLeaves(is[i].val) IN
         IF n <= kk THEN ReplaceAt(is, i, SItem(ReplaceLeaf(is[i].key, n, l), is[i].val))
         ELSE IF n <= kk + kv THEN ReplaceAt(is, i, [is[i] EXCEPT !.val = ReplaceLeaf(is[i].val, n - kk, l)])
         ELSE ReplaceInItems(is, i + 1, n - kk - kv, l)
ReplaceLeaf(v, n, l) ==
    CASE v.t = "leaf" -> l
      [] v.t = "rec" -> LET ka == SumLeaves(v.attrs, LAMBDA a : NumLeaves(a.body)) IN
                        IF n <= ka THEN Rec(ReplaceInAttrs(v.attrs, 1, n, l), v.items)
                        ELSE Rec(v.attrs, ReplaceInItems(v.items, 1, n - ka, l))
      [] OTHER -> v

\* structural edits at the top of a record
TopEdits(x) ==
    IF ~IsRec(x) THEN {Rec(<<>>, <<VItem(x)>>)}                                        \* wrap: x -> {x}
    ELSE
      (IF x.items # <<>> THEN {Rec(x.attrs, Front(x.items))} ELSE {})                   \* drop the last item
      \cup {Rec(x.attrs, Append(x.items, VItem(N1)))}                                   \* append an item
      \cup (IF x.items # <<>> /\ ~x.items[1].slot
              THEN {Rec(x.attrs, ReplaceAt(x.items, 1, VItem(Rec(<<>>, <<x.items[1]>>)))),        \* x -> {x}
                    Rec(x.attrs, ReplaceAt(x.items, 1, SItem(TA, x.items[1].val)))}               \* x -> a:x
              ELSE {})
      \cup (IF x.items # <<>> /\ x.items[1].slot
              THEN {Rec(x.attrs, ReplaceAt(x.items, 1, VItem(x.items[1].val))),                   \* k:x -> x
                    Rec(x.attrs, <<VItem(x.items[1].key), VItem(x.items[1].val)>> \o Tail(x.items))}   \* k:x -> k,x
              ELSE {})
      \cup (IF Len(x.items) = 1 /\ ~x.items[1].slot /\ IsRec(x.items[1].val) /\ x.items[1].val.attrs = <<>>
              THEN {Rec(x.attrs, x.items[1].val.items)} ELSE {})                        \* { {..} } -> {..}
      \cup (IF x.attrs # <<>>
              THEN {Rec(Tail(x.attrs), x.items),                                        \* drop the attribute
                    Rec(ReplaceAt(x.attrs, 1, Attr("c", x.attrs[1].body)), x.items),    \* rename it
                    Rec(ReplaceAt(x.attrs, 1, Attr(x.attrs[1].name, None)), x.items),   \* drop its body
                    Rec(Tail(x.attrs), <<VItem(Rec(<<x.attrs[1]>>, <<>>))>> \o x.items)}   \* @a{..} -> {@a,..}
              ELSE {Rec(<<Attr("a", None)>>, x.items)})                                 \* add an attribute
      \cup (IF x.attrs # <<>> /\ x.attrs[1].body # None
              THEN {Rec(ReplaceAt(x.attrs, 1, Attr(x.attrs[1].name, Rec(<<>>, <<VItem(x.attrs[1].body)>>))), x.items)}   \* @a(x) -> @a({x})
              ELSE {})
      \cup (IF x.attrs # <<>> /\ x.items # <<>> /\ ~x.items[1].slot /\ x.attrs[1].body = None
              THEN {Rec(ReplaceAt(x.attrs, 1, Attr(x.attrs[1].name, x.items[1].val)), Tail(x.items))}   \* @a{x,..} -> @a(x){..}
              ELSE {})
      \cup (IF x.attrs # <<>> /\ x.attrs[1].body # None
              THEN {Rec(ReplaceAt(x.attrs, 1, Attr(x.attrs[1].name, None)), <<VItem(x.attrs[1].body)>> \o x.items)}  \* @a(x){..} -> @a{x,..}
              ELSE {})

\* the same edits one level down (in an attribute body or an item value)
DeepEdits(x) ==
    IF ~IsRec(x) THEN {}
    ELSE UNION {{Rec(ReplaceAt(x.attrs, i, Attr(x.attrs[i].name, w)), x.items) : w \in TopEdits(x.attrs[i].body)}
                  : i \in {j \in 1..Len(x.attrs) : IsRec(x.attrs[j].body)}}
         \cup UNION {{Rec(x.attrs, ReplaceAt(x.items, i, [x.items[i] EXCEPT !.val = w])) : w \in TopEdits(x.items[i].val)}
                  : i \in {j \in 1..Len(x.items) : IsRec(x.items[j].val)}}

\* quick scope: the first and the last leaf only
LeafPositions(x) == IF Wide THEN 1..NumLeaves(x) ELSE {1, NumLeaves(x)} \cap (1..NumLeaves(x))
LeafEdits(x) == {ReplaceLeaf(x, n, Leaf(id)) : n \in LeafPositions(x), id \in SpecialLeafIds \cup {"n1", "ta"}}

\* wrap / unwrap ONE nesting level at ONE position: x <-> {x}, at the value itself, an attribute body, an item, a slot key
\* or a slot value, at any depth
Braces(x) == (IF x.t \in {"leaf", "rec"} /\ x # Ext THEN {Rec(<<>>, <<VItem(x)>>)} ELSE {})
             \cup (IF IsRec(x) /\ x.attrs = <<>> /\ Len(x.items) = 1 /\ ~x.items[1].slot THEN {x.items[1].val} ELSE {})
RECURSIVE BraceEdits(_)
BraceEdits(x) ==
    Braces(x) \cup
    (IF ~IsRec(x) THEN {}
     ELSE UNION {{Rec(ReplaceAt(x.attrs, k, Attr(x.attrs[k].name, w)), x.items) : w \in BraceEdits(x.attrs[k].body)} : k \in 1..Len(x.attrs)}
          \cup UNION {{Rec(x.attrs, ReplaceAt(x.items, k, [x.items[k] EXCEPT !.val = w])) : w \in BraceEdits(x.items[k].val)} : k \in 1..Len(x.items)}
          \cup UNION {{Rec(x.attrs, ReplaceAt(x.items, k, [x.items[k] EXCEPT !.key = w])) : w \in BraceEdits(x.items[k].key)} : k \in 1..Len(x.items)})

\* "nothing" can only be written as the value of a slot (`k:`)
RECURSIVE WF(_)
WF(x) == CASE x.t = "leaf" -> x # Ext
           [] x.t = "rec" -> /\ \A k \in 1..Len(x.attrs) : x.attrs[k].body = None \/ WF(x.attrs[k].body)
                             /\ \A k \in 1..Len(x.items) : /\ (x.items[k].slot => WF(x.items[k].key))
                                                            /\ ((x.items[k].slot /\ x.items[k].val = Ext) \/ WF(x.items[k].val))
           [] OTHER -> FALSE
Edits(x) == {w \in (TopEdits(x) \cup DeepEdits(x) \cup LeafEdits(x) \cup BraceEdits(x)) \ {x} : WF(w)}

-----------------------------------------------------------------------------
(* D. renderings: styles and tokens.  A token is a string; "NL" is a newline, "SP" a space. *)

Style == [sep : {",", ";", "NL"}, pad : BOOLEAN, ea : BOOLEAN, eb : BOOLEAN, ab : BOOLEAN, sg : BOOLEAN,
          tx : BOOLEAN, nm : {"dec", "hex", "lead0", "alt", "sgn"}]
Default == [sep |-> ",", pad |-> FALSE, ea |-> FALSE, eb |-> FALSE, ab |-> FALSE, sg |-> FALSE, tx |-> FALSE, nm |-> "dec"]
\* every freedom on its own, and three combinations
StylesFull == {Default,
               [Default EXCEPT !.sep = ";"], [Default EXCEPT !.sep = "NL"], [Default EXCEPT !.pad = TRUE],
               [Default EXCEPT !.ea = TRUE], [Default EXCEPT !.eb = TRUE], [Default EXCEPT !.ab = TRUE],
               [Default EXCEPT !.sg = TRUE], [Default EXCEPT !.tx = TRUE], [Default EXCEPT !.nm = "hex"],
               [Default EXCEPT !.nm = "lead0"], [Default EXCEPT !.nm = "alt"], [Default EXCEPT !.nm = "sgn"],
               [sep |-> ";", pad |-> TRUE, ea |-> TRUE, eb |-> TRUE, ab |-> TRUE, sg |-> TRUE, tx |-> TRUE, nm |-> "hex"],
               [sep |-> "NL", pad |-> FALSE, ea |-> TRUE, eb |-> FALSE, ab |-> FALSE, sg |-> TRUE, tx |-> FALSE, nm |-> "alt"],
               [sep |-> "NL", pad |-> TRUE, ea |-> FALSE, eb |-> TRUE, ab |-> TRUE, sg |-> FALSE, tx |-> TRUE, nm |-> "lead0"]}
\* the styles that differ from the default only in the spelling of numbers
NmStyles == {[Default EXCEPT !.nm = n] : n \in {"dec", "hex", "lead0", "alt", "sgn"}}
NLMix == [sep |-> "NL", pad |-> FALSE, ea |-> TRUE, eb |-> FALSE, ab |-> FALSE, sg |-> TRUE, tx |-> FALSE, nm |-> "alt"]
\* near misses are rendered in fewer styles
StylesFew == {Default, NLMix}
             \cup (IF Wide THEN {[sep |-> ";", pad |-> TRUE, ea |-> TRUE, eb |-> TRUE, ab |-> TRUE, sg |-> TRUE, tx |-> TRUE, nm |-> "hex"]} ELSE {})

\* <<dec, hex, lead0, alt, sgn>>: plain decimal; hexadecimal; leading zeros; binary / upper case / another float form;
\* "sgn": with a sign where the grammar allows one that does not change the number (`-0` is the integer 0, `+1` is the FLOAT 1.0)
NumSpellings(id) ==
    CASE id = "n0" -> <<"0", "-0x0", "00", "-0b0", "-0">>
      [] id = "n1" -> <<"1", "0x1", "01", "0b1", "0B01">>
      [] id = "nm1" -> <<"-1", "-0x1", "-01", "-0b1", "-0X1">>
      [] id = "n2" -> <<"2", "0x2", "002", "0b10", "0X2">>
      [] id = "i32max" -> <<"2147483647", "0x7fffffff", "02147483647", "0X7FFFFFFF", "0b1111111111111111111111111111111">>
      [] id = "i32min" -> <<"-2147483648", "-0x80000000", "-02147483648", "-0X80000000", "-0b10000000000000000000000000000000">>
      [] id = "u32max" -> <<"4294967295", "0xffffffff", "04294967295", "0XFFFFFFFF", "0b11111111111111111111111111111111">>
      [] id = "p32" -> <<"4294967296", "0x100000000", "04294967296", "0X100000000", "0b100000000000000000000000000000000">>
      [] id = "i64max" -> <<"9223372036854775807", "0x7fffffffffffffff", "09223372036854775807", "0X7FFFFFFFFFFFFFFF", "0x07fffffffffffffff">>
      [] id = "i64min" -> <<"-9223372036854775808", "-0x8000000000000000", "-09223372036854775808", "-0X8000000000000000", "-0x08000000000000000">>
      [] id = "mi64m1" -> <<"-9223372036854775809", "-0x8000000000000001", "-09223372036854775809", "-0X8000000000000001", "-0x08000000000000001">>
      [] id = "p63" -> <<"9223372036854775808", "0x8000000000000000", "09223372036854775808", "0X8000000000000000", "0x08000000000000000">>
      [] id = "u64max" -> <<"18446744073709551615", "0xffffffffffffffff", "018446744073709551615", "0XFFFFFFFFFFFFFFFF", "0x0ffffffffffffffff">>
      [] id = "nbig" -> <<"18446744073709551616", "0x10000000000000000", "018446744073709551616", "0X10000000000000000", "0x010000000000000000">>
      [] id = "mbig" -> <<"-18446744073709551616", "-0x10000000000000000", "-018446744073709551616", "-0X10000000000000000", "-0x010000000000000000">>
      [] id = "f0" -> <<"0.0", "0e0", "00.0", "0.", "+0">>
      [] id = "fneg0" -> <<"-0.0", "-0e0", "-00.0", "-0.", "-0E0">>
      [] id = "f1" -> <<"1.0", "1e0", "1.00", "10e-1", "+1">>
      [] id = "fm1" -> <<"-1.0", "-1e0", "-1.00", "-10e-1", "-1.">>
      [] id = "fh" -> <<"0.5", "5e-1", "0.50", ".5", "+.5">>
      [] id = "f1e19" -> <<"1e19", "10000000000000000000.0", "1E19", "1e+19", "+1e19">>
      [] id = "fp64" -> <<"18446744073709551616.0", "1.8446744073709551616e19", "018446744073709551616.0", "18446744073709551616.", "+18446744073709551616.0">>
NmIndex(nm) == CASE nm = "dec" -> 1 [] nm = "hex" -> 2 [] nm = "lead0" -> 3 [] nm = "alt" -> 4 [] nm = "sgn" -> 5
\* spelling of a leaf.  Texts that are not identifiers are always quoted.
Spell(id, st) ==
    CASE id \in NumIds -> NumSpellings(id)[NmIndex(st.nm)]
      [] id = "ta" -> (IF st.tx THEN "\"a\"" ELSE "a")
      [] id = "tb" -> (IF st.tx THEN "\"b\"" ELSE "b")
      [] id = "tsp" -> "\"a b\""
      [] id = "tcomma" -> "\"x,y\""
      [] id = "tcolon" -> "\"k:v\""
      [] id = "tclose" -> "\")\""
      [] id = "tcloseb" -> "\"x)y\""
      [] id = "topen" -> "\"(\""
      [] id = "tbrace" -> "\"}\""
      [] id = "bt" -> "true"
      [] id = "blob" -> "%AA=="
      [] id = "ext" -> ""

Sep(st) == IF st.sep = "NL" THEN <<"NL">> ELSE IF st.pad THEN <<st.sep, "SP">> ELSE <<st.sep>>
Open(st) == IF st.pad THEN <<"{", "SP">> ELSE <<"{">>
Close(st) == IF st.pad THEN <<"SP", "}">> ELSE <<"}">>

\* an attribute body that is a record may be written without its braces when this cannot be mistaken for a single value
CanImplicit(b) == IsRec(b) /\ b.attrs = <<>> /\ (Len(b.items) >= 2 \/ (Len(b.items) = 1 /\ b.items[1].slot))
Implicit(b, st) == CanImplicit(b) /\ ~st.ab

\* ---- M: the lexical scan of HashParser (is_implicit_record, recon_parser/record/hash.rs) ----
\* the characters the scan reacts to, for every token (string literals are scanned like any other text)
ScanChars(tok) ==
    CASE tok \in {",", ";", ":", "{", "}", "(", ")"} -> <<tok>>
      [] tok = "\"x,y\"" -> <<",">>
      [] tok = "\"k:v\"" -> <<":">>
      [] tok = "\")\"" -> <<")">>
      [] tok = "\"x)y\"" -> <<")">>
      [] tok = "\"(\"" -> <<"(">>
      [] tok = "\"}\"" -> <<"}">>
      [] OTHER -> <<>>
\* run on the text that follows `@name(` (the rest of the document): TRUE = "the body is an implicit record".
\* Top level: `,` `;` `:` -> TRUE, `)` -> FALSE, `{` `(` open a nested level in which only brackets count.
RECURSIVE Scan(_, _, _, _)
Scan(toks, k, j, level) ==       \* j-th scan character of token k
    IF k > Len(toks) THEN FALSE                                   \* ran out of input
    ELSE LET cs == ScanChars(toks[k]) IN
         IF j > Len(cs) THEN Scan(toks, k + 1, 1, level)
         ELSE LET c == cs[j] IN
              IF level = 0
                THEN CASE c \in {",", ";", ":"} -> TRUE
                       [] c \in {"{", "("} -> Scan(toks, k, j + 1, 1)
                       [] c = ")" -> FALSE
                       [] OTHER -> Scan(toks, k, j + 1, 0)          \* "}" is not a stop character at the top
                ELSE CASE c \in {"{", "("} -> Scan(toks, k, j + 1, level + 1)
                       [] c \in {"}", ")"} -> Scan(toks, k, j + 1, level - 1)
                       [] OTHER -> Scan(toks, k, j + 1, level)
Detected(following) == Scan(following, 1, 1, 0)

\* numbers are hashed by value (one id per number), floats by bit pattern except that both zeros (and NaN) hash as +0.0
HashLeafKey(id) == IF id \in {"f0", "fneg0"} THEN "F0" ELSE id

\* ---- rendering and hash events in one recursion ----
\* RE(x, st, rest) = [toks |-> the tokens of x in style st,
\*                    ev   |-> the events HashParser feeds to the hasher for x when `rest` follows x in the document,
\*                    und  |-> some implicit attribute body in x is not recognised by the scan]
\* The parser emits StartBody / EndRecord for a braced body and nothing for an implicit one; the hasher adds the pair
\* after StartAttribute whenever its scan of the following text says "implicit record".
RECURSIVE RE(_, _, _)
RECURSIVE ItemsRE(_, _, _, _), AttrsRE(_, _, _, _)
Leaf3(toks, ev) == [toks |-> toks, ev |-> ev, und |-> FALSE]
ItemRE(i, st, rest) ==
    IF ~i.slot THEN RE(i.val, st, rest)
    ELSE LET val == IF i.val = Ext THEN Leaf3(<<>>, <<"ext">>) ELSE RE(i.val, st, rest)
             key == RE(i.key, st, <<":">> \o val.toks \o rest)
         IN [toks |-> key.toks \o <<":">> \o val.toks, ev |-> key.ev \o <<"SLOT">> \o val.ev, und |-> key.und \/ val.und]
\* items k.. of a list whose last item is followed by `rest`
ItemsRE(is, k, st, rest) ==
    IF k > Len(is) THEN Leaf3(<<>>, <<>>)
    ELSE LET tl == ItemsRE(is, k + 1, st, rest)
             sep == IF k < Len(is) THEN Sep(st) ELSE <<>>
             me == ItemRE(is[k], st, sep \o tl.toks \o rest)
         IN [toks |-> me.toks \o sep \o tl.toks, ev |-> me.ev \o tl.ev, und |-> me.und \/ tl.und]
AttrRE(a, st, rest) ==
    CASE a.body = None -> Leaf3(<<"@", a.name>> \o (IF st.ea THEN <<"(", ")">> ELSE <<>>), <<"SA", a.name, "EA">>)
      [] OTHER ->
           LET after == <<")">> \o rest
               body == IF Implicit(a.body, st) THEN ItemsRE(a.body.items, 1, st, after) ELSE RE(a.body, st, after)
               det == Detected(body.toks \o after)
           IN [toks |-> <<"@", a.name, "(">> \o body.toks \o <<")">>,
               ev |-> <<"SA", a.name>> \o (IF det THEN <<"SB">> \o body.ev \o <<"ER">> ELSE body.ev) \o <<"EA">>,
               und |-> body.und \/ (Implicit(a.body, st) /\ ~det)]
AttrsRE(as, k, st, rest) ==
    IF k > Len(as) THEN Leaf3(<<>>, <<>>)
    ELSE LET tl == AttrsRE(as, k + 1, st, rest)
             me == AttrRE(as[k], st, tl.toks \o rest)
         IN [toks |-> me.toks \o tl.toks, ev |-> me.ev \o tl.ev, und |-> me.und \/ tl.und]
\* `@a 1`: a record with attributes and a single item that is a leaf
BareSingle(x, st) == st.sg /\ x.attrs # <<>> /\ Len(x.items) = 1 /\ ~x.items[1].slot /\ x.items[1].val.t = "leaf"
RE(x, st, rest) ==
    CASE x.t = "leaf" -> Leaf3(<<Spell(x.id, st)>>, <<HashLeafKey(x.id)>>)
      [] x.t = "rec" ->
           LET body == IF x.items = <<>> THEN Leaf3(IF x.attrs = <<>> \/ st.eb THEN <<"{", "}">> ELSE <<>>, <<>>)
                       ELSE IF BareSingle(x, st)
                              THEN LET one == RE(x.items[1].val, st, rest) IN
                                   [toks |-> <<"SP">> \o one.toks, ev |-> one.ev, und |-> one.und]
                       ELSE LET its == ItemsRE(x.items, 1, st, Close(st) \o rest) IN
                            [toks |-> Open(st) \o its.toks \o Close(st), ev |-> its.ev, und |-> its.und]
               as == AttrsRE(x.attrs, 1, st, body.toks \o rest)
           IN [toks |-> as.toks \o body.toks, ev |-> as.ev \o <<"SB">> \o body.ev \o <<"ER">>, und |-> as.und \/ body.und]
Render(x, st) == RE(x, st, <<>>).toks

\* invalid texts: a corruption applied to the token sequence by the check
Corruptions == {"drop_last_close", "extra_open", "unterminated_front", "close_front", "bad_escape_front", "colon_front"}

-----------------------------------------------------------------------------
(* M. normal form: the value up to Value::eq.  A sequence of strings (explicit event stream). *)

LeafKey(id) == CASE id \in {"f0", "fneg0"} -> "F0"      \* 0.0 == -0.0
                 [] OTHER -> id
RECURSIVE NF(_)
RECURSIVE NFAttrs(_, _), NFItems(_, _)
NFAttrs(as, k) == IF k > Len(as) THEN <<>>
                  ELSE <<"SA", as[k].name>> \o (IF as[k].body = None THEN <<>> ELSE NF(as[k].body)) \o <<"EA">> \o NFAttrs(as, k + 1)
NFItems(is, k) == IF k > Len(is) THEN <<>>
                  ELSE (IF is[k].slot THEN NF(is[k].key) \o <<"SLOT">> ELSE <<>>) \o NF(is[k].val) \o <<"IT">> \o NFItems(is, k + 1)
NF(v) == CASE v.t = "leaf" -> <<LeafKey(v.id)>>
           [] v.t = "rec" -> NFAttrs(v.attrs, 1) \o <<"SB">> \o NFItems(v.items, 1) \o <<"ER">>
NormalForm(v) == NF(v)
\* the same stream with the exact leaf: identifies the abstract value
RECURSIVE KY(_)
RECURSIVE KYAttrs(_, _), KYItems(_, _)
KYAttrs(as, k) == IF k > Len(as) THEN <<>>
                  ELSE <<"SA", as[k].name>> \o (IF as[k].body = None THEN <<>> ELSE KY(as[k].body)) \o <<"EA">> \o KYAttrs(as, k + 1)
KYItems(is, k) == IF k > Len(is) THEN <<>>
                  ELSE (IF is[k].slot THEN KY(is[k].key) \o <<"SLOT">> ELSE <<>>) \o KY(is[k].val) \o <<"IT">> \o KYItems(is, k + 1)
KY(x) == CASE x.t = "leaf" -> <<x.id>>
           [] x.t = "rec" -> KYAttrs(x.attrs, 1) \o <<"SB">> \o KYItems(x.items, 1) \o <<"ER">>
ValueKey(x) == KY(x)
\* skeleton: the stream without the record / item markers.  Values with the same skeleton differ only in nesting - the
\* candidates for being merged by a comparator that skips StartBody / EndRecord events.
Skeleton(x) == SelectSeq(NF(x), LAMBDA e : e \notin {"SB", "ER", "IT"})

(* M. what HashParser feeds to the hasher, and whether an implicit body escaped its scan: see RE above *)
HashEvents(x, st) == RE(x, st, <<>>).ev
Undetected(x, st) == RE(x, st, <<>>).und

(* M. the comparator: compare_recon_values = incremental_compare over the two parse event streams, with one        *)
(* ValueValidator per side (api/formats/swimos_recon/src/comparator/mod.rs).  A transcription, one operator per      *)
(* function of the code, one CASE arm per match arm.  Events are records [k, v]: k in "prim" "sa" "ea" "sb" "slot"  *)
(* "er"; two events are == iff the records are equal (numbers are written by value).                                *)
(* Known consequence (C15-F12): a StartBody that only one side has is skipped, and the validators' equality adds up  *)
(* the sizes of nested frames without a key, so it cannot see WHERE a nested attribute-less record opens among the   *)
(* items before its content: { x, {y} } and { {x, y} } compare equal.                                                *)

\* ValueType
Prim == [t |-> "P"]
RecT(a, i) == [t |-> "R", a |-> a, i |-> i]
VLen(vt) == IF vt.t = "P" THEN 1 ELSE (IF vt.a = 0 THEN 1 ELSE vt.a) + (IF vt.i = 0 THEN 1 ELSE vt.i)
\* Option<ItemType>
NoItem == [t |-> "none"]
ValIt(vt) == [t |-> "V", v |-> vt]
SlotIt(k, vt) == [t |-> "S", k |-> k, v |-> vt]
ILen(it) == CASE it.t = "V" -> VLen(it.v) [] it.t = "S" -> VLen(it.k) + VLen(it.v) [] OTHER -> 0
\* KeyState
NoKey == [t |-> "nokey"]
AttrKey == [t |-> "attr"]
SlotKey(vt) == [t |-> "slot", vt |-> vt]
\* BuilderState with its ItemCollection (last, rest_size, items_count)
Frame(key, inb) == [key |-> key, inb |-> inb, attrs |-> 0, last |-> NoItem, rest |-> 0, cnt |-> 0]
ItemsLen(f) == f.rest + ILen(f.last)
PushItem(f, it) == [f EXCEPT !.cnt = @ + 1, !.rest = @ + ILen(f.last), !.last = it]       \* ItemCollection::push
TakeLast(f) == [f EXCEPT !.last = NoItem]                                                  \* ItemCollection::pop (the count stays)
\* ValueValidator: state "init" | "prog" | "inv", the stack of builders, the pending slot key (Option<ValueType>)
NoVT == [t |-> "none"]
NewValidator == [state |-> "init", stack |-> <<>>, sk |-> NoVT]
Top(V) == V.stack[Len(V.stack)]
SetTop(V, f) == [V EXCEPT !.stack = [@ EXCEPT ![Len(@)] = f]]
Invalid(V) == [V EXCEPT !.state = "inv"]
Ret(V, r) == [val |-> V, ret |-> r]

NewRecordFrame(V, inb) ==          \* takes the pending slot key
    [V EXCEPT !.stack = Append(@, Frame(IF V.sk = NoVT THEN NoKey ELSE SlotKey(V.sk), inb)), !.sk = NoVT]
NewAttrFrame(V) ==
    LET W == IF V.stack # <<>> /\ ~Top(V).inb THEN V ELSE NewRecordFrame(V, FALSE)
    IN [W EXCEPT !.stack = Append(@, Frame(AttrKey, TRUE))]
NewRecordItem(V) ==                \* Result<(), ()>: ok = FALSE is Err(())
    IF V.stack = <<>> THEN [val |-> V, ok |-> FALSE]
    ELSE [val |-> IF Top(V).inb THEN NewRecordFrame(V, TRUE) ELSE SetTop(V, [Top(V) EXCEPT !.inb = TRUE]), ok |-> TRUE]
SetSlotKey(V) ==                   \* the popped item carries the SHAPE of the key into the slot
    IF V.stack = <<>> THEN [val |-> V, ok |-> FALSE]
    ELSE LET it == Top(V).last IN
         [val |-> [SetTop(V, TakeLast(Top(V))) EXCEPT !.sk = IF it.t = "V" THEN it.v ELSE Prim], ok |-> TRUE]
AddItem(V, vt) ==
    LET W == [V EXCEPT !.sk = NoVT] IN          \* slot_key.take() happens first
    IF V.stack = <<>> THEN [val |-> W, ok |-> FALSE]
    ELSE IF Top(V).inb
           THEN [val |-> SetTop(W, PushItem(Top(W), IF V.sk = NoVT THEN ValIt(vt) ELSE SlotIt(V.sk, vt))), ok |-> TRUE]
           ELSE [val |-> W, ok |-> FALSE]
\* pop(is_attr_end): [v, ok, done] - done = the completed top-level record (NoVT if none)
Pop(V, attrEnd) ==
    IF V.stack = <<>> THEN [val |-> V, ok |-> FALSE, done |-> NoVT]
    ELSE LET f == Top(V)
             W == [V EXCEPT !.stack = SubSeq(@, 1, Len(@) - 1)]
             rec == RecT(f.attrs, ItemsLen(f))
         IN CASE f.key.t = "nokey" ->
                   IF attrEnd THEN [val |-> W, ok |-> FALSE, done |-> NoVT]
                   ELSE IF W.stack = <<>> THEN [val |-> W, ok |-> TRUE, done |-> rec]
                   ELSE [val |-> SetTop(W, PushItem(Top(W), ValIt(rec))), ok |-> TRUE, done |-> NoVT]
              [] f.key.t = "slot" ->
                   IF attrEnd \/ W.stack = <<>> THEN [val |-> W, ok |-> FALSE, done |-> NoVT]
                   ELSE [val |-> SetTop(W, PushItem(Top(W), SlotIt(f.key.vt, rec))), ok |-> TRUE, done |-> NoVT]
              [] f.key.t = "attr" ->
                   IF ~attrEnd \/ W.stack = <<>> THEN [val |-> W, ok |-> FALSE, done |-> NoVT]
                   ELSE LET body == IF f.attrs = 0 /\ f.cnt <= 1
                                      THEN (CASE f.last.t = "V" -> f.last.v
                                              [] f.last.t = "S" -> RecT(0, ILen(f.last))
                                              [] OTHER -> Prim)
                                      ELSE rec
                        IN [val |-> SetTop(W, [Top(W) EXCEPT !.attrs = @ + VLen(body)]), ok |-> TRUE, done |-> NoVT]

\* feed_event: [val |-> the validator afterwards, ret |-> Option<ValueType> returned]
FeedEvent(V, e) ==
    CASE V.state = "init" ->
           (CASE e.k = "sa" -> Ret([NewAttrFrame(V) EXCEPT !.state = "prog"], NoVT)
              [] e.k = "sb" -> Ret([NewRecordFrame(V, TRUE) EXCEPT !.state = "prog"], NoVT)
              [] e.k \in {"slot", "ea", "er"} -> Ret(Invalid(V), NoVT)
              [] OTHER -> Ret(V, NoVT))
      [] V.state = "prog" ->
           (CASE e.k = "prim" -> (LET r == AddItem(V, Prim) IN Ret(IF r.ok THEN r.val ELSE Invalid(r.val), NoVT))
              [] e.k = "sa" -> Ret(NewAttrFrame(V), NoVT)
              [] e.k = "sb" -> (LET r == NewRecordItem(V) IN Ret(IF r.ok THEN r.val ELSE Invalid(r.val), NoVT))
              [] e.k = "slot" -> (LET r == SetSlotKey(V) IN Ret(IF r.ok THEN r.val ELSE Invalid(r.val), NoVT))
              [] e.k = "ea" -> (LET r == Pop(V, TRUE) IN
                                Ret(IF ~r.ok THEN Invalid(r.val) ELSE IF r.done # NoVT THEN [r.val EXCEPT !.state = "init"] ELSE r.val, NoVT))
              [] e.k = "er" -> (LET r == Pop(V, FALSE) IN
                                IF ~r.ok THEN Ret(Invalid(r.val), NoVT)
                                ELSE IF r.done # NoVT THEN Ret([r.val EXCEPT !.state = "init"], r.done) ELSE Ret(r.val, NoVT)))
      [] OTHER -> Ret(V, NoVT)
Feed(V, e) == FeedEvent(V, e).val

\* PartialEq for ValueValidator: frames are compared in groups - a frame plus the key-less frames that follow it - by
\* the SUMS of their item sizes and attribute sizes; frames left over on one side are passed over
RECURSIVE Absorb2(_, _, _, _)
Absorb2(fs, k, il, al) ==      \* add the key-less frames from position k on: <<next position, items, attrs>>
    IF k <= Len(fs) /\ fs[k].key.t = "nokey" THEN Absorb2(fs, k + 1, il + ItemsLen(fs[k]), al + fs[k].attrs) ELSE <<k, il, al>>
RECURSIVE GroupsEq(_, _, _, _)
GroupsEq(s1, i, s2, j) ==
    IF i <= Len(s1) /\ j <= Len(s2)
      THEN LET g1 == Absorb2(s1, i + 1, ItemsLen(s1[i]), s1[i].attrs)
               g2 == Absorb2(s2, j + 1, ItemsLen(s2[j]), s2[j].attrs)
           IN IF g1[2] = g2[2] /\ g1[3] = g2[3] THEN GroupsEq(s1, g1[1], s2, g2[1]) ELSE FALSE
    ELSE IF i <= Len(s1) THEN GroupsEq(s1, i + 1, s2, j)
    ELSE IF j <= Len(s2) THEN GroupsEq(s1, i, s2, j + 1)
    ELSE TRUE
VEq(V1, V2) ==
    /\ V1.sk = V2.sk
    /\ CASE V1.state = "prog" /\ V2.state = "prog" -> GroupsEq(V1.stack, 1, V2.stack, 1)
         [] V1.state = "init" /\ V2.state = "init" -> TRUE
         [] OTHER -> FALSE

\* incremental_compare over two event sequences without parse errors: "T" / "F" / "N" (None)
SB == [k |-> "sb", v |-> ""]
ER == [k |-> "er", v |-> ""]
\* One iteration of the loop of incremental_compare.  c = [res, i, j, v1, v2]: res = "run" while the loop goes on,
\* else the result "T" / "F" / "N" (None).  (A step function rather than a recursive operator: TLC runs the loop as a
\* behaviour, one state per iteration.)
CmpStart == [res |-> "run", i |-> 1, j |-> 1, v1 |-> NewValidator, v2 |-> NewValidator]
Done(c, r) == [c EXCEPT !.res = r]
\* the check at the bottom of the loop
After(c, i, W1, j, W2) ==
    IF ~VEq(W1, W2) THEN Done(c, IF W1.state = "inv" /\ W2.state = "inv" THEN "N" ELSE "F")
    ELSE [res |-> "run", i |-> i, j |-> j, v1 |-> W1, v2 |-> W2]
\* skipping a StartBody and then an EndRecord on one side: <<ok, position, event, validator>>
SkipOne(E, i, V, ev) == IF i + 1 <= Len(E) THEN <<TRUE, i + 1, E[i + 1], Feed(V, ev)>> ELSE <<FALSE, i, ev, Feed(V, ev)>>
Skip(E, i, V) ==
    LET a == IF E[i] = SB THEN SkipOne(E, i, V, SB) ELSE <<TRUE, i, E[i], V>>
    IN IF ~a[1] THEN a
       ELSE IF a[3] = ER THEN SkipOne(E, a[2], a[4], ER) ELSE a
CmpStep(E1, E2, c) ==
    LET i == c.i
        j == c.j
    IN CASE i <= Len(E1) /\ j <= Len(E2) ->
              IF E1[i] = E2[j] THEN After(c, i + 1, Feed(c.v1, E1[i]), j + 1, Feed(c.v2, E2[j]))
              ELSE LET a == Skip(E1, i, c.v1) IN
                   IF ~a[1] THEN Done(c, "F")
                   ELSE LET b == Skip(E2, j, c.v2) IN
                        IF ~b[1] THEN Done(c, "F")
                        ELSE IF a[3] # b[3] THEN Done(c, "F")
                        ELSE LET f1 == FeedEvent(a[4], a[3])
                                 f2 == FeedEvent(b[4], b[3])
                             IN IF f1.ret # f2.ret THEN Done(c, "F") ELSE After(c, a[2] + 1, f1.val, b[2] + 1, f2.val)
         [] i <= Len(E1) -> After(c, i + 1, Feed(c.v1, E1[i]), j, c.v2)
         [] j <= Len(E2) -> After(c, i, c.v1, j + 1, Feed(c.v2, E2[j]))
         [] OTHER -> Done(c, IF VEq(c.v1, c.v2) THEN "T" ELSE "F")
\* compare_recon_values for two DIFFERENT valid texts: None falls back to string equality, which is false
CompareResult(c) == IF c.res = "T" THEN 1 ELSE 0

RECURSIVE HasLeaf(_, _)
HasLeaf(v, ids) == CASE v.t = "leaf" -> v.id \in ids
                     [] v.t = "rec" -> \/ \E k \in 1..Len(v.attrs) : HasLeaf(v.attrs[k].body, ids)
                                       \/ \E k \in 1..Len(v.items) : HasLeaf(v.items[k].val, ids) \/ HasLeaf(v.items[k].key, ids)
                     [] OTHER -> FALSE

-----------------------------------------------------------------------------
(* The enumeration: value -> (edit) -> value' -> (layout) -> rendering -> (corrupt) -> invalid text *)

VARIABLES v,        \* the abstract value
          gen,      \* 0: a base value, 1: a near miss (one edit away from a base value)
          st,       \* the style of the rendering (None: not rendered yet)
          cor       \* the corruption applied ("none")
vars == <<v, gen, st, cor>>

Init == v \in BaseValues /\ gen = 0 /\ st = None /\ cor = "none"

Edit == /\ gen = 0 /\ st = None
        /\ v' \in Edits(v)
        /\ gen' = 1 /\ UNCHANGED <<st, cor>>

Layout == /\ st = None
          /\ st' \in (IF gen = 0 THEN StylesFull ELSE StylesFew)
          /\ UNCHANGED <<v, gen, cor>>

Corrupt == /\ gen = 0 /\ st = Default /\ cor = "none"
           /\ cor' \in Corruptions
           /\ UNCHANGED <<v, gen, st>>

Next == Edit \/ Layout \/ Corrupt
=============================================================================

------------------------------- MODULE Route -------------------------------
(***************************************************************************)
(* C18 - Routing is deterministic: patterns invert, ambiguity is detected. *)
(*                                                                         *)
(* Data model + mechanism (M) + laws (P) of swimos_route::RoutePattern as  *)
(* it is used by the server (PlaneBuilder::build, Routes::find_route).     *)
(*                                                                         *)
(* Strings are abstracted to SYMBOLS.  A raw segment symbol stands for a   *)
(* spelling; SymOct gives the class of its percent-decoded octets, SymDec   *)
(* that of the (lossily decoded) text, so two symbols with the same SymOct *)
(* are two spellings of the same octets                                    *)
(* ("A" / "%41", "%C3%A9" / "%c3%a9" / raw "e-acute").  The check module   *)
(* concretises the symbols from pools that respect exactly these           *)
(* relations, so everything the code can distinguish at the level of       *)
(* "equal raw / equal after decoding / legal in a URI / empty" is          *)
(* enumerated here and everything below that (which bytes) in the pools.   *)
(*                                                                         *)
(* code                                  | here                            *)
(* --------------------------------------+-------------------------------- *)
(* RoutePattern{scheme,absolute,segments}| [sc, abs, segs]                 *)
(* Segment{parameter}                    | [t |-> "lit"|"par", s |-> sym]  *)
(* RouteUri (scheme, path split at '/')  | [sc, abs, segs : Seq(sym)]      *)
(* unapply_route_uri / unapply_parts     | Match, BindM                    *)
(* apply                                 | Complete, MissingM, ApplyM      *)
(* are_ambiguous                         | AmbM                            *)
(* PlaneBuilder::build                   | action Build (BuildAmbM)        *)
(* Routes::find_route                    | action FindRoute (FirstMatch)   *)
(***************************************************************************)
EXTENDS Naturals, Sequences, FiniteSets, TLC

CONSTANTS LitSyms,     \* raw literal symbols patterns are built from  (subset of DOMAIN SymDec)
          ParSyms,     \* raw parameter names                          (subset of DOMAIN NameDec)
          Schemes,     \* pattern schemes, "" = none                   (subset of {"", "s", "t", "sr"})
          AbsFlags,    \* subset of BOOLEAN
          MaxSegs,     \* longest pattern
          MaxRoutes,   \* largest route table
          Findings,    \* known deviations of the mechanism that the invariants excuse (subset of {"F8c", "F8d", "F8f"})
          DeepOverlap  \* TRUE: also check the syntactic overlap criterion against its definition (\E u)

VARIABLES routes,      \* PlaneBuilder.model.routes : the patterns added so far, in order
          built,       \* "no" | "accepted" | "rejected" : outcome of PlaneBuilder::build
          lastAct      \* the operation just performed with the result M expects (hidden from the VIEW)

vars == <<routes, built, lastAct>>
View == <<routes, built>>

----------------------------------------------------------------------------
(* Symbol tables.                                                          *)

\* Percent-decoding gives OCTETS; only where a text is needed (the value bound to a parameter) are the
\* octets turned into a string, lossily: every octet (sequence) that is not valid UTF-8 becomes U+FFFD.
\* The two are different relations as soon as escapes of invalid UTF-8 occur:
\*   "i1" / "i1l"  two spellings (%E9 / %e9) of the same invalid octet(s): Latin-1 escape, %FF, a truncated
\*                 multi-byte sequence (%C3 alone), an overlong form (%C0%AF)
\*   "i2"          other invalid octet(s) (%E8, %FE ...)
\*   "rf"          the valid UTF-8 escape of U+FFFD itself (%EF%BF%BD)
\* all four decode lossily to the same text ("r") but to three different octet strings.
\* SymOct: class of the decoded octets of every raw segment symbol ("e" is the empty segment) - what
\* literal segments are compared by, in unapply_parts AND in are_ambiguous (PercentDecode iterators).
SymOct == [ a |-> "a", ae |-> "a", b |-> "b",
            ue |-> "u", ul |-> "u", ur |-> "u",
            v |-> "v", we |-> "w", wl |-> "w", tr |-> "t",
            i1 |-> "i1", i1l |-> "i1", i2 |-> "i2", rf |-> "r", pe |-> "p", pr |-> "q", e |-> "" ]
\* "p" is a value TEXT that itself looks percent-encoded: only unreserved characters and well-formed %XX
\* triples ("100%25", "a%2Fb", "%41").  As a value it is data: apply must escape its '%' ("pe" = 100%2525);
\* written verbatim ("pr") it would be read back as another text, "q" (100%).
\* SymDec: class of the lossily decoded text - what a parameter is bound to (decode_utf8_lossy).
SymDec == [ a |-> "a", ae |-> "a", b |-> "b",
            ue |-> "u", ul |-> "u", ur |-> "u",
            v |-> "v", we |-> "w", wl |-> "w", tr |-> "t",
            i1 |-> "r", i1l |-> "r", i2 |-> "r", rf |-> "r", pe |-> "p", pr |-> "q", e |-> "" ]
\* "ur" spells its text with characters that may not occur in a RouteUri path (non-ASCII, space,
\* '?', '#', a lone '%' ...): the pattern parser takes it, a URI cannot contain it.
\* "tr" is a value text that URL_ENCODE leaves as it is ('~' is "unreserved"); since f104ab0 '~' is a
\* RouteUri path character, so it is legal (before, the URI was cut at it: finding F8e, repaired).
UriLegalSym(s) == s # "ur"
\* what utf8_percent_encode(_, URL_ENCODE) produces for a decoded text: the canonical legal spelling
EncOf == [ a |-> "a", b |-> "b", u |-> "ue", v |-> "v", w |-> "we", t |-> "tr", r |-> "rf", p |-> "pe" ]
\* percent-decoded class of a raw parameter name ("xe" is a second spelling of "x")
NameDec == [ x |-> "x", y |-> "y", xe |-> "x" ]
\* "sr" is a scheme the pattern parser takes but RouteUri does not ('_', ' ' ...)
SchemeLegal(s) == s # "sr"

ASSUME \A d \in DOMAIN EncOf : SymDec[EncOf[d]] = d /\ UriLegalSym(EncOf[d])
ASSUME LitSyms \subseteq {"a", "ae", "b", "ue", "ul", "ur", "i1", "i1l", "i2", "rf"} /\ ParSyms \subseteq DOMAIN NameDec
\* equal octets give equal text, never the other way round
ASSUME \A x, y \in DOMAIN SymOct : SymOct[x] = SymOct[y] => SymDec[x] = SymDec[y]
ASSUME DOMAIN SymOct = DOMAIN SymDec /\ \A x \in DOMAIN SymOct : (SymOct[x] = "") = (SymDec[x] = "")

LegalForm(s) == IF UriLegalSym(s) THEN s ELSE EncOf[SymDec[s]]

\* segment symbols URIs are synthesised from, and their schemes
USyms    == {LegalForm(s) : s \in LitSyms} \cup {"v", "we", "wl", "pe", "e"}
USchemes == {"", "s", "t"}

----------------------------------------------------------------------------
(* Patterns and URIs.                                                      *)

SegSet == [t : {"lit"}, s : LitSyms] \cup [t : {"par"}, s : ParSyms]

Lit(g) == g.t = "lit"
Par(g) == g.t = "par"
N(p) == Len(p.segs)
ParPos(p) == {i \in 1..N(p) : Par(p.segs[i])}
Names(p)  == {p.segs[i].s : i \in ParPos(p)}
NameSeq(p) == LET ps == SelectSeq(p.segs, Par) IN [i \in 1..Len(ps) |-> ps[i].s]
PosOf(p, n) == CHOOSE i \in ParPos(p) : p.segs[i].s = n

\* What RoutePattern::parse accepts, structurally (M): raw parameter names are distinct; a pattern
\* without any segment is accepted only as "scheme:" (ParseState::AfterScheme at the end).
\* The duplicate scan runs over ALL segments, the final one (pushed by ParseState::end) included.
DistinctNames(p) == \A i, j \in ParPos(p) : i # j => p.segs[i].s # p.segs[j].s
SegmentsOK(p) == N(p) = 0 => (p.sc # "" /\ ~p.abs)
WFM(p) == DistinctNames(p) /\ SegmentsOK(p)

\* every pattern text within the bounds, a parameter name repeated at any pair of positions included
AllTexts == {p \in [sc : Schemes, abs : AbsFlags,
                    segs : UNION {[1..n -> SegSet] : n \in 0..MaxSegs}] : SegmentsOK(p)}
AllPatterns == {p \in AllTexts : DistinctNames(p)}       \* those parse accepts
DupTexts    == AllTexts \ AllPatterns                     \* those parse must reject (ParseError)

\* A RouteUri has at least one segment and the first one is not empty ("/", "//a" do not parse).
UriLegal(u) == /\ SchemeLegal(u.sc)
               /\ Len(u.segs) >= 1
               /\ SymDec[u.segs[1]] # ""
               /\ \A i \in 1..Len(u.segs) : UriLegalSym(u.segs[i])

----------------------------------------------------------------------------
(* unapply_route_uri: the scheme is compared only if both sides have one;  *)
(* an absolute pattern needs a leading '/', a relative one cannot match an *)
(* absolute path (its first part is empty); the segment counts agree;      *)
(* literals are compared after percent-decoding; a parameter takes any     *)
(* non-empty decoded segment.                                              *)

SchemeOK(ps, us) == ps = "" \/ us = "" \/ ps = us

Match(p, u) ==
    /\ SchemeOK(p.sc, u.sc)
    /\ p.abs = u.abs
    /\ N(p) = Len(u.segs)
    /\ \A i \in 1..N(p) :
          IF Lit(p.segs[i]) THEN SymOct[p.segs[i].s] = SymOct[u.segs[i]]
                            ELSE SymDec[u.segs[i]] # ""

\* P: the bindings, by the names apply() and parameters() use (the raw names).
BindP(p, u) == [n \in Names(p) |-> SymDec[u.segs[PosOf(p, n)]]]

\* M: unapply_parts keys the map by the raw segment_str since 7530ccc (before, by the percent-DECODED
\* name, a later position overwriting: finding F8b, repaired) - so M = P here.
BindM(p, u) == BindP(p, u)

----------------------------------------------------------------------------
(* apply: m is a function from raw names to decoded values, "" = empty.    *)

Complete(p, m) == \A n \in Names(p) : n \in DOMAIN m /\ m[n] # ""
MissingM(p, m) == SelectSeq(NameSeq(p), LAMBDA n : n \notin DOMAIN m \/ m[n] = "")
\* M: literal segments are copied raw, values are percent-encoded.
ApplyM(p, m) == [sc |-> p.sc, abs |-> p.abs,
                 segs |-> [i \in 1..N(p) |-> IF Lit(p.segs[i]) THEN p.segs[i].s
                                                              ELSE EncOf[m[p.segs[i].s]]]]

\* unapply_str(apply(m)) as M computes it: "none" when the produced text is not a RouteUri
\* that matches.
RoundTripM(p, m) == LET u == ApplyM(p, m) IN
                    IF UriLegal(u) /\ Match(p, u) THEN BindM(p, u) ELSE "none"
RoundTripOK(p, m) == LET u == ApplyM(p, m) IN
                     UriLegal(u) /\ Match(p, u) /\ BindM(p, u) = m

----------------------------------------------------------------------------
(* are_ambiguous (M): same number of segments and no position where both   *)
(* are literals with different percent-decoded OCTETS (since 7530ccc;       *)
(* before, the raw text was compared: finding F8a, repaired) - the same     *)
(* comparison as in unapply_parts, on octets, not on lossily decoded text:  *)
(* %E9 and %E8 are different literals.  Scheme and absolute flag are not    *)
(* looked at.                                                               *)

AmbM(p, q) == /\ N(p) = N(q)
              /\ \A i \in 1..N(p) :
                    (Lit(p.segs[i]) /\ Lit(q.segs[i])) => SymOct[p.segs[i].s] = SymOct[q.segs[i].s]

\* P: two patterns overlap iff some URI is matched by both.
UriSpace(n) == [sc : USchemes, abs : BOOLEAN, segs : [1..n -> USyms]]
OverlapDef(p, q) == \E u \in UriSpace(N(p)) : UriLegal(u) /\ Match(p, u) /\ Match(q, u)
\* ... which is decidable position by position (checked against the definition when DeepOverlap)
OverlapS(p, q) == /\ N(p) = N(q) /\ N(p) >= 1
                  /\ p.abs = q.abs
                  /\ \A i \in 1..N(p) :
                        (Lit(p.segs[i]) /\ Lit(q.segs[i])) => SymOct[p.segs[i].s] = SymOct[q.segs[i].s]

\* the URI both match when they overlap
Witness(p, q) == [sc |-> IF p.sc = q.sc THEN p.sc ELSE "", abs |-> p.abs,
                  segs |-> [i \in 1..N(p) |-> IF Lit(p.segs[i]) THEN LegalForm(p.segs[i].s)
                                              ELSE IF i <= N(q) /\ Lit(q.segs[i]) THEN LegalForm(q.segs[i].s)
                                              ELSE "v"]]
\* the URI apply() should give for p with every parameter set to val (in its legal spelling)
Canon(p, val) == [sc |-> p.sc, abs |-> p.abs,
                  segs |-> [i \in 1..N(p) |-> IF Lit(p.segs[i]) THEN LegalForm(p.segs[i].s) ELSE val]]

----------------------------------------------------------------------------
(* Shapes of the known deviations (signatures of known_findings/C18.json). *)
(* F8a, F8b, F8e are repaired in the code: their shapes are kept because    *)
(* they are exactly the inputs on which a regression would show (the dumps  *)
(* carry them), but no law excuses them any more.                           *)

F8a(p, q) == N(p) = N(q) /\ \E i \in 1..N(p) :
                /\ Lit(p.segs[i]) /\ Lit(q.segs[i])
                /\ p.segs[i].s # q.segs[i].s /\ SymOct[p.segs[i].s] = SymOct[q.segs[i].s]
F8b(p) == \E n \in Names(p) : NameDec[n] # n
F8c(p) == \E i \in 1..N(p) : Lit(p.segs[i]) /\ ~UriLegalSym(p.segs[i].s)
F8d(p) == N(p) = 0
F8f(p) == ~SchemeLegal(p.sc)
Shapes(p) == {f \in {"F8b", "F8c", "F8d", "F8f"} :
                \/ (f = "F8b" /\ F8b(p))
                \/ (f = "F8c" /\ F8c(p))
                \/ (f = "F8d" /\ F8d(p))
                \/ (f = "F8f" /\ F8f(p))}
Excused(p) == Shapes(p) \cap Findings # {}
F8e(m) == \E n \in DOMAIN m : m[n] = "t"

----------------------------------------------------------------------------
(* The server: PlaneBuilder collects routes, build() accepts the table iff *)
(* no pair is reported ambiguous, the runtime resolves a node URI to the   *)
(* first route that matches.                                               *)

Pairs(rs) == {ij \in (1..Len(rs)) \X (1..Len(rs)) : ij[1] < ij[2]}
BuildAmbM(rs) == {i \in 1..Len(rs) : \E j \in 1..Len(rs) : i # j /\ AmbM(rs[i], rs[j])}
Matching(rs, u) == {i \in 1..Len(rs) : Match(rs[i], u)}
FirstMatch(rs, u) == IF Matching(rs, u) = {} THEN 0
                     ELSE CHOOSE i \in Matching(rs, u) : \A j \in Matching(rs, u) : i <= j
\* URIs a table is probed with: every route's own canonical URI, with and without its scheme, and for
\* every overlapping pair the witness without a scheme (which any pattern scheme accepts - this is what
\* makes 's:/a' and 't:/a' overlap) and under each of the two patterns' schemes.
TableUris(rs) == UNION {{[Canon(rs[i], "v") EXCEPT !.sc = s] : s \in {"", rs[i].sc}} :
                                i \in {k \in 1..Len(rs) : N(rs[k]) >= 1}}
                 \cup UNION {{[Witness(rs[ij[1]], rs[ij[2]]) EXCEPT !.sc = s] : s \in {"", rs[ij[1]].sc, rs[ij[2]].sc}} :
                                ij \in {x \in Pairs(rs) : OverlapS(rs[x[1]], rs[x[2]])}}

Init == routes = <<>> /\ built = "no" /\ lastAct = [k |-> "init"]

AddRoute(p) == /\ built = "no" /\ Len(routes) < MaxRoutes
               /\ routes' = Append(routes, p)
               /\ lastAct' = [k |-> "add", p |-> p]
               /\ UNCHANGED built

Build == /\ built = "no" /\ Len(routes) >= 1
         /\ built' = IF BuildAmbM(routes) = {} THEN "accepted" ELSE "rejected"
         /\ lastAct' = [k |-> "build", amb |-> BuildAmbM(routes)]
         /\ UNCHANGED routes

FindRoute == /\ built = "accepted"
             /\ \E u \in TableUris(routes) :
                   lastAct' = [k |-> "find", u |-> u, all |-> Matching(routes, u), first |-> FirstMatch(routes, u)]
             /\ UNCHANGED <<routes, built>>

\* RoutePattern::parse on a text that repeats a parameter name: ParseError, no route is added.  The state only
\* remembers the text (in `routes`, for the dump and the law below); nothing else can follow.
ParseError(p) == /\ built = "no" /\ routes = <<>>
                 /\ routes' = <<p>> /\ built' = "parse-error"
                 /\ lastAct' = [k |-> "parse-error", p |-> p]

Next == \/ \E p \in AllPatterns : AddRoute(p)
        \/ \E p \in DupTexts : ParseError(p)
        \/ Build
        \/ FindRoute

Spec == Init /\ [][Next]_vars

----------------------------------------------------------------------------
(* The laws (P), stated over the mechanism (M).  Per-pattern laws are      *)
(* evaluated where the table holds one pattern, pair laws where it holds   *)
(* two, table laws after build().                                          *)

Accepted == built # "parse-error"     \* routes holds parsed patterns (otherwise: one rejected text)
TypeOK == /\ built \in {"no", "accepted", "rejected", "parse-error"}
          /\ Len(routes) <= MaxRoutes
          /\ Accepted => \A i \in 1..Len(routes) : routes[i] \in AllPatterns
          /\ ~Accepted => (Len(routes) = 1 /\ routes[1] \in DupTexts)

\* value assignments used for apply: by parameter position
ValRows == {<<"v", "v", "v">>, <<"v", "w", "u">>, <<"w", "a", "v">>, <<"u", "v", "w">>, <<"t", "v", "t">>, <<"r", "v", "r">>, <<"p", "v", "p">>}
RowMap(p, row) == [n \in Names(p) |-> row[((PosOf(p, n) - 1) % 3) + 1]]
CompleteMaps(p) == {RowMap(p, row) : row \in ValRows}
IncompleteMaps(p) == {[n \in Names(p) \ {x} |-> "v"] : x \in Names(p)}
                     \cup {[n \in Names(p) |-> IF n = x THEN "" ELSE "v"] : x \in Names(p)}

\* L1  unapply(apply(m)) = m for every complete m
LawRoundTrip ==
    (Accepted /\ Len(routes) = 1) =>
        LET p == routes[1] IN
        \A m \in CompleteMaps(p) : Complete(p, m) /\ (RoundTripOK(p, m) \/ Excused(p))

\* apply refuses exactly the incomplete maps and names what is missing
LawApplyMissing ==
    (Accepted /\ Len(routes) = 1) =>
        LET p == routes[1] IN
        \A m \in IncompleteMaps(p) : ~Complete(p, m) /\ Len(MissingM(p, m)) >= 1

\* the canonical URI with a DIFFERENT value at every parameter position
PosVals == <<"v", "w", "u", "a", "t", "r">>
CanonDistinct(p) == [sc |-> p.sc, abs |-> p.abs,
                     segs |-> [i \in 1..N(p) |-> IF Lit(p.segs[i]) THEN LegalForm(p.segs[i].s)
                                                 ELSE EncOf[PosVals[((i - 1) % 6) + 1]]]]

\* URIs synthesised from a pattern: the canonical one with one segment replaced by every symbol,
\* one segment more / fewer, the other schemes, the other absolute flag, other spellings of values
Replace(u, i, s) == [u EXCEPT !.segs[i] = s]
UrisOf(p) ==
    IF N(p) = 0 THEN {[sc |-> p.sc, abs |-> a, segs |-> <<s>>] : a \in BOOLEAN, s \in {"a", "v"}}
    ELSE LET c == Canon(p, "v") IN
         {c, Canon(p, "we"), Canon(p, "wl"), CanonDistinct(p)}
         \cup {Replace(c, i, s) : i \in 1..N(p), s \in USyms}
         \cup {[c EXCEPT !.segs = Append(c.segs, s)] : s \in {"a", "v", "e"}}
         \cup (IF N(p) > 1 THEN {[c EXCEPT !.segs = SubSeq(c.segs, 1, N(p) - 1)]} ELSE {})
         \cup {[c EXCEPT !.sc = s] : s \in USchemes}
         \cup {[c EXCEPT !.abs = ~c.abs]}
WellFormedUris(p) == {u \in UrisOf(p) : UriLegal(u)}

\* L2  a parameter never binds an empty segment; the bindings are a function of (pattern, URI)
\*     and cover exactly the parameters
LawNoEmptyBinding ==
    (Accepted /\ Len(routes) = 1) =>
        LET p == routes[1] IN
        \A u \in WellFormedUris(p) :
            Match(p, u) => /\ \A n \in Names(p) : BindP(p, u)[n] # ""
                           /\ DOMAIN BindP(p, u) = Names(p)
                           /\ BindM(p, u) = BindP(p, u)

\* L2'  the other direction of the inverse: apply(unapply(u)) regenerates u - segment by segment the same
\*      decoded text, the same absolute flag (the spelling may become the canonical one)
SameText(u1, u2) == /\ u1.abs = u2.abs /\ Len(u1.segs) = Len(u2.segs)
                    /\ \A i \in 1..Len(u1.segs) : SymDec[u1.segs[i]] = SymDec[u2.segs[i]]
LawRegenerate ==
    (Accepted /\ Len(routes) = 1) =>
        LET p == routes[1] IN
        \A u \in WellFormedUris(p) : Match(p, u) => SameText(ApplyM(p, BindM(p, u)), u)

\* ... which is why a repeated parameter name must be a parse error: such a text, taken as a pattern, matches
\* a URI with two different values at the two positions but keeps only one of them (the later position
\* overwrites the earlier in the map), so apply cannot regenerate the URI.
BindLast(p, u) == [n \in Names(p) |->
                     SymDec[u.segs[CHOOSE i \in ParPos(p) : p.segs[i].s = n /\ \A j \in ParPos(p) : p.segs[j].s = n => j <= i]]]
LawDuplicateNamesDoNotInvert ==
    ~Accepted =>
        LET p == routes[1] u == CanonDistinct(p) IN
        /\ ~DistinctNames(p)
        /\ Match(p, u) /\ ~SameText(ApplyM(p, BindLast(p, u)), u)

\* L3  whenever some URI is matched by two patterns, are_ambiguous reports them (both orders)
LawAmbiguityComplete ==
    (Accepted /\ Len(routes) = 2) =>
        LET p == routes[1] q == routes[2] IN
        /\ OverlapS(p, q) => AmbM(p, q)
        /\ AmbM(p, q) = AmbM(q, p)
        /\ AmbM(p, p)

\* the witness is a well-formed URI that both match, exactly when they overlap
LawWitness ==
    (Accepted /\ Len(routes) = 2) =>
        LET p == routes[1] q == routes[2] IN
        OverlapS(p, q) => /\ UriLegal(Witness(p, q)) \/ ~SchemeLegal(Witness(p, q).sc)
                          /\ Match(p, Witness(p, q)) /\ Match(q, Witness(p, q))

\* the syntactic criterion is the definition (small scope only: quantifies over all URIs)
LawOverlapCharacterised ==
    (DeepOverlap /\ Len(routes) = 2) =>
        LET p == routes[1] q == routes[2] IN
        (N(p) = N(q) /\ N(p) >= 1) => (OverlapDef(p, q) <=> OverlapS(p, q))

\* L4  an accepted table resolves every URI to at most one definition
TableF8a(rs) == \E ij \in Pairs(rs) : F8a(rs[ij[1]], rs[ij[2]])
LawResolveUnique ==
    built = "accepted" =>
        \A u \in TableUris(routes) : Cardinality(Matching(routes, u)) <= 1
LawBuildRejects ==
    built = "rejected" => \E ij \in Pairs(routes) : AmbM(routes[ij[1]], routes[ij[2]])

\* find_route returns the first match, which in an accepted table is the only one
FindIsTheMatch ==
    [][lastAct'.k = "find" =>
          /\ lastAct'.first = FirstMatch(routes, lastAct'.u)
          /\ lastAct'.all \subseteq {lastAct'.first}]_vars
=============================================================================

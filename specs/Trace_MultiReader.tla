--------------------------- MODULE Trace_MultiReader ---------------------------
(***************************************************************************)
(* P for the multiplexing part of C11, as a trace specification: accepts   *)
(* exactly the recorded add / push / close / poll histories of a stream    *)
(* multiplexer through which "messages from the many sources sharing one   *)
(* socket all leave, each source's messages in its own order".  It knows   *)
(* nothing of slab keys, buckets or flag words: any fair, lossless,        *)
(* order-preserving multiplexer is accepted.                               *)
(*                                                                         *)
(* Events (ndjson, logged at the return of each call):                     *)
(*   {"k":"reset","pad":p,"n":n}    fresh reader, p idle sources attached  *)
(*   {"k":"add","s":s}                                                     *)
(*   {"k":"push","s":s,"wake":b}    source s makes its next item available *)
(*   {"k":"close","s":s,"wake":b}   source s ends                          *)
(*   {"k":"poll","r":"item","src":s,"n":j,"wake":b} | "pending" | "done"   *)
(* wake = the task's waker was woken during the call.                      *)
(***************************************************************************)
EXTENDS Naturals, Sequences, FiniteSets, TLC, Json, IOUtils

Rec == ndJsonDeserialize(IOEnv.TRACE)
MaxS == 8
S == 1..MaxS

VARIABLES i, pad, n, att, sent, got, closed, idle, byp
vars == <<i, pad, n, att, sent, got, closed, idle, byp>>

Has(e, f) == f \in DOMAIN e
Max(a, b) == IF a > b THEN a ELSE b
Woke(e) == Has(e, "wake") /\ e.wake = TRUE

Zero == [s \in S |-> 0]
TraceInit == /\ i = 1 /\ pad = 0 /\ n = 0
             /\ att = [s \in S |-> "new"] /\ sent = Zero /\ got = Zero
             /\ closed = [s \in S |-> FALSE] /\ idle = FALSE /\ byp = Zero
             /\ TLCSet(1, 1)

Deliverable(s) == att[s] = "att" /\ got[s] < sent[s]

Step(e) ==
    \/ /\ e.k = "reset"
       /\ pad' = e.pad /\ n' = e.n
       /\ att' = [s \in S |-> "new"] /\ sent' = Zero /\ got' = Zero
       /\ closed' = [s \in S |-> FALSE] /\ idle' = FALSE /\ byp' = Zero
    \/ /\ e.k = "add" /\ att[e.s] = "new"
       /\ att' = [att EXCEPT ![e.s] = "att"]
       /\ idle' = FALSE                        \* the owner polls again after adding
       /\ UNCHANGED <<pad, n, sent, got, closed, byp>>
    \/ /\ e.k = "push" /\ ~closed[e.s]
       /\ sent' = [sent EXCEPT ![e.s] = @ + 1]
       /\ idle' = (idle /\ ~Woke(e))
       /\ UNCHANGED <<pad, n, att, got, closed, byp>>
    \/ /\ e.k = "close" /\ ~closed[e.s]
       /\ closed' = [closed EXCEPT ![e.s] = TRUE]
       /\ idle' = (idle /\ ~Woke(e))
       /\ UNCHANGED <<pad, n, att, sent, got, byp>>
    \/ /\ e.k = "poll" /\ e.r = "item"
       \* the next item of an attached source, nothing else: own order, no duplicate, no fabrication
       /\ e.src \in S /\ att[e.src] = "att" /\ e.n = got[e.src] + 1 /\ e.n <= sent[e.src]
       /\ got' = [got EXCEPT ![e.src] = e.n]
       /\ byp' = [s \in S |-> IF s = e.src THEN 0 ELSE IF Deliverable(s) THEN byp[s] + 1 ELSE 0]
       /\ idle' = FALSE
       /\ UNCHANGED <<pad, n, att, sent, closed>>
    \/ /\ e.k = "poll" /\ e.r = "pending"
       /\ idle' = ~Woke(e)
       /\ UNCHANGED <<pad, n, att, sent, got, closed, byp>>
    \/ /\ e.k = "poll" /\ e.r = "done"
       \* end of the multiplexed stream only when every source has ended and was drained
       /\ pad = 0 /\ \A s \in S : att[s] = "att" => (closed[s] /\ got[s] = sent[s])
       /\ att' = [s \in S |-> IF att[s] = "att" THEN "gone" ELSE att[s]]
       /\ idle' = FALSE
       /\ UNCHANGED <<pad, n, sent, got, closed, byp>>

\* the property, evaluated on the state after every event
\* nothing lost: never parked (Pending, not woken since) while an attached source has an item
NoLostItem == idle' => \A s \in S : att'[s] = "att" => got'[s] = sent'[s]
\* nobody starved: finite rendering of "all leave it" - a source with an item available is not
\* passed over for more than two full rounds (+ slack) of the other scripted sources
NoStarvation == \A s \in S : byp'[s] <= 2 * n' + 2

TraceNext == /\ i <= Len(Rec)
             /\ Step(Rec[i])
             /\ NoLostItem /\ NoStarvation
             /\ i' = i + 1
             /\ TLCSet(1, Max(TLCGet(1), i + 1))

TraceSpec == TraceInit /\ [][TraceNext]_vars

TraceAccepted ==
    LET m == TLCGet(1) IN
    /\ PrintT(<<"TRACE_RESULT", ToJson([accepted |-> (m = Len(Rec) + 1), matched |-> m - 1, total |-> Len(Rec), kf |-> <<>>])>>)
    /\ m = Len(Rec) + 1
=============================================================================

--------------------------- MODULE Gen_ReconChunk ---------------------------
(***************************************************************************)
(* Generator of Recon *texts* for C09 (the inputs on which the chunk plans *)
(* of ReconChunk are run, and whose parse results feed the round-trip      *)
(* laws): a walk over the state-stack machine of IncrementalReconParser    *)
(* (Recon.tla, section 3: PStep mirrors record/mod.rs `parse`, one case    *)
(* per ParseState and per alternative of its `alt`).  One action per token *)
(* class.  Every reachable token sequence of at most MaxToks tokens is     *)
(* printed once (TOKS) with the verdict the model predicts:                *)
(*     accept       the value is complete (the state stack is empty)       *)
(*     accept-eof   the input may end here (final-segment parser)          *)
(*     reject-eof   the input ends inside a record / attribute body        *)
(*     reject       the last token is not allowed in the state it meets    *)
(*     unknown      an ill-formed fragment was spliced in (mutation)        *)
(* A wrong prediction is MODEL-DRIFT, never an alarm: the laws (MC_Recon)  *)
(* only speak about what the real parser, printers and decoders return.    *)
(* The harness concretises every token from the boundary pools.            *)
(***************************************************************************)
EXTENDS Recon, Json

CONSTANTS MaxToks,      \* longest token sequence
          MaxStack,     \* deepest parser state stack explored
          BadFragments, \* ill-formed fragments spliced in by the mutation action ({} = none)
          Rejects,      \* TRUE: also feed tokens the state does not allow (the walk ends there)
          EmitOpen      \* TRUE: also print the sequences that end inside a body (plain truncations)

VARIABLES pstack,    \* the parser's Vec<ParseState>
          toks,      \* tokens fed so far
          verdict,   \* "open" | "accept" | "reject" | "unknown"
          lastAct

vars == <<pstack, toks, verdict, lastAct>>

Init == /\ pstack = <<PInit>> /\ toks = <<>> /\ verdict = "open"
        /\ lastAct = [k |-> "init"]

Feed(t) ==
    /\ verdict = "open" /\ Len(toks) < MaxToks
    /\ LET r == PStep(pstack, t) IN
       /\ Len(r.stk) <= MaxStack
       /\ Rejects \/ r.ok
       /\ pstack' = r.stk
       /\ verdict' = IF ~r.ok THEN "reject" ELSE IF r.stk = <<>> THEN "accept" ELSE "open"
    /\ toks' = Append(toks, t)
    /\ lastAct' = [k |-> "tok", t |-> t]

TokLit   == verdict = "open" /\ Feed("lit")      \* string literal
TokPrim  == verdict = "open" /\ Feed("prim")     \* identifier / bool / number / blob
TokSep   == verdict = "open" /\ Feed("sep")      \* , ;
TokColon == verdict = "open" /\ Feed("colon")
TokNl    == verdict = "open" /\ Feed("nl")
TokRb    == verdict = "open" /\ Feed("rb")       \* }
TokRp    == verdict = "open" /\ Feed("rp")       \* )
TokAttr0 == verdict = "open" /\ Feed("attr0")    \* @name
TokAttrp == verdict = "open" /\ Feed("attrp")    \* @name(
TokLb    == verdict = "open" /\ Feed("lb")       \* {

\* mutation: an ill-formed fragment where a token is expected
Splice == \E b \in BadFragments :
            /\ verdict = "open" /\ Len(toks) < MaxToks
            /\ toks' = Append(toks, b) /\ verdict' = "unknown"
            /\ UNCHANGED pstack
            /\ lastAct' = [k |-> "splice", t |-> b]

Next == TokLit \/ TokPrim \/ TokSep \/ TokColon \/ TokNl \/ TokRb \/ TokRp \/ TokAttr0 \/ TokAttrp \/ TokLb \/ Splice
Spec == Init /\ [][Next]_vars

\* ---- invariants of the parser model
\* ParseState::after_item is never applied to a state it panics on
AfterItemTotal == NoPanicState(pstack)
\* a frame below the top is always one that waits for an item or an attribute body to finish
StackShape == \A j \in 1..(Len(pstack) - 1) :
                 /\ pstack[j].s \in {"Init", "AfterAttr", "StartOrNl", "AfterSep", "Slot"}
                 \* above Init / AfterAttr only an attribute body can be open (popped by PopAfterAttr)
                 /\ (pstack[j].s \in {"Init", "AfterAttr"}) => (pstack[j + 1].k = "A")
TypeOK == /\ verdict \in {"open", "accept", "reject", "unknown"}
          /\ Len(toks) <= MaxToks
          /\ (verdict = "accept") => pstack = <<>>

Predicted == IF verdict = "open" THEN (IF AcceptAtEof(pstack) THEN "accept-eof" ELSE "reject-eof") ELSE verdict
\* byte-level mutation operators applied by the harness to the concretised text of accepted
\* sequences (positions in 1/1000 of the text length); rep / wrap grow the text to KiB size and
\* to deep nesting
Positions == {0, 120, 333, 500, 667, 880, 999}
Mutations ==
    {[m |-> k, at |-> p] : k \in {"del", "dup", "swap", "trunc"}, p \in Positions}
    \cup {[m |-> "flip", at |-> p, bit |-> b] : p \in Positions, b \in {0, 5, 7}}
    \cup {[m |-> "ins", at |-> p, s |-> x] : p \in Positions, x \in {"{", "}", "(", ")", "@", ":", ",", "\"", "\\", "%", "#", "\n"}}
    \cup {[m |-> "rep", times |-> n] : n \in {2, 40, 200}}
    \cup {[m |-> "wrap", depth |-> d, attr |-> a] : d \in {1, 64, 300, 1500}, a \in BOOLEAN}
EmitStatic == (lastAct.k = "init") => \A m \in Mutations : PrintT(<<"MUT", ToJson(m)>>)

EmitToks == (toks # <<>> /\ (EmitOpen \/ Predicted # "reject-eof")) => PrintT(<<"TOKS", ToJson([toks |-> toks, verdict |-> Predicted, depth |-> Len(pstack)])>>)
=============================================================================

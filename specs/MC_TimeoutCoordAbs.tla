-------------------------- MODULE MC_TimeoutCoordAbs --------------------------
\* P on its own: TLC shows that the clauses S1..S5 of the statement are theorems of P.
EXTENDS TimeoutCoordAbs
=============================================================================

---------------------------- MODULE Trace_MapReplica ----------------------------
(***************************************************************************)
(* P for C02 (map lanes: every subscriber's replica converges to the       *)
(* lane's map; per key in-order subsequence; clear never lost or overtaken;*)
(* take / drop follow the documented key order) and the map-lane part of   *)
(* C03 (sync: consistent snapshot).  Trace specification over the log of   *)
(* configuration E.  ABSENT is represented by -1 (scripts use values >= 0).*)
(*   reset                                                                 *)
(*   init  maps:[lane |-> [key |-> v]]      agent (re)started               *)
(*   op    lane m k v        lane applied upd | rem | clr (lifecycle)      *)
(*   td    lane m n          a take | drop command was sent to the lane    *)
(*   req   r lane op         link | sync | unlink                          *)
(*   frame r lane kind m k v linked | synced | unlinked | event(upd|rem|clr|bad) *)
(*   mark (any other request sent) | gone r | quiescent drained            *)
(***************************************************************************)
EXTENDS Naturals, Integers, Sequences, FiniteSets, TLC, Json, IOUtils

CONSTANTS MLanes, Remotes, Keys

Rec == ndJsonDeserialize(IOEnv.TRACE)

VARIABLES i,
          M,        \* [lane -> [key -> value | -1]]        the lane's map
          Hk,       \* [lane -> [key -> Seq(value | -1)]]   every value each key held
          clears,   \* [lane -> Seq([key -> position in Hk of that clear])]
          open, pend, lp, lastClear, replica, full, synced, win, adm, alive,
          td        \* [lane -> <<>> | <<expected map>>]    outstanding take/drop expectation
vars == <<i, M, Hk, clears, open, pend, lp, lastClear, replica, full, synced, win, adm, alive, td>>

Has(e, f) == f \in DOMAIN e
Max(a, b) == IF a > b THEN a ELSE b
RL(x) == [r \in Remotes |-> [l \in MLanes |-> x]]
Empty == [k \in Keys |-> -1]
KeyOf(x) == x      \* keys are integers in the log

\* number of present keys smaller than k  (documented order: keys in ascending Recon order)
Rank(m, k) == Cardinality({j \in Keys : m[j] # -1 /\ j < k})
TakeOf(m, n) == [k \in Keys |-> IF m[k] # -1 /\ Rank(m, k) < n THEN m[k] ELSE -1]
DropOf(m, n) == [k \in Keys |-> IF m[k] # -1 /\ Rank(m, k) >= n THEN m[k] ELSE -1]

StateFrom(maps) ==
    /\ M' = [l \in MLanes |-> [k \in Keys |-> maps[l][k]]]
    /\ Hk' = [l \in MLanes |-> [k \in Keys |-> <<maps[l][k]>>]]
    /\ clears' = [l \in MLanes |-> <<>>]
    /\ open' = RL(FALSE) /\ pend' = RL(FALSE) /\ lp' = RL([k \in Keys |-> 1]) /\ lastClear' = RL(0)
    /\ replica' = RL(Empty) /\ full' = RL(FALSE) /\ synced' = RL(FALSE) /\ win' = RL(0)
    /\ adm' = RL([k \in Keys |-> {}]) /\ alive' = [r \in Remotes |-> TRUE]
    /\ td' = [l \in MLanes |-> <<>>]

TraceInit ==
    /\ i = 1
    /\ M = [l \in MLanes |-> Empty] /\ Hk = [l \in MLanes |-> [k \in Keys |-> <<-1>>]]
    /\ clears = [l \in MLanes |-> <<>>]
    /\ open = RL(FALSE) /\ pend = RL(FALSE) /\ lp = RL([k \in Keys |-> 1]) /\ lastClear = RL(0)
    /\ replica = RL(Empty) /\ full = RL(FALSE) /\ synced = RL(FALSE) /\ win = RL(0)
    /\ adm = RL([k \in Keys |-> {}]) /\ alive = [r \in Remotes |-> TRUE]
    /\ td = [l \in MLanes |-> <<>>]
    /\ TLCSet(1, 1)

\* earliest position p >= from of sequence s holding v (0 if none)
Match(s, from, v) ==
    LET S == {p \in from..Len(s) : s[p] = v} IN
    IF S = {} THEN 0 ELSE CHOOSE p \in S : \A q \in S : p <= q

\* the lane's map takes value v at key k (v = -1: removed)
LaneSet(l, k, v) ==
    /\ M' = [M EXCEPT ![l][k] = v]
    /\ Hk' = [Hk EXCEPT ![l][k] = Append(@, v)]
    /\ adm' = [r \in Remotes |-> [x \in MLanes |->
                 IF x = l /\ win[r][x] > 0 THEN [adm[r][x] EXCEPT ![k] = @ \cup {v}] ELSE adm[r][x]]]

Step(e) ==
    \/ /\ e.e = "reset" /\ StateFrom([l \in MLanes |-> Empty])
    \/ /\ e.e = "init" /\ StateFrom(e.maps)
    \/ /\ e.e = "op" /\ e.m \in {"upd", "rem"}
       /\ e.k \in Keys
       /\ LaneSet(e.lane, e.k, IF e.m = "upd" THEN e.v ELSE -1)
       /\ UNCHANGED <<clears, open, pend, lp, lastClear, replica, full, synced, win, alive, td>>
    \/ /\ e.e = "op" /\ e.m = "clr"
       /\ LET l == e.lane IN
          /\ M' = [M EXCEPT ![l] = Empty]
          /\ Hk' = [Hk EXCEPT ![l] = [k \in Keys |-> Append(Hk[l][k], -1)]]
          /\ clears' = [clears EXCEPT ![l] = Append(@, [k \in Keys |-> Len(Hk[l][k]) + 1])]
          /\ adm' = [r \in Remotes |-> [x \in MLanes |->
                       IF x = l /\ win[r][x] > 0 THEN [k \in Keys |-> adm[r][x][k] \cup {-1}] ELSE adm[r][x]]]
       /\ UNCHANGED <<open, pend, lp, lastClear, replica, full, synced, win, alive, td>>
    \/ /\ e.e = "td"
       /\ td' = [td EXCEPT ![e.lane] = <<IF e.m = "take" THEN TakeOf(M[e.lane], e.n) ELSE DropOf(M[e.lane], e.n)>>]
       /\ UNCHANGED <<M, Hk, clears, open, pend, lp, lastClear, replica, full, synced, win, adm, alive>>
    \/ /\ e.e = "req" /\ e.op \in {"link", "sync"}
       /\ LET r == e.r  l == e.lane  fresh == ~open[r][l] /\ ~pend[r][l] IN
          /\ pend' = [pend EXCEPT ![r][l] = TRUE]
          /\ lp' = IF fresh THEN [lp EXCEPT ![r][l] = [k \in Keys |-> Max(@[k], Len(Hk[l][k]))]] ELSE lp
          /\ lastClear' = IF fresh THEN [lastClear EXCEPT ![r][l] = Max(@, Len(clears[l]))] ELSE lastClear
          /\ IF e.op = "sync"
               THEN /\ win' = [win EXCEPT ![r][l] = @ + 1]
                    /\ adm' = [adm EXCEPT ![r][l] = IF win[r][l] = 0 THEN [k \in Keys |-> {M[l][k]}] ELSE @]
               ELSE UNCHANGED <<win, adm>>
       /\ UNCHANGED <<M, Hk, clears, open, replica, full, synced, alive, td>>
    \/ /\ e.e = "req" /\ e.op = "unlink"
       /\ UNCHANGED <<M, Hk, clears, open, pend, lp, lastClear, replica, full, synced, win, adm, alive, td>>
    \/ /\ e.e = "frame" /\ e.kind = "linked"
       /\ LET r == e.r  l == e.lane IN
          /\ open' = [open EXCEPT ![r][l] = TRUE]
          /\ IF open[r][l] THEN UNCHANGED <<replica, full>>
             ELSE /\ replica' = [replica EXCEPT ![r][l] = Empty]
                  \* a remote that links while the map is empty needs no sync to have the full state
                  /\ full' = [full EXCEPT ![r][l] = (M[l] = Empty)]
       /\ UNCHANGED <<M, Hk, clears, pend, lp, lastClear, synced, win, adm, alive, td>>
    \/ /\ e.e = "frame" /\ e.kind = "event"
       /\ LET r == e.r  l == e.lane IN
          IF ~open[r][l] THEN UNCHANGED <<lp, lastClear, replica>>     \* outside a link: C04's business
          ELSE
            /\ ~Has(e, "bad")
            /\ \/ /\ e.m \in {"upd", "rem"} /\ e.k \in Keys
                  /\ (e.m = "upd" => e.v >= 0)
                  /\ LET v == IF e.m = "upd" THEN e.v ELSE -1
                         p == Match(Hk[l][e.k], lp[r][l][e.k], v) IN
                     /\ p > 0           \* a value this key held, not older than what was already received
                     /\ lp' = [lp EXCEPT ![r][l][e.k] = p]
                     /\ replica' = [replica EXCEPT ![r][l][e.k] = v]
                  /\ UNCHANGED lastClear
               \/ /\ e.m = "clr"
                  /\ LET C == {c \in (lastClear[r][l] + 1)..Len(clears[l]) :
                                  \A k \in Keys : clears[l][c][k] >= lp[r][l][k]} IN
                     /\ C # {}          \* a clear the lane performed, not overtaken by a newer update
                     /\ LET c == CHOOSE c \in C : \A d \in C : c <= d IN
                        /\ lastClear' = [lastClear EXCEPT ![r][l] = c]
                        /\ lp' = [lp EXCEPT ![r][l] = [k \in Keys |-> clears[l][c][k]]]
                  /\ replica' = [replica EXCEPT ![r][l] = Empty]
       /\ UNCHANGED <<M, Hk, clears, open, pend, full, synced, win, adm, alive, td>>
    \/ /\ e.e = "frame" /\ e.kind = "synced"
       /\ LET r == e.r  l == e.lane IN
          /\ (open[r][l] /\ win[r][l] > 0) =>
                \* C03: every key of the replica holds a value (or is absent) as the lane held it at some
                \* moment between the sync request and now
                \A k \in Keys : replica[r][l][k] \in adm[r][l][k]
          /\ synced' = [synced EXCEPT ![r][l] = TRUE]
          /\ full' = IF open[r][l] /\ win[r][l] > 0 THEN [full EXCEPT ![r][l] = TRUE] ELSE full
          /\ win' = [win EXCEPT ![r][l] = IF @ > 0 THEN @ - 1 ELSE 0]
       /\ UNCHANGED <<M, Hk, clears, open, pend, lp, lastClear, replica, adm, alive, td>>
    \/ /\ e.e = "frame" /\ e.kind = "unlinked"
       /\ LET r == e.r  l == e.lane IN
          /\ open' = [open EXCEPT ![r][l] = FALSE]
          /\ pend' = [pend EXCEPT ![r][l] = FALSE]
          /\ win' = [win EXCEPT ![r][l] = 0]
          /\ synced' = [synced EXCEPT ![r][l] = FALSE]
          /\ full' = [full EXCEPT ![r][l] = FALSE]
       /\ UNCHANGED <<M, Hk, clears, lp, lastClear, replica, adm, alive, td>>
    \/ /\ e.e = "mark"      \* some other request was sent (delimits the operations of a take / drop command)
       /\ UNCHANGED <<M, Hk, clears, open, pend, lp, lastClear, replica, full, synced, win, adm, alive, td>>
    \/ /\ e.e = "gone"
       /\ alive' = [alive EXCEPT ![e.r] = FALSE]
       /\ UNCHANGED <<M, Hk, clears, open, pend, lp, lastClear, replica, full, synced, win, adm, td>>
    \/ /\ e.e = "quiescent"
       \* convergence: a drained, linked remote that holds the full state holds exactly the lane's map
       /\ \A x \in 1..Len(e.drained) : \A l \in MLanes :
             LET r == e.drained[x] IN
             (alive[r] /\ open[r][l] /\ full[r][l]) => replica[r][l] = M[l]
       /\ UNCHANGED <<M, Hk, clears, open, pend, lp, lastClear, replica, full, synced, win, adm, alive, td>>

\* a take / drop command has been processed once something other than its own lane operations is
\* logged: the lane must then hold exactly the entries designated by the documented key order
TDDue(e) == \E l \in MLanes : td[l] # <<>> /\ ~(e.e = "op" /\ e.lane = l)
TDOk(e) == \A l \in MLanes : (td[l] # <<>> /\ ~(e.e = "op" /\ e.lane = l)) => M[l] = td[l][1]

TraceNext ==
    /\ i <= Len(Rec)
    /\ LET e == Rec[i] IN
       IF TDDue(e)
         THEN /\ TDOk(e)
              /\ td' = [l \in MLanes |-> IF ~(e.e = "op" /\ e.lane = l) THEN <<>> ELSE td[l]]
              /\ UNCHANGED <<i, M, Hk, clears, open, pend, lp, lastClear, replica, full, synced, win, adm, alive>>
         ELSE /\ Step(e)
              /\ i' = i + 1
              /\ TLCSet(1, Max(TLCGet(1), i + 1))

TraceSpec == TraceInit /\ [][TraceNext]_vars

TraceAccepted ==
    LET m == TLCGet(1) IN
    /\ PrintT(<<"TRACE_RESULT", ToJson([accepted |-> (m = Len(Rec) + 1), matched |-> m - 1, total |-> Len(Rec), kf |-> <<>>])>>)
    /\ m = Len(Rec) + 1
=============================================================================

---------------------------- MODULE Trace_MapReplica ----------------------------
(***************************************************************************)
(* P for C02 (map lanes: every subscriber's replica converges to the       *)
(* lane's map; per key in-order subsequence; clear never lost or overtaken;*)
(* take / drop follow the documented key order) and the map-lane part of   *)
(* C03 (sync: consistent snapshot).  Trace specification over the log of   *)
(* configuration E.  ABSENT is represented by -1 (scripts use values >= 0).*)
(*   reset                                                                 *)
(*   init  maps:[lane |-> [key |-> v]]      agent (re)started               *)
(*   op    lane m k v        lane applied upd | rem | clr (lifecycle)      *)
(*   td    lane m n          a take | drop command was sent to the lane    *)
(*   req   r lane op         link | sync | unlink                          *)
(*   frame r lane kind m k v linked | synced | unlinked | event(upd|rem|clr|bad) *)
(*   mark (any other request sent) | gone r | quiescent drained            *)
(***************************************************************************)
EXTENDS Naturals, Integers, Sequences, FiniteSets, TLC, Json, IOUtils

CONSTANTS MLanes, Remotes, Keys,
          EnabledFindings   \* ids of the open known findings whose deviation actions are enabled

Rec == ndJsonDeserialize(IOEnv.TRACE)

VARIABLES i,
          M,        \* [lane -> [key -> value | -1]]        the lane's map
          Hk,       \* [lane -> [key -> Seq(value | -1)]]   every value each key held
          clears,   \* [lane -> Seq([key -> position in Hk of that clear])]
          open, lp, lastClear, replica, full, synced, win, adm, alive,
          td,       \* [lane -> <<>> | <<expected map>>]    outstanding take/drop expectation
          sfresh,   \* [r][l] the outstanding sync was requested while r was neither linked nor linking
          wupd,     \* [r][l] keys updated by the lane since the sync window opened
          f5,       \* [r][l] keys excused as missing by known finding F5 (until r receives them)
          swin,     \* [r][l] keys for which r received an operation while its sync was outstanding
          nclr,     \* [l] what the runtime has handed to the store for the lane = the fold of the lane events it has processed
          late,     \* [r][l] 1 if the lane had a backlog of events (performed, not yet processed by the runtime) when r's sync was requested
          \* What the log does not show: how far the runtime has got with r's requests.  link / unlink requests go to
          \* the write task in order; a sync request goes to the lane and links r (implicitly) whenever the lane's
          \* answer reaches the write task - before or after later link / unlink requests of r.  TLC infers it.
          cq,       \* [r][l] link / unlink requests not yet processed: Seq([op, pos]); pos = where the lane was when sent
          sq,       \* [r][l] sync requests whose synced has not been read: Seq([pos])
          rlk,      \* [r][l] the runtime holds r linked
          fq,       \* [r][l] linked / unlinked frames the runtime has produced and r has not read: Seq([k, pos])
          stopping, \* the agent is being stopped (every link is closed without having been asked)
          kf        \* known-finding deviations taken on this path
hid == <<cq, sq, rlk, fq>>
vars == <<i, M, Hk, clears, open, lp, lastClear, replica, full, synced, win, adm, alive, td, sfresh, wupd, f5, swin, nclr, late, cq, sq, rlk, fq, stopping, kf>>

Has(e, f) == f \in DOMAIN e
Max(a, b) == IF a > b THEN a ELSE b
RL(x) == [r \in Remotes |-> [l \in MLanes |-> x]]
Empty == [k \in Keys |-> -1]
KeyOf(x) == x      \* keys are integers in the log

\* number of present keys smaller than k  (documented order: keys in ascending Recon order)
Rank(m, k) == Cardinality({j \in Keys : m[j] # -1 /\ j < k})
TakeOf(m, n) == [k \in Keys |-> IF m[k] # -1 /\ Rank(m, k) < n THEN m[k] ELSE -1]
DropOf(m, n) == [k \in Keys |-> IF m[k] # -1 /\ Rank(m, k) >= n THEN m[k] ELSE -1]

\* where lane l is now: <<[key -> position in Hk], number of clears>>
CurPos(l) == <<[k \in Keys |-> Len(Hk[l][k])], Len(clears[l])>>

StateFrom(maps) ==
    /\ M' = [l \in MLanes |-> [k \in Keys |-> maps[l][k]]]
    /\ Hk' = [l \in MLanes |-> [k \in Keys |-> <<maps[l][k]>>]]
    /\ clears' = [l \in MLanes |-> <<>>]
    /\ open' = RL(FALSE) /\ lp' = RL([k \in Keys |-> 1]) /\ lastClear' = RL(0)
    /\ replica' = RL(Empty) /\ full' = RL(FALSE) /\ synced' = RL(FALSE) /\ win' = RL(0)
    /\ adm' = RL([k \in Keys |-> {}]) /\ alive' = [r \in Remotes |-> TRUE]
    /\ td' = [l \in MLanes |-> <<>>]
    /\ sfresh' = RL(FALSE) /\ wupd' = RL({}) /\ f5' = RL({}) /\ swin' = RL({})
    /\ nclr' = [l \in MLanes |-> Empty] /\ late' = RL(0)
    /\ cq' = RL(<<>>) /\ sq' = RL(<<>>) /\ rlk' = RL(FALSE) /\ fq' = RL(<<>>) /\ stopping' = FALSE

TraceInit ==
    /\ i = 1
    /\ M = [l \in MLanes |-> Empty] /\ Hk = [l \in MLanes |-> [k \in Keys |-> <<-1>>]]
    /\ clears = [l \in MLanes |-> <<>>]
    /\ open = RL(FALSE) /\ lp = RL([k \in Keys |-> 1]) /\ lastClear = RL(0)
    /\ replica = RL(Empty) /\ full = RL(FALSE) /\ synced = RL(FALSE) /\ win = RL(0)
    /\ adm = RL([k \in Keys |-> {}]) /\ alive = [r \in Remotes |-> TRUE]
    /\ td = [l \in MLanes |-> <<>>]
    /\ sfresh = RL(FALSE) /\ wupd = RL({}) /\ f5 = RL({}) /\ swin = RL({})
    /\ nclr = [l \in MLanes |-> Empty] /\ late = RL(0)
    /\ cq = RL(<<>>) /\ sq = RL(<<>>) /\ rlk = RL(FALSE) /\ fq = RL(<<>>) /\ stopping = FALSE /\ kf = {}
    /\ TLCSet(1, 1) /\ TLCSet(2, {}) /\ TLCSet(3, 0) /\ TLCSet(4, {})

\* earliest position p >= from of sequence s holding v (0 if none)
Match(s, from, v) ==
    LET S == {p \in from..Len(s) : s[p] = v} IN
    IF S = {} THEN 0 ELSE CHOOSE p \in S : \A q \in S : p <= q

\* the lane's map takes value v at key k (v = -1: removed)
LaneSet(l, k, v) ==
    /\ M' = [M EXCEPT ![l][k] = v]
    /\ Hk' = [Hk EXCEPT ![l][k] = Append(@, v)]
    /\ adm' = [r \in Remotes |-> [x \in MLanes |->
                 IF x = l /\ win[r][x] > 0 THEN [adm[r][x] EXCEPT ![k] = @ \cup {v}] ELSE adm[r][x]]]

Deviate(id) == kf' = kf \cup {id} /\ TLCSet(4, TLCGet(4) \cup {id})

(***************************************************************************)
(* Steps of the runtime that the log does not show.                        *)
(***************************************************************************)
\* the write task takes r's next link / unlink request: link always answers linked; unlink answers unlinked
\* only if r is linked
HCoord(r, l) ==
    /\ cq[r][l] # <<>>
    /\ LET h == Head(cq[r][l]) IN
       /\ cq' = [cq EXCEPT ![r][l] = Tail(@)]
       /\ IF h.op = "link"
            THEN /\ rlk' = [rlk EXCEPT ![r][l] = TRUE]
                 /\ fq' = [fq EXCEPT ![r][l] = Append(@, [k |-> "linked", pos |-> h.pos])]
            ELSE /\ rlk' = [rlk EXCEPT ![r][l] = FALSE]
                 /\ fq' = IF rlk[r][l] THEN [fq EXCEPT ![r][l] = Append(@, [k |-> "unlinked", pos |-> <<>>])] ELSE fq
    /\ UNCHANGED sq
\* the answer of the lane to a sync request of r reaches the write task while r is not linked: r is linked
\* (the oldest outstanding sync gives the weakest bound on where the lane was)
HSync(r, l) ==
    /\ sq[r][l] # <<>> /\ ~rlk[r][l]
    /\ rlk' = [rlk EXCEPT ![r][l] = TRUE]
    /\ fq' = [fq EXCEPT ![r][l] = Append(@, [k |-> "linked", pos |-> Head(sq[r][l]).pos])]
    /\ UNCHANGED <<cq, sq>>

Step(e) ==
    \/ /\ e.e = "reset" /\ StateFrom([l \in MLanes |-> Empty]) /\ UNCHANGED kf
    \/ /\ e.e = "init" /\ StateFrom(e.maps) /\ UNCHANGED kf
    \/ /\ e.e = "op" /\ e.m \in {"upd", "rem"}
       /\ e.k \in Keys
       /\ LaneSet(e.lane, e.k, IF e.m = "upd" THEN e.v ELSE -1)
       /\ wupd' = [r \in Remotes |-> [x \in MLanes |->
                      IF x = e.lane /\ win[r][x] > 0 /\ e.m = "upd" THEN wupd[r][x] \cup {e.k} ELSE wupd[r][x]]]
       /\ UNCHANGED <<clears, open, lp, lastClear, replica, full, synced, win, alive, td, sfresh, f5, swin, nclr, late, hid, stopping, kf>>
    \/ /\ e.e = "op" /\ e.m = "clr"
       /\ LET l == e.lane IN
          /\ M' = [M EXCEPT ![l] = Empty]
          /\ Hk' = [Hk EXCEPT ![l] = [k \in Keys |-> Append(Hk[l][k], -1)]]
          /\ clears' = [clears EXCEPT ![l] = Append(@, [k \in Keys |-> Len(Hk[l][k]) + 1])]
          /\ nclr' = nclr
          /\ adm' = [r \in Remotes |-> [x \in MLanes |->
                       IF x = l /\ win[r][x] > 0 THEN [k \in Keys |-> adm[r][x][k] \cup {-1}] ELSE adm[r][x]]]
       /\ UNCHANGED <<open, lp, lastClear, replica, full, synced, win, alive, td, sfresh, wupd, f5, swin, late, hid, stopping, kf>>
    \/ /\ e.e = "td"
       /\ td' = [td EXCEPT ![e.lane] = <<IF e.m = "take" THEN TakeOf(M[e.lane], e.n) ELSE DropOf(M[e.lane], e.n)>>]
       /\ UNCHANGED <<M, Hk, clears, open, lp, lastClear, replica, full, synced, win, adm, alive, sfresh, wupd, f5, swin, nclr, late, hid, stopping, kf>>
    \/ /\ e.e = "req" /\ e.op = "link"
       /\ cq' = [cq EXCEPT ![e.r][e.lane] = Append(@, [op |-> "link", pos |-> CurPos(e.lane)])]
       /\ UNCHANGED <<M, Hk, clears, open, lp, lastClear, replica, full, synced, win, adm, alive, td, sfresh, wupd, f5, swin, nclr, late, sq, rlk, fq, stopping, kf>>
    \/ /\ e.e = "req" /\ e.op = "sync"
       /\ LET r == e.r  l == e.lane
              \* r will not be linked when the runtime has dealt with its earlier requests (it never asked to be, or
              \* asked to be unlinked since) and no earlier sync of its own is outstanding
              willBeLinked == IF cq[r][l] # <<>> THEN cq[r][l][Len(cq[r][l])].op = "link"
                                                 ELSE (rlk[r][l] \/ open[r][l])
              fresh == ~willBeLinked /\ sq[r][l] = <<>>
              first == win[r][l] = 0 IN
          /\ sq' = [sq EXCEPT ![r][l] = Append(@, [pos |-> CurPos(l)])]
          /\ win' = [win EXCEPT ![r][l] = @ + 1]
          /\ adm' = [adm EXCEPT ![r][l] = IF first THEN [k \in Keys |-> {M[l][k]}] ELSE @]
          /\ sfresh' = IF first THEN [sfresh EXCEPT ![r][l] = fresh] ELSE sfresh
          /\ wupd' = IF first THEN [wupd EXCEPT ![r][l] = {}] ELSE wupd
          /\ swin' = IF first THEN [swin EXCEPT ![r][l] = {}] ELSE swin
          /\ late' = IF first THEN [late EXCEPT ![r][l] = IF nclr[l] # M[l] THEN 1 ELSE 0] ELSE late
       /\ UNCHANGED <<M, Hk, clears, open, lp, lastClear, replica, full, synced, alive, td, f5, nclr, cq, rlk, fq, stopping, kf>>
    \/ /\ e.e = "req" /\ e.op = "unlink"
       /\ cq' = [cq EXCEPT ![e.r][e.lane] = Append(@, [op |-> "unlink", pos |-> <<>>])]
       \* a remote that asks to be unlinked while a sync of its own is outstanding is in the situation of F5 once the
       \* runtime has dealt with the unlink: the lane's answer will link it again, and what the lane broadcast in
       \* between went to a remote that was not linked
       /\ sfresh' = IF sq[e.r][e.lane] # <<>> THEN [sfresh EXCEPT ![e.r][e.lane] = TRUE] ELSE sfresh
       /\ UNCHANGED <<M, Hk, clears, open, lp, lastClear, replica, full, synced, win, adm, alive, td, wupd, f5, swin, nclr, late, sq, rlk, fq, stopping, kf>>
    \/ /\ e.e = "frame" /\ e.kind = "linked"
       /\ LET r == e.r  l == e.lane IN
          /\ fq[r][l] # <<>> /\ Head(fq[r][l]).k = "linked"
          /\ fq' = [fq EXCEPT ![r][l] = Tail(@)]
          /\ open' = [open EXCEPT ![r][l] = TRUE]
          /\ IF open[r][l] THEN UNCHANGED <<replica, full, lp, lastClear>>
             ELSE LET p == Head(fq[r][l]).pos IN
                  \* a new episode: nothing older than what the lane held when the request that opened it was sent
                  /\ lp' = [lp EXCEPT ![r][l] = [k \in Keys |-> Max(@[k], p[1][k])]]
                  /\ lastClear' = [lastClear EXCEPT ![r][l] = Max(@, p[2])]
                  /\ replica' = [replica EXCEPT ![r][l] = Empty]
                  \* a remote that links while the map is empty needs no sync to have the full state
                  /\ full' = [full EXCEPT ![r][l] = (M[l] = Empty)]
       /\ UNCHANGED <<M, Hk, clears, synced, win, adm, alive, td, sfresh, wupd, f5, swin, nclr, late, cq, sq, rlk, stopping, kf>>
    \/ /\ e.e = "frame" /\ e.kind = "event"
       /\ LET r == e.r  l == e.lane IN
          IF ~open[r][l] THEN UNCHANGED <<lp, lastClear, replica, f5, swin, kf>>     \* outside a link: C04's business
          ELSE
            /\ ~Has(e, "bad")
            /\ \/ /\ e.m \in {"upd", "rem"} /\ e.k \in Keys
                  /\ (e.m = "upd" => e.v >= 0)
                  /\ LET v == IF e.m = "upd" THEN e.v ELSE -1
                         p == Match(Hk[l][e.k], lp[r][l][e.k], v) IN
                     /\ p > 0           \* a value this key held, not older than what was already received
                     /\ lp' = [lp EXCEPT ![r][l][e.k] = p]
                     /\ replica' = [replica EXCEPT ![r][l][e.k] = v]
                  /\ f5' = [f5 EXCEPT ![r][l] = @ \ {e.k}]
                  /\ swin' = IF win[r][l] > 0 THEN [swin EXCEPT ![r][l] = @ \cup {e.k}] ELSE swin
                  /\ UNCHANGED <<lastClear, kf>>
               \/ /\ e.m = "clr"
                  /\ LET C == {c \in (lastClear[r][l] + 1)..Len(clears[l]) :
                                  \A k \in Keys : clears[l][c][k] >= lp[r][l][k]}
                         \* Known finding F12 (deviation, only while listed as open): while r's sync is outstanding, a
                         \* clear that the lane performed BEFORE values already delivered to r by that sync reaches r
                         \* after them (the lane's event queue still held the clear when the sync started, and sync
                         \* events carry current values).  Only keys delivered inside the sync window may be ahead.
                         C12 == {c \in (lastClear[r][l] + 1)..Len(clears[l]) :
                                   \A k \in Keys : clears[l][c][k] >= lp[r][l][k] \/ k \in swin[r][l]} IN
                     IF C # {}
                       THEN LET c == CHOOSE c \in C : \A d \in C : c <= d IN    \* a clear the lane performed,
                            /\ lastClear' = [lastClear EXCEPT ![r][l] = c]       \* not overtaken by a newer update
                            /\ lp' = [lp EXCEPT ![r][l] = [k \in Keys |-> clears[l][c][k]]]
                            /\ UNCHANGED kf
                       ELSE /\ "F12" \in EnabledFindings /\ win[r][l] > 0 /\ C12 # {}
                            /\ LET c == CHOOSE c \in C12 : \A d \in C12 : c <= d IN
                               /\ lastClear' = [lastClear EXCEPT ![r][l] = c]
                               /\ lp' = [lp EXCEPT ![r][l] = [k \in Keys |-> Max(lp[r][l][k], clears[l][c][k])]]
                            /\ Deviate("F12")
                  /\ replica' = [replica EXCEPT ![r][l] = Empty]
                  /\ f5' = [f5 EXCEPT ![r][l] = {}]
                  /\ swin' = swin
       /\ UNCHANGED <<M, Hk, clears, open, full, synced, win, adm, alive, td, sfresh, wupd, nclr, late, hid, stopping>>
    \/ /\ e.e = "frame" /\ e.kind = "synced"
       /\ LET r == e.r  l == e.lane IN
          /\ LET Bad == IF open[r][l] /\ win[r][l] > 0
                           THEN {k \in Keys : replica[r][l][k] \notin adm[r][l][k]} ELSE {}
                 \* Known finding F5 (deviation, only while listed as open): a remote that syncs WITHOUT having
                 \* linked first misses a key that the lane UPDATED inside the sync window (the update's event was
                 \* broadcast before the remote was linked and removed the key from its snapshot).  Only a
                 \* missing key is excused, never a wrong value, and only under exactly these circumstances.
                 Excused == {k \in Bad : \/ /\ "F5" \in EnabledFindings /\ sfresh[r][l]
                                            /\ replica[r][l][k] = -1 /\ k \in wupd[r][l]
                                         \* Known finding F12, second shape: the lane had a backlog of events (performed before
                                         \* the sync request, not yet processed by the runtime - the store lags the lane) when
                                         \* the sync started; they are older than the snapshot but prune / empty it or reach the
                                         \* remote after it, so the replica is not a snapshot at synced (it converges afterwards).
                                         \/ /\ "F12" \in EnabledFindings /\ late[r][l] > 0} IN
             \* C03: every key of the replica holds a value (or is absent) as the lane held it at some
             \* moment between the sync request and now
             /\ Bad \subseteq Excused
             \* every key updated inside the window that r still lacks may stay missing (same finding): it is
             \* only excused later, at quiescence, if it is in fact still missing then
             /\ f5' = [f5 EXCEPT ![r][l] = @ \cup Excused \cup
                          (IF "F5" \in EnabledFindings /\ open[r][l] /\ win[r][l] > 0 /\ sfresh[r][l]
                             THEN {k \in wupd[r][l] : replica[r][l][k] = -1} ELSE {})]
             /\ IF Excused # {}
                  THEN Deviate(IF \E k \in Excused : sfresh[r][l] /\ k \in wupd[r][l] /\ "F5" \in EnabledFindings THEN "F5" ELSE "F12")
                  ELSE UNCHANGED kf
          /\ synced' = [synced EXCEPT ![r][l] = TRUE]
          /\ full' = IF open[r][l] /\ win[r][l] > 0 THEN [full EXCEPT ![r][l] = TRUE] ELSE full
          /\ win' = [win EXCEPT ![r][l] = IF @ > 0 THEN @ - 1 ELSE 0]
          /\ sq' = [sq EXCEPT ![r][l] = IF @ # <<>> THEN Tail(@) ELSE @]     \* the oldest outstanding sync is answered
       /\ UNCHANGED <<M, Hk, clears, open, lp, lastClear, replica, adm, alive, td, sfresh, wupd, swin, nclr, late, cq, rlk, fq, stopping>>
    \/ /\ e.e = "frame" /\ e.kind = "unlinked"
       /\ LET r == e.r  l == e.lane IN
          /\ IF fq[r][l] # <<>>
               THEN /\ Head(fq[r][l]).k = "unlinked"              \* the answer to an unlink request
                    /\ fq' = [fq EXCEPT ![r][l] = Tail(@)]
                    /\ UNCHANGED <<cq, sq, rlk>>
               ELSE /\ stopping                                   \* the agent stops: every link is closed
                    /\ cq' = [cq EXCEPT ![r][l] = <<>>] /\ sq' = [sq EXCEPT ![r][l] = <<>>]
                    /\ rlk' = [rlk EXCEPT ![r][l] = FALSE] /\ UNCHANGED fq
          /\ open' = [open EXCEPT ![r][l] = FALSE]
          /\ win' = win      \* a sync requested after the unlink request is answered after this frame
          /\ synced' = [synced EXCEPT ![r][l] = FALSE]
          /\ full' = [full EXCEPT ![r][l] = FALSE]
          /\ f5' = [f5 EXCEPT ![r][l] = {}]
          /\ swin' = [swin EXCEPT ![r][l] = {}]
       /\ UNCHANGED <<M, Hk, clears, lp, lastClear, replica, adm, alive, td, sfresh, wupd, nclr, late, stopping, kf>>
    \/ /\ e.e \in {"sclr", "supd", "srem"}       \* a store call: the runtime has processed that lane event
       /\ nclr' = [nclr EXCEPT ![e.lane] = IF e.e = "sclr" THEN Empty
                                           ELSE IF e.k \in Keys THEN [@ EXCEPT ![e.k] = IF e.e = "supd" THEN e.v ELSE -1] ELSE @]
       /\ UNCHANGED <<M, Hk, clears, open, lp, lastClear, replica, full, synced, win, adm, alive, td, sfresh, wupd, f5, swin, late, hid, stopping, kf>>
    \/ /\ e.e = "mark"      \* some other request was sent (delimits the operations of a take / drop command)
       /\ UNCHANGED <<M, Hk, clears, open, lp, lastClear, replica, full, synced, win, adm, alive, td, sfresh, wupd, f5, swin, nclr, late, hid, stopping, kf>>
    \/ /\ e.e = "stopping"
       /\ stopping' = TRUE
       /\ UNCHANGED <<M, Hk, clears, open, lp, lastClear, replica, full, synced, win, adm, alive, td, sfresh, wupd, f5, swin, nclr, late, hid, kf>>
    \/ /\ e.e = "gone"
       /\ alive' = [alive EXCEPT ![e.r] = FALSE]
       /\ UNCHANGED <<M, Hk, clears, open, lp, lastClear, replica, full, synced, win, adm, td, sfresh, wupd, f5, swin, nclr, late, hid, stopping, kf>>
    \/ /\ e.e = "quiescent"
       \* convergence: a drained, linked remote that holds the full state holds exactly the lane's map
       /\ \A x \in 1..Len(e.drained) : \A l \in MLanes :
             LET r == e.drained[x] IN
             (alive[r] /\ open[r][l] /\ full[r][l]) =>
                \A k \in Keys : \/ replica[r][l][k] = M[l][k]
                                \/ (k \in f5[r][l] /\ replica[r][l][k] = -1)
       /\ IF \E x \in 1..Len(e.drained) : \E l \in MLanes : \E k \in Keys :
                LET r == e.drained[x] IN alive[r] /\ open[r][l] /\ full[r][l] /\ replica[r][l][k] # M[l][k]
            THEN Deviate("F5") ELSE UNCHANGED kf
       \* nothing is in flight: every request of a drained remote has been dealt with
       /\ LET D == {e.drained[x] : x \in 1..Len(e.drained)} IN
          /\ cq' = [r \in Remotes |-> IF r \in D THEN [l \in MLanes |-> <<>>] ELSE cq[r]]
          /\ sq' = [r \in Remotes |-> IF r \in D THEN [l \in MLanes |-> <<>>] ELSE sq[r]]
          /\ fq' = [r \in Remotes |-> IF r \in D THEN [l \in MLanes |-> <<>>] ELSE fq[r]]
          /\ rlk' = [r \in Remotes |-> IF r \in D THEN open[r] ELSE rlk[r]]
       /\ UNCHANGED <<M, Hk, clears, open, lp, lastClear, replica, full, synced, win, adm, alive, td, sfresh, wupd, f5, swin, nclr, late, stopping>>

\* a take / drop command has been processed once something other than its own lane operations is
\* logged: the lane must then hold exactly the entries designated by the documented key order
TDDue(e) == \E l \in MLanes : td[l] # <<>> /\ ~(e.e = "op" /\ e.lane = l)
TDOk(e) == \A l \in MLanes : (td[l] # <<>> /\ ~(e.e = "op" /\ e.lane = l)) => M[l] = td[l][1]

\* the known findings of an accepting path (the smallest set over the accepting paths)
RecordKf(s) ==
    IF TLCGet(3) = 0 THEN TLCSet(2, s) /\ TLCSet(3, 1)
    ELSE IF Cardinality(s) < Cardinality(TLCGet(2)) THEN TLCSet(2, s) ELSE TRUE

TraceNext ==
    /\ i <= Len(Rec)
    /\ LET e == Rec[i] IN
       IF TDDue(e)
         THEN /\ TDOk(e)
              /\ td' = [l \in MLanes |-> IF ~(e.e = "op" /\ e.lane = l) THEN <<>> ELSE td[l]]
              /\ UNCHANGED <<i, M, Hk, clears, open, lp, lastClear, replica, full, synced, win, adm, alive, sfresh, wupd, f5, swin, nclr, late, hid, stopping, kf>>
         ELSE \/ \* a linked / unlinked frame that the runtime has yet to produce: it takes r's next request(s)
                 /\ e.e = "frame" /\ e.kind \in {"linked", "unlinked"} /\ fq[e.r][e.lane] = <<>>
                 /\ (HCoord(e.r, e.lane) \/ HSync(e.r, e.lane))
                 /\ UNCHANGED <<i, M, Hk, clears, open, lp, lastClear, replica, full, synced, win, adm, alive, td, sfresh, wupd, f5, swin, nclr, late, stopping, kf>>
              \/ /\ Step(e)
                 /\ i' = i + 1
                 /\ TLCSet(1, Max(TLCGet(1), i + 1))
                 /\ (i + 1 = Len(Rec) + 1) => RecordKf(kf')

TraceSpec == TraceInit /\ [][TraceNext]_vars

TraceAccepted ==
    LET m == TLCGet(1) IN
    /\ PrintT(<<"TRACE_RESULT", ToJson([accepted |-> (m = Len(Rec) + 1), matched |-> m - 1, total |-> Len(Rec),
                                        kf |-> IF m = Len(Rec) + 1 THEN TLCGet(2) ELSE TLCGet(4)])>>)
    /\ m = Len(Rec) + 1
=============================================================================

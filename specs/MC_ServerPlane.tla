---------------------------- MODULE MC_ServerPlane ----------------------------
(* ServerPlane + concrete route tables (cfg files cannot spell sequences: `Routes <- MCRoutes`, `Segs <- MCSegs`),
   the "settled" exploration used for replay (the system finishes whatever it can do before the environment moves
   again, except for bursts of up to MaxBurst envelopes written back to back) and the state-graph dump.            *)
EXTENDS ServerPlane, Json
CONSTANT Table

L(s) == [t |-> "lit", s |-> s]
Pm(s) == [t |-> "par", s |-> s]

\* node URIs by name: /a/x /a/y (one parametrised route), /b (a literal route), /c and /a (no route), /a/x/z (too long)
MCSegs == [ax |-> <<"a", "x">>, ay |-> <<"a", "y">>, b |-> <<"b">>, c |-> <<"c">>, a |-> <<"a">>, axz |-> <<"a", "x", "z">>]

MCRoutes ==
    CASE Table = "T1" -> << <<L("a"), Pm("id")>>, <<L("b")>> >>                    \* the table the harness serves
      [] Table = "T2" -> << <<L("b")>>, <<L("a"), Pm("id")>> >>                    \* same routes, other registration order
      [] Table = "T3" -> << <<Pm("p"), Pm("q")>>, <<L("b")>> >>                    \* two parameters
      [] Table = "OV1" -> << <<L("a"), Pm("id")>>, <<L("a"), L("x")>> >>           \* overlapping (PlaneBuilder rejects it): first match
      [] Table = "OV2" -> << <<L("a"), L("x")>>, <<L("a"), Pm("id")>> >>

\* the system can take a step
SysCan == \/ \E r \in Remotes : Open(r) /\ pend[r] = NoEnv /\ wire[r] # <<>>
          \/ findq # <<>> \/ resolving # {}
          \/ \E i \in Insts : ist[i] = "starting"
          \/ \E x \in att : ~Open(x.r) \/ ist[<<x.u, x.n>>] # "starting"
          \/ \E i \in Insts : ist[i] = "running" /\ (inbox[i] # <<>> \/ evq[i] # <<>>) /\ i \notin due
          \/ \E i \in due : ist[i] = "running"
          \/ \E i \in Insts : ist[i] = "stopping" /\ (~Hold \/ i \in released \/ i \in nohold)
          \/ \E i \in Insts : ist[i] = "done"
          \/ srv = "stopAgents" /\ \A i \in Insts : ist[i] \in {"free", "reaped"}
          \/ srv = "stopRemotes"

\* ACTION_CONSTRAINT: the environment moves only when the system is settled - or writes the next envelope of a burst
Settled == SysCan => \/ lastAct'.k \notin EnvKinds
                     \/ lastAct'.k = "send" /\ burst >= 1 /\ burst < MaxBurst
\* after a shutdown the environment only sends / releases (nothing else is of interest)
AfterShutdown == srv # "run" => lastAct'.k \notin {"connect", "disconnect", "timeout", "fail"}

\* do not walk out of the modelled scope: no envelope for a node that would need instance MaxInst + 1
NoOverflow == lastAct'.k = "send" =>
                 LET u == lastAct'.u IN
                 \/ FindRoute(u) = 0 \/ cnt[u] < MaxInst
                 \/ (chan[u] # 0 /\ ist[<<u, chan[u]>>] \in {"starting", "running", "stopping"} /\ <<u, chan[u]>> \notin due)

\* state graph dump (lastAct and the ghosts hidden by the VIEW); `c`: the system can still move in the target state
EdgeDump == PrintT(<<"EDGE", ToJson([s |-> ToString(View), a |-> lastAct', t |-> ToString(View'), c |-> SysCan'])>>)
InitDump == (lastAct.k = "init") => PrintT(<<"INIT", ToJson([s |-> ToString(View)])>>)
=============================================================================

---------------------------- MODULE Trace_MapQueue ----------------------------
(***************************************************************************)
(* P for C02 at component level, as a trace specification: it folds a      *)
(* recorded stream of lane writes and of operations delivered to consumers *)
(* with the operators of MapReplica.tla and accepts it iff every delivery  *)
(* is admissible and every subscriber has converged whenever the queues    *)
(* are drained.  It knows nothing about epochs, coalescing, round-robin    *)
(* order or which text of a key is delivered.                              *)
(*                                                                         *)
(* Events (ndjson; keys are numbered 1..nk, values 1.., 0 = no entry):     *)
(*  {"k":"reset","nk":n,"cons":[names],"active":[names]}   a fresh lane    *)
(*  {"k":"lane","op":"upd","c":key,"v":value}   the lane's map was written *)
(*  {"k":"lane","op":"rem","c":key} | {"k":"lane","op":"clr"}              *)
(*  {"k":"td","kind":"drop"|"take","n":n}   a drop / take command ran: the *)
(*        lane must now be the documented result                           *)
(*  {"k":"link","to":c}                       c subscribes (empty replica) *)
(*  {"k":"obs","to":c,"op":"upd"|"rem"|"clr","c":key,"v":value}            *)
(*  {"k":"quiet"[,"of":[names]][,"map":[v1..vnk]]}   the lane's queues and *)
(*        those of the named consumers (default: all) are drained;         *)
(*        optionally the lane's real map (MapLane::get_map)                *)
(* Any other event (the check writes {"k":"bad",...} for a panic, a key    *)
(* text outside the key space, an unknown value) is never enabled.         *)
(***************************************************************************)
EXTENDS Integers, Sequences, FiniteSets, TLC, Json, IOUtils, MapReplica

Rec == ndJsonDeserialize(IOEnv.TRACE)

VARIABLES i, p
vars == <<i, p>>

Has(e, f) == f \in DOMAIN e
Max(a, b) == IF a > b THEN a ELSE b
SeqSet(s) == {s[j] : j \in DOMAIN s}

TraceInit == /\ i = 1 /\ p = PInit({1}, {"L"}, {"L"}) /\ TLCSet(1, 1)

Step(e) ==
    \/ /\ e.k = "reset"
       /\ p' = PInit(1..e.nk, SeqSet(e.cons), SeqSet(e.active))
    \/ /\ e.k = "lane" /\ e.op = "upd" /\ e.c \in PKeys(p) /\ e.v > 0
       /\ p' = PLaneUpd(p, e.c, e.v)
    \/ /\ e.k = "lane" /\ e.op = "rem" /\ e.c \in PKeys(p)
       /\ p' = PLaneRem(p, e.c)
    \/ /\ e.k = "lane" /\ e.op = "clr"
       /\ p' = PLaneClr(p)
    \/ /\ e.k = "td"
       /\ p' = PLaneRemAll(p, TDRemoved({c \in PKeys(p) : p.ref[c] # 0}, e.kind, e.n))
    \/ /\ e.k = "link" /\ e.to \in DOMAIN p.cons
       /\ p' = PLink(p, e.to)
    \/ /\ e.k = "obs" /\ e.to \in DOMAIN p.cons
       /\ p' = PObs(p, e.to, e.op, IF Has(e, "c") THEN e.c ELSE 0, IF Has(e, "v") THEN e.v ELSE 0)
       /\ p'.cons[e.to].ok
    \/ /\ e.k = "quiet"
       /\ \A c \in (IF Has(e, "of") THEN SeqSet(e.of) ELSE DOMAIN p.cons) : c \in DOMAIN p.cons /\ PConverged(p, c)
       /\ Has(e, "map") => \A c \in PKeys(p) : e.map[c] = p.ref[c]
       /\ p' = p

TraceNext == /\ i <= Len(Rec)
             /\ Step(Rec[i])
             /\ i' = i + 1
             /\ TLCSet(1, Max(TLCGet(1), i + 1))

TraceSpec == TraceInit /\ [][TraceNext]_vars

TraceAccepted ==
    LET m == TLCGet(1) IN
    /\ PrintT(<<"TRACE_RESULT", ToJson([accepted |-> (m = Len(Rec) + 1), matched |-> m - 1, total |-> Len(Rec), kf |-> <<>>])>>)
    /\ m = Len(Rec) + 1
=============================================================================

-------------------------------- MODULE Remote --------------------------------
(***************************************************************************)
(* C11 - WARP envelopes cross the socket unchanged and reach only their    *)
(* addressee.  Two parts.                                                  *)
(*                                                                         *)
(* PART 1 (constant level): the data model of a WARP text envelope, the    *)
(* case analysis of the writer (swimos_remote::task::envelopes::           *)
(* ReconEncoder: write_header / write_lit / escape_if_needed / put_body)   *)
(* and of the reader (swimos_messages::warp::peel_envelope_header_str:     *)
(* EnvelopeHeaderPeeler + parse_text_token + `preceded(space0, rest)`),    *)
(* over abstract string classes, and the law  Read(Write(e)) = e.  TLC     *)
(* enumerates the abstract envelope space; the harness concretises every   *)
(* class from boundary pools and runs the real writer and reader.          *)
(*                                                                         *)
(* PART 2: the routing mechanism of swimos_remote::RemoteTask, one action  *)
(* per `select!` arm / await point of registration_task, IncomingTask::run,*)
(* connect_agent_route, send_response and OutgoingTask::run.  Mirrored     *)
(* state: client_subscriptions (subs), agent_routes (routes), the          *)
(* MultiReaders `clients` / `agents` (regOut; their internal scheduling is *)
(* refined in MultiReader.tla), the per-source byte channels (out, inbox), *)
(* the two registration queues (pendIn, pendOut), the outgoing_tx          *)
(* NotFound messages (sys) and the socket in either direction: inbound the *)
(* web socket frames the peer writes (wsIn: whole messages, fragments,     *)
(* ping / pong / close control frames at any point), ratchet's reassembly  *)
(* into text frames (asm -> wireIn, action WsRead = text_frame_stream);    *)
(* outbound the wire_out label of Mux steps.                               *)
(***************************************************************************)
EXTENDS Naturals, Sequences, FiniteSets, TLC

-----------------------------------------------------------------------------
(* PART 1 : envelope data model                                            *)

RequestKinds  == {"link", "sync", "unlink", "command"}
ResponseKinds == {"linked", "synced", "unlinked", "event"}
EnvKinds      == RequestKinds \cup ResponseKinds
HasBody(k)    == k \in {"command", "event", "unlinked"}

\* classes of node / lane strings, by how writer and reader must treat them
StrClasses == {"ident",     \* ASCII identifier                      -> written bare
               "uident",    \* identifier of non-ASCII / non-BMP chars -> written bare
               "empty",     \* ""                                    -> ""
               "keyword",   \* true / false : identifier syntax but reserved -> quoted
               "quotes",    \* not an identifier (/, space, leading digit)  -> quoted, verbatim
               "escape",    \* contains " or \                       -> quoted, \" \\
               "control",   \* contains chars < U+0020               -> quoted, \n \t \b \f \r \uXXXX
               "nonbmp",    \* non-identifier with non-BMP chars     -> quoted, verbatim
               "percent"}   \* percent-encodings                     -> quoted, verbatim (never decoded)
BodyClasses == {"empty", "attr", "plain"}    \* "", starts with '@', anything else

IsIdentifier(c) == c \in {"ident", "uident"}               \* identifier::is_identifier (false for true/false)
NeedsEscape(c)  == c \in {"escape", "control"}             \* literal::needs_escape

EnvSpace == [kind : EnvKinds, node : StrClasses, lane : StrClasses, body : BodyClasses]

\* what the message handed to the encoder means: kinds without a body carry none
Canon(e) == IF HasBody(e.kind) THEN e ELSE [e EXCEPT !.body = "empty"]

\* ReconEncoder::encode -> abstract text  @tag(node:<lit>,lane:<lit>)<sep><body>
LitForm(c) == IF IsIdentifier(c) THEN "bare" ELSE IF NeedsEscape(c) THEN "escaped" ELSE "quoted"
Write(e) ==
    LET c == Canon(e) IN
    [tag  |-> c.kind,
     node |-> [form |-> LitForm(c.node), of |-> c.node],
     lane |-> [form |-> LitForm(c.lane), of |-> c.lane],
     sep  |-> IF c.body = "empty" THEN "none"            \* if !body.is_empty() { put_body }
              ELSE IF c.body = "attr" THEN "direct"      \* body starts with '@': no space
              ELSE "space",
     body |-> c.body]

\* peel_envelope_header_str: tag -> kind; slot values -> parse_text_token (identifier | string
\* literal with unescape); body = rest after optional spaces
ReadLit(l) == CASE l.form = "bare"    -> IF IsIdentifier(l.of) \/ l.of = "keyword" THEN l.of ELSE "ERROR"
                [] l.form = "quoted"  -> IF NeedsEscape(l.of) THEN "ERROR" ELSE l.of
                [] l.form = "escaped" -> l.of
\* a body that does not start with '@' glued to the header would not be separated from it
ReadBody(w) == IF w.sep = "none" THEN (IF w.body = "empty" THEN "empty" ELSE "ERROR")
               ELSE IF w.sep = "direct" THEN (IF w.body = "attr" THEN "attr" ELSE "ERROR")
               ELSE w.body
Read(w) == [kind |-> w.tag, node |-> ReadLit(w.node), lane |-> ReadLit(w.lane), body |-> ReadBody(w)]

RoundTripLaw == \A e \in EnvSpace : Read(Write(e)) = Canon(e)
\* a keyword or empty string written bare would come back as a different token kind
WriterQuotesNonIdentifiers == \A e \in EnvSpace : (Write(e).node.form = "bare") <=> IsIdentifier(e.node)

-----------------------------------------------------------------------------
(* PART 2 : routing                                                        *)

CONSTANTS Nodes,        \* abstract node URIs
          Lanes,        \* abstract lane names
          Exists,       \* nodes for which the plane resolves an agent
          Dls,          \* downlink ids
          Bodies,       \* abstract non-empty bodies
          MaxInst,      \* agent incarnations per node
          ServerMode,   \* find_tx = Some(..)
          MaxFrag       \* a peer may split a text message into 1..MaxFrag web socket frames

NNF == "@nodeNotFound"
NoMsg == [kind |-> "none"]
Msg(k, n, l, b) == [kind |-> k, node |-> n, lane |-> l, body |-> b]
BodiesOf(k) == IF HasBody(k) THEN Bodies \cup {""} ELSE {""}
MsgsOf(K) == {Msg(k, n, l, b) : k \in K, n \in Nodes, l \in Lanes, b \in Bodies \cup {""}}
ReqMsgs  == {m \in MsgsOf(RequestKinds)  : m.body \in BodiesOf(m.kind)}
RespMsgs == {m \in MsgsOf(ResponseKinds) : m.body \in BodiesOf(m.kind)}
Invalid == [kind |-> "invalid"]      \* a text frame that is not a WARP envelope
Auth    == [kind |-> "auth"]         \* a valid envelope that is nobody's (auth / deauth): ignored
Frames  == ReqMsgs \cup RespMsgs \cup {Invalid, Auth}

\* sources multiplexed onto the socket / destinations of routed envelopes
DlSrc(d)    == <<"dl", "-", d>>
AgSrc(n, k) == <<"ag", n, k>>
Srcs == {DlSrc(d) : d \in Dls} \cup {AgSrc(n, k) : n \in Nodes, k \in 1..MaxInst}

VARIABLES subs,      \* client_subscriptions : [Nodes \X Lanes -> Seq(Dls)]  (ResponseWriters)
          routes,    \* agent_routes : [Nodes -> 0..MaxInst], incarnation the stored RequestWriter leads to
          inst,      \* incarnations started per node
          alive,     \* the latest incarnation still holds its channel ends
          dl,        \* [Dls -> [st : new|req|att|det, node, lane]]
          pendIn,    \* incoming_tx  : RegisterIncoming queue
          pendOut,   \* outgoing_tx  : RegisterOutgoing queue (client kind)
          inDone, outDone,   \* registrations completed by IncomingTask / OutgoingTask
          regOut,    \* sources in the MultiReaders of OutgoingTask
          out,       \* [Srcs -> Seq(Msg)]  byte channel source -> OutgoingTask
          inbox,     \* [Srcs -> Seq(Msg)]  byte channel IncomingTask -> downlink / agent
          sys,       \* NotFound envelopes queued for the outgoing task
          wireIn,    \* frames written by the peer, not yet read
          resolving, \* the request whose agent is being resolved (connect_agent_route), or NoMsg
          closed,    \* the task has terminated (invalid frame)
          cnt,       \* [send, peer, ctl] counters (bounds for model checking only)
          wsIn,      \* web socket frames written by the peer, not yet read by ratchet's receiver
          sending,   \* peer side: the fragmented message under way [msg, next, of], or NoMsg
          asm,       \* receiver side: fragments of the current message held in the read buffer (text_frame_stream's
                     \* `buffer`, carried across read() calls that return Ping / Pong)
          lastAct

ws == <<wsIn, sending, asm>>

vars == <<subs, routes, inst, alive, dl, pendIn, pendOut, inDone, outDone, regOut, out, inbox, sys,
          wireIn, resolving, closed, cnt, wsIn, sending, asm, lastAct>>
View == <<subs, routes, inst, alive, dl, pendIn, pendOut, inDone, outDone, regOut, out, inbox, sys,
          wireIn, resolving, closed, cnt, wsIn, sending, asm>>

NoDl == [st |-> "new", node |-> "-", lane |-> "-"]
Init ==
    /\ subs = [p \in Nodes \X Lanes |-> <<>>]
    /\ routes = [n \in Nodes |-> 0] /\ inst = [n \in Nodes |-> 0] /\ alive = [n \in Nodes |-> FALSE]
    /\ dl = [d \in Dls |-> NoDl]
    /\ pendIn = <<>> /\ pendOut = <<>> /\ inDone = {} /\ outDone = {} /\ regOut = {}
    /\ out = [s \in Srcs |-> <<>>] /\ inbox = [s \in Srcs |-> <<>>]
    /\ sys = <<>> /\ wireIn = <<>> /\ resolving = NoMsg /\ closed = FALSE
    /\ cnt = [send |-> 0, peer |-> 0, ctl |-> 0]
    /\ wsIn = <<>> /\ sending = NoMsg /\ asm = 0
    /\ lastAct = [k |-> "init"]

DlAlive(d) == dl[d].st \in {"req", "att"}       \* the downlink still holds its channel ends
AgAlive(n, k) == k > 0 /\ k = inst[n] /\ alive[n]
SrcGone(s) == IF s[1] = "dl" THEN dl[s[3]].st = "det" ELSE ~AgAlive(s[2], s[3])

-----------------------------------------------------------------------------
(* environment *)
\* a downlink asks to be attached: AttachClient::AttachDownlink -> registration_task -> two queues
AttachReq(d, n, l) ==
    /\ ~closed /\ dl[d].st = "new"
    /\ dl' = [dl EXCEPT ![d] = [st |-> "req", node |-> n, lane |-> l]]
    /\ pendIn' = Append(pendIn, d) /\ pendOut' = Append(pendOut, d)
    /\ lastAct' = [k |-> "attach_req", d |-> d, node |-> n, lane |-> l]
    /\ UNCHANGED ws /\ UNCHANGED <<subs, routes, inst, alive, inDone, outDone, regOut, out, inbox, sys, wireIn, resolving, closed, cnt>>

\* a send-only client: AttachClient::OneWay -> registration_task -> RegisterOutgoing only; it is
\* subscribed to nothing, so nothing is ever routed to it
AttachOneWay(d) ==
    /\ ~closed /\ dl[d].st = "new"
    /\ dl' = [dl EXCEPT ![d] = [st |-> "req", node |-> "-", lane |-> "-"]]
    /\ pendOut' = Append(pendOut, d)
    /\ inDone' = inDone \cup {d}               \* nothing to do on the incoming half
    /\ lastAct' = [k |-> "attach_oneway", d |-> d]
    /\ UNCHANGED ws /\ UNCHANGED <<subs, routes, inst, alive, pendIn, outDone, regOut, out, inbox, sys, wireIn, resolving, closed, cnt>>

\* the `done` promise of the attach request is fulfilled (both halves registered)
AttachDone(d) ==
    /\ dl[d].st = "req" /\ d \in inDone /\ d \in outDone
    /\ dl' = [dl EXCEPT ![d].st = "att"]
    /\ lastAct' = [k |-> "attach_done", d |-> d]
    /\ UNCHANGED ws /\ UNCHANGED <<subs, routes, inst, alive, pendIn, pendOut, inDone, outDone, regOut, out, inbox, sys, wireIn, resolving, closed, cnt>>

DlSend(d, m) ==
    /\ ~closed /\ dl[d].st = "att" /\ m \in ReqMsgs
    /\ out' = [out EXCEPT ![DlSrc(d)] = Append(@, m)]
    /\ cnt' = [cnt EXCEPT !.send = @ + 1]
    /\ lastAct' = [k |-> "dl_send", d |-> d, msg |-> m]
    /\ UNCHANGED ws /\ UNCHANGED <<subs, routes, inst, alive, dl, pendIn, pendOut, inDone, outDone, regOut, inbox, sys, wireIn, resolving, closed>>

\* the downlink drops both channel ends (what it already wrote stays in its channel)
DlDetach(d) ==
    /\ dl[d].st = "att"
    /\ dl' = [dl EXCEPT ![d].st = "det"]
    /\ inbox' = [inbox EXCEPT ![DlSrc(d)] = <<>>]
    /\ lastAct' = [k |-> "dl_detach", d |-> d]
    /\ UNCHANGED ws /\ UNCHANGED <<subs, routes, inst, alive, pendIn, pendOut, inDone, outDone, regOut, out, sys, wireIn, resolving, closed, cnt>>

AgentSend(n, m) ==
    /\ ~closed /\ AgAlive(n, inst[n]) /\ m \in RespMsgs /\ m.node = n
    /\ out' = [out EXCEPT ![AgSrc(n, inst[n])] = Append(@, m)]
    /\ cnt' = [cnt EXCEPT !.send = @ + 1]
    /\ lastAct' = [k |-> "agent_send", node |-> n, inst |-> inst[n], msg |-> m]
    /\ UNCHANGED ws /\ UNCHANGED <<subs, routes, inst, alive, dl, pendIn, pendOut, inDone, outDone, regOut, inbox, sys, wireIn, resolving, closed>>

AgentStop(n) ==
    /\ AgAlive(n, inst[n])
    /\ alive' = [alive EXCEPT ![n] = FALSE]
    /\ inbox' = [inbox EXCEPT ![AgSrc(n, inst[n])] = <<>>]
    /\ lastAct' = [k |-> "agent_stop", node |-> n, inst |-> inst[n]]
    /\ UNCHANGED ws /\ UNCHANGED <<subs, routes, inst, dl, pendIn, pendOut, inDone, outDone, regOut, out, sys, wireIn, resolving, closed, cnt>>

\* The peer writes web socket frames (RFC 6455).  A text message is one text frame (FIN), or a text frame without
\* FIN followed by continuation frames, the last one with FIN; between the fragments of one message no other data
\* frame may be sent, but control frames (ping, pong - also unsolicited -, close) may be sent at any point.
DataFrame(f, j, n) == [ws |-> "data", msg |-> f, part |-> j, of |-> n]
CtlFrame(c) == [ws |-> c]

\* a whole message in one frame
PeerSend(f) ==
    /\ ~closed /\ f \in Frames /\ sending = NoMsg
    /\ wsIn' = Append(wsIn, DataFrame(f, 1, 1))
    /\ cnt' = [cnt EXCEPT !.peer = @ + 1]
    /\ lastAct' = [k |-> "peer_send", msg |-> f]
    /\ UNCHANGED <<sending, asm>>
    /\ UNCHANGED <<subs, routes, inst, alive, dl, pendIn, pendOut, inDone, outDone, regOut, out, inbox, sys, wireIn, resolving, closed>>

\* fragment j of n of message f: j = 1 starts the message, j = n finishes it
PeerFrag(f, j, n) ==
    /\ ~closed /\ f \in Frames /\ n \in 2..MaxFrag /\ j \in 1..n
    /\ IF j = 1 THEN sending = NoMsg ELSE sending = [msg |-> f, next |-> j, of |-> n]
    /\ sending' = IF j = n THEN NoMsg ELSE [msg |-> f, next |-> j + 1, of |-> n]
    /\ wsIn' = Append(wsIn, DataFrame(f, j, n))
    /\ cnt' = IF j = 1 THEN [cnt EXCEPT !.peer = @ + 1] ELSE cnt
    /\ lastAct' = [k |-> "peer_frag", msg |-> f, part |-> j, of |-> n]
    /\ UNCHANGED asm
    /\ UNCHANGED <<subs, routes, inst, alive, dl, pendIn, pendOut, inDone, outDone, regOut, out, inbox, sys, wireIn, resolving, closed>>

\* a control frame, at any point - in particular between two fragments
PeerCtl(c) ==
    /\ ~closed /\ c \in {"ping", "pong", "close"}
    /\ wsIn' = Append(wsIn, CtlFrame(c))
    /\ cnt' = [cnt EXCEPT !.ctl = @ + 1]
    /\ lastAct' = [k |-> "peer_ctl", c |-> c, mid |-> (sending # NoMsg)]
    /\ UNCHANGED <<sending, asm>>
    /\ UNCHANGED <<subs, routes, inst, alive, dl, pendIn, pendOut, inDone, outDone, regOut, out, inbox, sys, wireIn, resolving, closed>>

\* a downlink / an agent reads the next frame from its channel
Recv(s) ==
    /\ inbox[s] # <<>> /\ ~SrcGone(s)
    /\ inbox' = [inbox EXCEPT ![s] = Tail(@)]
    /\ lastAct' = [k |-> "recv", to |-> s, msg |-> Head(inbox[s])]
    /\ UNCHANGED ws /\ UNCHANGED <<subs, routes, inst, alive, dl, pendIn, pendOut, inDone, outDone, regOut, out, sys, wireIn, resolving, closed, cnt>>

-----------------------------------------------------------------------------
(* RemoteTask *)
\* IncomingTask::run, arm attach_rx : client_subscriptions[node][lane].push(writer); done.trigger()
RegIn ==
    /\ ~closed /\ pendIn # <<>>
    /\ LET d == Head(pendIn) IN
       /\ subs' = [subs EXCEPT ![<<dl[d].node, dl[d].lane>>] = Append(@, d)]
       /\ inDone' = inDone \cup {d}
       /\ lastAct' = [k |-> "reg_in", d |-> d]
    /\ pendIn' = Tail(pendIn)
    /\ UNCHANGED ws /\ UNCHANGED <<routes, inst, alive, dl, pendOut, outDone, regOut, out, inbox, sys, wireIn, resolving, closed, cnt>>

\* OutgoingTask::run, RegisterOutgoing{Client} : clients.add(reader); done.send(Ok)
RegOut ==
    /\ ~closed /\ pendOut # <<>>
    /\ LET d == Head(pendOut) IN
       /\ regOut' = regOut \cup {DlSrc(d)}
       /\ outDone' = outDone \cup {d}
       /\ lastAct' = [k |-> "reg_out", d |-> d]
    /\ pendOut' = Tail(pendOut)
    /\ UNCHANGED ws /\ UNCHANGED <<subs, routes, inst, alive, dl, pendIn, inDone, out, inbox, sys, wireIn, resolving, closed, cnt>>

\* text_frame_stream: one rx.read(&mut buffer).  Ping / Pong: nothing for the incoming task, the buffer (with the
\* fragments read so far) is carried to the next read; a fragment without FIN stays in the buffer; the last
\* fragment completes the message, which is handed to the incoming task as one text frame; Close ends the input.
\* (the stream is pulled by the incoming task's loop, i.e. only when the previous text frame has been dealt with)
CanWsRead == ~closed /\ wsIn # <<>> /\ wireIn = <<>> /\ resolving = NoMsg
WsRead ==
    /\ CanWsRead
    /\ LET x == Head(wsIn) IN
       /\ wsIn' = Tail(wsIn)
       /\ CASE x.ws \in {"ping", "pong"} ->
                 /\ lastAct' = [k |-> "ws_read", frame |-> x.ws, held |-> asm]
                 /\ UNCHANGED <<asm, wireIn, closed>>
            [] x.ws = "close" ->           \* InputError::Closed: the task ends, nothing is sent back
                 /\ closed' = TRUE
                 /\ lastAct' = [k |-> "ws_read", frame |-> "close", held |-> asm]
                 /\ UNCHANGED <<asm, wireIn>>
            [] x.ws = "data" /\ x.part < x.of ->
                 /\ asm' = asm + 1
                 /\ lastAct' = [k |-> "ws_read", frame |-> "fragment", held |-> asm]
                 /\ UNCHANGED <<wireIn, closed>>
            [] x.ws = "data" /\ x.part = x.of ->
                 /\ asm' = 0
                 /\ wireIn' = Append(wireIn, x.msg)       \* all x.of fragments, in order: the message as written
                 /\ lastAct' = [k |-> "ws_read", frame |-> "message", held |-> asm]
                 /\ UNCHANGED closed
    /\ UNCHANGED sending
    /\ UNCHANGED <<subs, routes, inst, alive, dl, pendIn, pendOut, inDone, outDone, regOut, out, inbox, sys, resolving, cnt>>

\* send_response: broadcast to every writer of the entry; writers whose channel is closed are
\* filtered out; an entry left empty is removed (the empty sequence)
Deliverees(f) == LET ds == subs[<<f.node, f.lane>>] IN {ds[j] : j \in {j \in 1..Len(ds) : DlAlive(ds[j])}}
AppendTo(box, S, f) == [s \in Srcs |-> IF s \in S THEN Append(box[s], f) ELSE box[s]]

\* IncomingTask::run, arm input.next() : peel_envelope_header_str + interpret_envelope + dispatch
Route ==
    /\ ~closed /\ wireIn # <<>> /\ resolving = NoMsg
    /\ LET f == Head(wireIn) IN
       /\ wireIn' = Tail(wireIn)
       /\ CASE f.kind = "invalid" ->          \* break Err(InvalidEnvelope): everything stops, close frame
                 /\ closed' = TRUE
                 /\ lastAct' = [k |-> "route", msg |-> f, to |-> {}]
                 /\ UNCHANGED ws /\ UNCHANGED <<subs, routes, inbox, sys, resolving>>
            [] f.kind = "auth" ->             \* interpret_envelope = None
                 /\ lastAct' = [k |-> "route", msg |-> f, to |-> {}]
                 /\ UNCHANGED ws /\ UNCHANGED <<subs, routes, inbox, sys, resolving, closed>>
            [] f.kind \in ResponseKinds ->
                 LET to == {DlSrc(d) : d \in Deliverees(f)} IN
                 /\ inbox' = AppendTo(inbox, to, f)
                 /\ subs' = [subs EXCEPT ![<<f.node, f.lane>>] = SelectSeq(@, DlAlive)]
                 /\ lastAct' = [k |-> "route", msg |-> f, to |-> to]
                 /\ UNCHANGED ws /\ UNCHANGED <<routes, sys, resolving, closed>>
            [] f.kind \in RequestKinds ->
                 IF ~ServerMode THEN           \* no find_tx: NotFound straight to the outgoing task
                     /\ sys' = IF f.kind = "command" THEN sys ELSE Append(sys, Msg("unlinked", f.node, f.lane, NNF))
                     /\ lastAct' = [k |-> "route", msg |-> f, to |-> {}]
                     /\ UNCHANGED ws /\ UNCHANGED <<subs, routes, inbox, resolving, closed>>
                 ELSE IF routes[f.node] # 0 /\ AgAlive(f.node, routes[f.node]) THEN
                     /\ inbox' = AppendTo(inbox, {AgSrc(f.node, routes[f.node])}, f)
                     /\ lastAct' = [k |-> "route", msg |-> f, to |-> {AgSrc(f.node, routes[f.node])}]
                     /\ UNCHANGED ws /\ UNCHANGED <<subs, routes, sys, resolving, closed>>
                 ELSE                          \* no route, or the send failed: agent_routes.remove; connect_agent_route
                     /\ routes' = [routes EXCEPT ![f.node] = 0]
                     /\ resolving' = f
                     /\ lastAct' = [k |-> "route", msg |-> f, to |-> {}]
                     /\ UNCHANGED ws /\ UNCHANGED <<subs, inbox, sys, closed>>
    /\ UNCHANGED ws /\ UNCHANGED <<inst, alive, dl, pendIn, pendOut, inDone, outDone, regOut, out, cnt>>

\* connect_agent_route: FindNode answered by the plane; Ok -> RegisterOutgoing{Server} (awaited), route
\* stored, the pending request forwarded; NotFound -> @unlinked(..)@nodeNotFound unless a command
Resolve ==
    /\ ~closed /\ resolving # NoMsg
    /\ LET f == resolving n == f.node IN
       IF n \in Exists /\ inst[n] < MaxInst THEN
           LET k == inst[n] + 1 IN
           /\ inst' = [inst EXCEPT ![n] = k] /\ alive' = [alive EXCEPT ![n] = TRUE]
           /\ routes' = [routes EXCEPT ![n] = k]
           /\ regOut' = regOut \cup {AgSrc(n, k)}
           /\ inbox' = AppendTo(inbox, {AgSrc(n, k)}, f)
           /\ lastAct' = [k |-> "find", node |-> n, lane |-> f.lane, found |-> TRUE, to |-> {AgSrc(n, k)}, msg |-> f]
           /\ UNCHANGED sys
       ELSE
           /\ sys' = IF f.kind = "command" THEN sys ELSE Append(sys, Msg("unlinked", n, f.lane, NNF))
           /\ lastAct' = [k |-> "find", node |-> n, lane |-> f.lane, found |-> FALSE, to |-> {}, msg |-> f]
           /\ UNCHANGED ws /\ UNCHANGED <<inst, alive, routes, regOut, inbox>>
    /\ resolving' = NoMsg
    /\ UNCHANGED ws /\ UNCHANGED <<subs, dl, pendIn, pendOut, inDone, outDone, out, wireIn, closed, cnt>>

\* OutgoingTask::run, arms clients.next() / agents.next() : encode, write the text frame
Mux(s) ==
    /\ ~closed /\ s \in regOut /\ out[s] # <<>>
    /\ out' = [out EXCEPT ![s] = Tail(@)]
    /\ lastAct' = [k |-> "wire_out", from |-> s, msg |-> Head(out[s])]
    /\ UNCHANGED ws /\ UNCHANGED <<subs, routes, inst, alive, dl, pendIn, pendOut, inDone, outDone, regOut, inbox, sys, wireIn, resolving, closed, cnt>>

\* OutgoingTask::run, arm messages_rx, NotFound
MuxSys ==
    /\ ~closed /\ sys # <<>>
    /\ sys' = Tail(sys)
    /\ lastAct' = [k |-> "wire_out", from |-> <<"sys", "-", 0>>, msg |-> Head(sys)]
    /\ UNCHANGED ws /\ UNCHANGED <<subs, routes, inst, alive, dl, pendIn, pendOut, inDone, outDone, regOut, out, inbox, wireIn, resolving, closed, cnt>>

\* the stream of a source that went away ends once drained: MultiReader removes it
MuxEnd(s) ==
    /\ s \in regOut /\ out[s] = <<>> /\ SrcGone(s)
    /\ regOut' = regOut \ {s}
    /\ lastAct' = [k |-> "mux_end", from |-> s]
    /\ UNCHANGED ws /\ UNCHANGED <<subs, routes, inst, alive, dl, pendIn, pendOut, inDone, outDone, out, inbox, sys, wireIn, resolving, closed, cnt>>

Internal == WsRead \/ RegIn \/ RegOut \/ Route \/ Resolve \/ MuxSys \/ \E s \in Srcs : Mux(s) \/ MuxEnd(s)
Env == \/ \E d \in Dls : \/ \E n \in Nodes, l \in Lanes : AttachReq(d, n, l)
                         \/ AttachOneWay(d) \/ AttachDone(d) \/ DlDetach(d)
                         \/ \E m \in ReqMsgs : DlSend(d, m)
       \/ \E n \in Nodes : AgentStop(n) \/ \E m \in RespMsgs : AgentSend(n, m)
       \/ \E f \in Frames : PeerSend(f) \/ \E n \in 2..MaxFrag, j \in 1..MaxFrag : PeerFrag(f, j, n)
       \/ \E c \in {"ping", "pong", "close"} : PeerCtl(c)
       \/ \E s \in Srcs : Recv(s)
Next == Env \/ Internal

Fairness == /\ WF_vars(WsRead) /\ WF_vars(RegIn) /\ WF_vars(RegOut) /\ WF_vars(Route) /\ WF_vars(Resolve) /\ WF_vars(MuxSys)
            /\ \A s \in Srcs : WF_vars(Mux(s)) /\ WF_vars(Recv(s))
Spec == Init /\ [][Next]_vars
FairSpec == Spec /\ Fairness

-----------------------------------------------------------------------------
(* P : the property over the mechanism's state                             *)

TypeOK == /\ \A p \in Nodes \X Lanes : \A j \in 1..Len(subs[p]) : subs[p][j] \in Dls
          /\ \A n \in Nodes : routes[n] <= inst[n] /\ inst[n] <= MaxInst
          /\ regOut \subseteq Srcs

\* registered by the incoming half, for exactly this node and lane, and still there
Registered(d, n, l) == d \in inDone /\ DlAlive(d) /\ dl[d].node = n /\ dl[d].lane = l

\* "an envelope arriving on a socket is passed to the downlinks registered for exactly that node
\*  and lane, and to no other, with its content unchanged"  (action property on Route)
RouteExact ==
    (lastAct'.k = "route" /\ lastAct'.msg.kind \in ResponseKinds) =>
        LET f == lastAct'.msg
            to == {DlSrc(d) : d \in {d \in Dls : Registered(d, f.node, f.lane)}} IN
        /\ lastAct'.to = to
        /\ \A s \in Srcs : inbox'[s] = IF s \in to THEN Append(inbox[s], f) ELSE inbox[s]
\* "... is passed to the agent": one live incarnation of the agent of exactly that node, unchanged;
\* or the agent is being resolved (then Resolve delivers it or answers not-found)
RequestExact ==
    (lastAct'.k \in {"route", "find"} /\ lastAct'.msg.kind \in RequestKinds) =>
        LET f == lastAct'.msg IN
        /\ \A s \in lastAct'.to : s[1] = "ag" /\ s[2] = f.node /\ AgAlive(s[2], s[3])'
        /\ Cardinality(lastAct'.to) <= 1
        /\ \A s \in Srcs : inbox'[s] = IF s \in lastAct'.to THEN Append(inbox[s], f) ELSE inbox[s]
        /\ (lastAct'.to = {} /\ lastAct'.k = "route" /\ ServerMode) => resolving' = f
\* "a frame that is not a valid envelope is never mis-delivered"
InvalidNeverDelivered ==
    (lastAct'.k = "route" /\ lastAct'.msg.kind \in {"invalid", "auth"}) => inbox' = inbox
RoutingProps == [][RouteExact /\ RequestExact /\ InvalidNeverDelivered]_vars

\* state form of "only their addressee": what sits in a channel belongs to its reader
OnlyAddressee ==
    /\ \A d \in Dls : \A j \in 1..Len(inbox[DlSrc(d)]) :
          LET m == inbox[DlSrc(d)][j] IN m.kind \in ResponseKinds /\ m.node = dl[d].node /\ m.lane = dl[d].lane
    /\ \A n \in Nodes, k \in 1..MaxInst : \A j \in 1..Len(inbox[AgSrc(n, k)]) :
          LET m == inbox[AgSrc(n, k)][j] IN m.kind \in RequestKinds /\ m.node = n
\* the table that makes it so
TablesSound ==
    /\ \A p \in Nodes \X Lanes : \A j \in 1..Len(subs[p]) :
          LET d == subs[p][j] IN /\ dl[d].node = p[1] /\ dl[d].lane = p[2] /\ d \in inDone
                                 /\ \A j2 \in 1..Len(subs[p]) : j2 # j => subs[p][j2] # d
    \* nobody registered and alive is missing from the table
    /\ \A d \in Dls : (d \in inDone /\ DlAlive(d) /\ dl[d].node # "-") => \E j \in 1..Len(subs[<<dl[d].node, dl[d].lane>>]) : subs[<<dl[d].node, dl[d].lane>>][j] = d
    /\ \A n \in Nodes : routes[n] # 0 => routes[n] = inst[n]
\* a source that wrote something is (or is about to be) multiplexed: nothing can be stranded
NothingStranded == \A s \in Srcs : out[s] # <<>> => (s \in regOut \/ closed)
\* after the invalid frame nothing moves any more
ClosedIsFinal == closed => (lastAct.k \in {"ws_read", "route", "recv", "attach_done", "dl_detach", "agent_stop", "mux_end"})

\* "messages from the many agents and downlinks sharing one socket all leave it" / every frame is routed
AllLeave  == \A s \in Srcs : (out[s] # <<>>) ~> (out[s] = <<>> \/ closed)
AllRouted == (wireIn # <<>> \/ wsIn # <<>>) ~> ((wireIn = <<>> /\ wsIn = <<>>) \/ closed)
\* the receiver holds exactly the fragments the peer has sent of the message under way and that were read
FragmentsHeld == asm <= MaxFrag /\ (sending = NoMsg /\ wsIn = <<>> => asm = 0)
Quiescent == /\ wsIn = <<>> /\ wireIn = <<>> /\ resolving = NoMsg /\ sys = <<>> /\ pendIn = <<>> /\ pendOut = <<>>
             /\ \A s \in Srcs : out[s] = <<>> /\ (inbox[s] = <<>> \/ SrcGone(s))

=============================================================================

------------------------- MODULE Trace_DownlinkState -------------------------
(***************************************************************************)
(* P for C08 as an evaluator of recorded executions.  The property         *)
(* operators are those of DownlinkState.tla (PSucc, PCbsOK, Apply,         *)
(* BulkRemoveOK): nothing is restated here.                                *)
(*                                                                         *)
(* Input (ndjson, IOEnv.TRACE), many cases in one file:                    *)
(*   {"k":"reset","id":..,"kind":"map|value|event","impl":"client|hosted", *)
(*    "ewns":b,"tou":b}                         a fresh downlink            *)
(*   {"k":"linked"|"synced"|"unlinked"|"update"|"remove"|"clear"|"take"|   *)
(*         "drop"|"event"|"w_update"|"w_remove"|"w_clear"|"w_set"|         *)
(*         "drop_handles"|"out_fail"|"link_lost" (+ "how":"write|read"),   *)
(*    "key":..,"val":..,"n":..,                 the input                   *)
(*    "cbs":[{"cb","key","old","new","map"}],   callbacks it caused         *)
(*    "done":b}                                 downlink terminated         *)
(*   {"k":"panic"}                              the code under test panicked*)
(*   {"k":"end"}                                                            *)
(*                                                                         *)
(* P leaves the policy for own writes open (applied optimistically or only *)
(* forwarded), so the evaluator carries the set of (policy, replica state) *)
(* pairs still compatible with everything observed (`cands`).              *)
(* A case is REJECTED when that set becomes empty.  Once an input is       *)
(* outside the link grammar the candidate is "chaos": P is silent, only a  *)
(* panic is rejected.                                                      *)
(*                                                                         *)
(* Known findings (known_findings/C08.json, status open => listed in       *)
(* EnabledFindings) are deviation steps with the exact circumstances as    *)
(* guards.  A candidate that took one is tagged; a case is reported as     *)
(* KFHIT only if no untagged candidate explains it.                        *)
(***************************************************************************)
EXTENDS Naturals, Sequences, FiniteSets, TLC, Json, IOUtils

CONSTANTS NK, NV, EnabledFindings

Rec == ndJsonDeserialize(IOEnv.TRACE)

P == INSTANCE DownlinkState WITH Kinds <- {}, EwnsSet <- {}, TouSet <- {}, Counts <- {},
                                 LocalWrites <- FALSE, Illegal <- FALSE, EnvFaults <- FALSE, MaxLen <- 0,
                                 cf <- 0, st <- 0, c <- 0, h <- 0, io <- 0, lastAct <- 0, trace <- 0

VARIABLES i,        \* next event
          cur,      \* the reset event of the current case
          cands,    \* set of [s : replica state allowed by P, kf : known findings used]
          dead,     \* the current case has been rejected
          ncases, nrej, nkf
vars == <<i, cur, cands, dead, ncases, nrej, nkf>>

Cand(s, kf, opt) == [s |-> s, kf |-> kf, opt |-> opt]
ChaosS == [st |-> "chaos", d |-> 0]
Input(e) == [f \in DOMAIN e \ {"cbs", "done"} |-> e[f]]

\* the P steps of one candidate that are compatible with the observation
NormalSucc(cd, e) ==
    IF cd.s.st = "chaos" THEN {cd}
    ELSE LET n    == Input(e)
             succ == P!PSucc(cur.kind, cur.tou, cd.opt, cd.s, n)
         IN IF succ = {} THEN {Cand(ChaosS, cd.kf, cd.opt)}
            ELSE {Cand(s2, cd.kf, cd.opt) :
                    s2 \in {x \in succ : P!PStep(cur.kind, cur.ewns, cur.tou, cd.opt, cd.s, n, e.cbs, e.done, x)}}

-----------------------------------------------------------------------------
(* Known findings: swimos_downlink/src/task/map.rs on_event (client map    *)
(* downlink), DESIGN.md section 8 F6.                                      *)

\* what Drop passes to on_remove: the map before the retained entries are put back, i.e. empty
DropBugCbs(m, n) == [j \in 1..n |-> P!Cb("remove", P!MapSeq(m)[j][1], P!MapSeq(m)[j][2], 0, <<>>)]
DropBugApplies(m, n, cbs) == n.k = "drop" /\ n.n > 0 /\ n.n < Len(P!MapSeq(m)) /\ cbs = DropBugCbs(m, n.n)

KFSucc(cd, e) ==
    IF cur.impl # "client" \/ cur.kind # "map" \/ cd.s.st \notin {"L", "S"} \/ e.done THEN {}
    ELSE
    LET s     == cd.s
        n     == Input(e)
        m     == s.d
        m2    == P!Apply("map", m, n)
        quiet == s.st = "L" /\ ~cur.ewns       \* events must not be reported
    IN
    \* F6a: Clear while linked, not synced, events_when_not_synced = false: the map is NOT cleared
       (IF "F6a" \in EnabledFindings /\ n.k = "clear" /\ quiet /\ m # P!EmptyMap /\ e.cbs = <<>>
        THEN {Cand(s, cd.kf \cup {"F6a"}, cd.opt)} ELSE {})
    \* F6b: Take / Drop report their removals although events must not be reported
    \cup (IF "F6b" \in EnabledFindings /\ n.k \in {"take", "drop"} /\ quiet /\ e.cbs # <<>>
             /\ P!BulkRemoveOK(m, m2, e.cbs)
          THEN {Cand(P!PS(s.st, m2), cd.kf \cup {"F6b"}, cd.opt)} ELSE {})
    \* F6c: Drop(n), 0 < n < size: on_remove is given an empty map instead of the retained entries
    \cup (IF "F6c" \in EnabledFindings /\ ~quiet /\ DropBugApplies(m, n, e.cbs)
          THEN {Cand(P!PS(s.st, m2), cd.kf \cup {"F6c"}, cd.opt)} ELSE {})
    \cup (IF {"F6b", "F6c"} \subseteq EnabledFindings /\ quiet /\ DropBugApplies(m, n, e.cbs)
          THEN {Cand(P!PS(s.st, m2), cd.kf \cup {"F6b", "F6c"}, cd.opt)} ELSE {})

-----------------------------------------------------------------------------
\* TLC registers carry the totals to the POSTCONDITION (which cannot see the state)
TraceInit == /\ i = 1 /\ cur = [id |-> "none"] /\ cands = {} /\ dead = TRUE
             /\ ncases = 0 /\ nrej = 0 /\ nkf = 0
             /\ TLCSet(1, 0) /\ TLCSet(2, 0) /\ TLCSet(3, 0) /\ TLCSet(4, 0)

\* verdict of the case that ends here
Finalize ==
    IF dead \/ cands = {} \/ \E cd \in cands : cd.kf = {} THEN nkf' = nkf
    ELSE LET best == CHOOSE cd \in cands : \A o \in cands : Cardinality(cd.kf) <= Cardinality(o.kf)
         IN /\ PrintT(<<"KFHIT", ToJson([id |-> cur.id, kf |-> best.kf])>>)
            /\ nkf' = nkf + 1

TraceNext ==
    /\ i <= Len(Rec)
    /\ i' = i + 1
    /\ TLCSet(1, i)
    /\ LET e == Rec[i] IN
       IF e.k \in {"reset", "end"} THEN
            /\ Finalize
            /\ cur' = e
            /\ dead' = (e.k = "end")
            /\ cands' = IF e.k = "reset" THEN {Cand(P!PS("U", P!Empty(e.kind)), {}, opt) : opt \in BOOLEAN} ELSE {}
            /\ ncases' = IF e.k = "reset" THEN ncases + 1 ELSE ncases
            /\ nrej' = nrej
       ELSE IF dead THEN UNCHANGED <<cur, cands, dead, ncases, nrej, nkf>>
       ELSE LET nx == IF e.k = "panic" THEN {}
                      ELSE UNION {NormalSucc(cd, e) \cup KFSucc(cd, e) : cd \in cands}
            IN /\ cands' = nx
               /\ dead' = (nx = {})
               /\ nrej' = IF nx = {} THEN nrej + 1 ELSE nrej
               /\ (nx = {}) => PrintT(<<"REJECT", ToJson([id |-> cur.id, at |-> i, ev |-> e,
                                                           states |-> {[st |-> cd.s.st, opt |-> cd.opt, d |-> IF cur.kind = "map" /\ cd.s.st # "chaos" THEN P!MapSeq(cd.s.d) ELSE cd.s.d] : cd \in cands}])>>)
               /\ UNCHANGED <<cur, ncases, nkf>>

Totals == TLCSet(2, ncases) /\ TLCSet(3, nrej) /\ TLCSet(4, nkf)
TraceSpec == TraceInit /\ [][TraceNext]_vars

\* the whole file has been evaluated (anything else is a tool error)
TraceAccepted ==
    /\ PrintT(<<"TRACE_RESULT", ToJson([consumed |-> TLCGet(1), total |-> Len(Rec), cases |-> TLCGet(2),
                                         rejected |-> TLCGet(3), kfhits |-> TLCGet(4)])>>)
    /\ TLCGet(1) = Len(Rec)
=============================================================================

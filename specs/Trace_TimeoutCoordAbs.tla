------------------------ MODULE Trace_TimeoutCoordAbs ------------------------
(***************************************************************************)
(* P for C17 as a trace specification: a recorded history of call / return *)
(* / wake events of the real timeout coordinator is accepted iff it is     *)
(* linearizable to TimeoutCoordAbs, i.e. iff linearization points (the     *)
(* internal Lin / PollLin steps, chosen by TLC) can be placed between each *)
(* call and its return such that every returned result is the one the      *)
(* atomic object gives, and no wake-up is lost at quiescence.              *)
(*                                                                         *)
(* Events (ndjson), t in 0..N-1 = voter, t = N = the receiver:             *)
(*   {"k":"reset"}                            a fresh coordinator          *)
(*   {"k":"call","t":t,"op":"vote|rescind|drop|poll"}                      *)
(*   {"k":"ret","t":t,"op":..,"r":"U|P|dropped|ready|pending"}             *)
(*   {"k":"wake"}                             the receiver's waker fired   *)
(*   {"k":"end"}                              all threads have finished    *)
(* Anything else (e.g. "timeout": the receiver waited in vain) matches no  *)
(* action and is rejected.                                                 *)
(***************************************************************************)
EXTENDS TimeoutCoordAbs, Sequences, TLC, Json, IOUtils

Rec == ndJsonDeserialize(IOEnv.TRACE)

VARIABLE i
tvars == <<i, votes, stopped, alive, pend, rpend, lastPoll, wakeSince>>

Max(a, b) == IF a > b THEN a ELSE b

TraceInit == i = 1 /\ PInit /\ TLCSet(1, 1)

Reset == /\ votes' = {} /\ stopped' = FALSE /\ alive' = Party
         /\ pend' = [j \in Party |-> Idle] /\ rpend' = Idle
         /\ lastPoll' = "none" /\ wakeSince' = FALSE

Event(e) ==
    \/ e.k = "reset" /\ Reset
    \/ e.k = "call" /\ e.t \in Party /\ Call(e.t, e.op)
    \/ e.k = "call" /\ e.t = N /\ e.op = "poll" /\ PollCall
    \/ e.k = "ret" /\ e.t \in Party /\ Ret(e.t, e.r)
    \/ e.k = "ret" /\ e.t = N /\ PollRet(e.r)
    \/ e.k = "wake" /\ Wake
    \/ e.k = "end" /\ Quiescent(pend, rpend) /\ NoLostWakeup(stopped, lastPoll, wakeSince)
                   /\ UNCHANGED pvars

Internal == \/ \E j \in Party, r \in Results : Lin(j, r)
            \/ \E r \in {"ready", "pending"} : PollLin(r)

TraceNext == /\ i <= Len(Rec)
             /\ \/ Event(Rec[i]) /\ i' = i + 1 /\ TLCSet(1, Max(TLCGet(1), i + 1))
                \/ Internal /\ i' = i

TraceSpec == TraceInit /\ [][TraceNext]_tvars

\* P's own theorems, evaluated on every state the validation visits
TraceInv == S1_StopOnlyIfAllVote /\ S5_DroppedCounts /\ S3_ToldUnanimous /\ S2_ToldPending

TraceAccepted ==
    LET m == TLCGet(1) IN
    /\ PrintT(<<"TRACE_RESULT", ToJson([accepted |-> (m = Len(Rec) + 1), matched |-> m - 1, total |-> Len(Rec), kf |-> <<>>])>>)
    /\ m = Len(Rec) + 1
=============================================================================

--------------------------- MODULE Trace_NoCoalesce ---------------------------
(***************************************************************************)
(* P for C14: supply lanes, command lanes and agent-sent commands are      *)
(* never coalesced.  Trace specification over the log of configuration E.  *)
(*   reset | restart                                                       *)
(*   push v                  the agent pushed v to the supply lane         *)
(*   req r op                link | sync | unlink on the supply lane       *)
(*   frame r kind [v]        supply lane frame received by r (bad = TRUE    *)
(*                           when an event body is not an integer)         *)
(*   csent r tag             r sent command number tag to the command lane *)
(*   chand tag               the command handler ran with that command     *)
(*   asent t v ow            the agent sent v to target lane t             *)
(*   aout t v                the target channel delivered v for lane t     *)
(*   gone r | quiescent drained                                            *)
(***************************************************************************)
EXTENDS Naturals, Integers, Sequences, FiniteSets, TLC, Json, IOUtils

CONSTANTS Remotes, Targets

Rec == ndJsonDeserialize(IOEnv.TRACE)

VARIABLES i,
          S,        \* Seq of supplied values
          open, unl, minIdx, idx, oblig, alive,
          \* What the log does not show: how far the runtime has got with r's requests on the supply lane (see
          \* Trace_ValueView): link / unlink are processed in order, a sync links r whenever its answer arrives.
          cq, sq, rlk, fq, stopping,
          Q,        \* [remote -> Seq of command tags sent and not yet handled]
          sentQ,    \* [target -> Seq of [v, ow]]
          pos       \* [target -> index of the last command delivered]
hid == <<cq, sq, rlk, fq>>
vars == <<i, S, open, unl, minIdx, idx, oblig, alive, cq, sq, rlk, fq, stopping, Q, sentQ, pos>>

Has(e, f) == f \in DOMAIN e
Max(a, b) == IF a > b THEN a ELSE b
R(x) == [r \in Remotes |-> x]

Fresh == /\ S = <<>> /\ open = R(FALSE) /\ cq = R(<<>>) /\ sq = R(<<>>) /\ rlk = R(FALSE) /\ fq = R(<<>>) /\ stopping = FALSE /\ unl = R(FALSE) /\ minIdx = R(0) /\ idx = R(0)
         /\ oblig = R({}) /\ alive = R(TRUE) /\ Q = R(<<>>)
         /\ sentQ = [t \in Targets |-> <<>>] /\ pos = [t \in Targets |-> 0]
FreshP == /\ S' = <<>> /\ open' = R(FALSE) /\ cq' = R(<<>>) /\ sq' = R(<<>>) /\ rlk' = R(FALSE) /\ fq' = R(<<>>) /\ stopping' = FALSE /\ unl' = R(FALSE) /\ minIdx' = R(0) /\ idx' = R(0)
          /\ oblig' = R({}) /\ alive' = R(TRUE) /\ Q' = R(<<>>)
          /\ sentQ' = [t \in Targets |-> <<>>] /\ pos' = [t \in Targets |-> 0]

TraceInit == i = 1 /\ Fresh /\ TLCSet(1, 1)

MinOf(Set) == CHOOSE x \in Set : \A y \in Set : x <= y

\* steps of the runtime that the log does not show
HCoord(r) ==
    /\ cq[r] # <<>>
    /\ LET h == Head(cq[r]) IN
       /\ cq' = [cq EXCEPT ![r] = Tail(@)]
       /\ IF h.op = "link"
            THEN /\ rlk' = [rlk EXCEPT ![r] = TRUE]
                 /\ fq' = [fq EXCEPT ![r] = Append(@, [k |-> "linked", pos |-> h.pos])]
            ELSE /\ rlk' = [rlk EXCEPT ![r] = FALSE]
                 /\ fq' = IF rlk[r] THEN [fq EXCEPT ![r] = Append(@, [k |-> "unlinked", pos |-> 0])] ELSE fq
    /\ UNCHANGED sq
HSync(r) ==
    /\ sq[r] # <<>> /\ ~rlk[r]
    /\ rlk' = [rlk EXCEPT ![r] = TRUE]
    /\ fq' = [fq EXCEPT ![r] = Append(@, [k |-> "linked", pos |-> Head(sq[r]).pos])]
    /\ UNCHANGED <<cq, sq>>

Step(e) ==
    \/ /\ e.e \in {"reset", "restart"} /\ FreshP
    \/ /\ e.e = "push"
       /\ S' = Append(S, e.v)
       \* every remote that had received linked before the push (and has not asked to unlink) must get it
       /\ oblig' = [r \in Remotes |-> IF open[r] /\ ~unl[r] THEN oblig[r] \cup {Len(S) + 1} ELSE oblig[r]]
       /\ UNCHANGED <<open, unl, minIdx, idx, alive, hid, stopping, Q, sentQ, pos>>
    \/ /\ e.e = "req" /\ e.op = "link"
       /\ cq' = [cq EXCEPT ![e.r] = Append(@, [op |-> "link", pos |-> Len(S)])]
       /\ UNCHANGED <<S, open, unl, minIdx, idx, oblig, alive, sq, rlk, fq, stopping, Q, sentQ, pos>>
    \/ /\ e.e = "req" /\ e.op = "sync"
       /\ sq' = [sq EXCEPT ![e.r] = Append(@, [pos |-> Len(S)])]
       /\ UNCHANGED <<S, open, unl, minIdx, idx, oblig, alive, cq, rlk, fq, stopping, Q, sentQ, pos>>
    \/ /\ e.e = "req" /\ e.op = "unlink"
       /\ cq' = [cq EXCEPT ![e.r] = Append(@, [op |-> "unlink", pos |-> 0])]
       /\ unl' = [unl EXCEPT ![e.r] = TRUE]
       /\ oblig' = [oblig EXCEPT ![e.r] = {}]
       /\ UNCHANGED <<S, open, minIdx, idx, alive, sq, rlk, fq, stopping, Q, sentQ, pos>>
    \/ /\ e.e = "frame" /\ e.kind = "linked"
       /\ fq[e.r] # <<>> /\ Head(fq[e.r]).k = "linked"
       /\ fq' = [fq EXCEPT ![e.r] = Tail(@)]
       /\ open' = [open EXCEPT ![e.r] = TRUE]
       /\ unl' = IF open[e.r] THEN unl ELSE [unl EXCEPT ![e.r] = FALSE]
       \* a new episode: only items pushed after the request that opened it was sent
       /\ minIdx' = IF open[e.r] THEN minIdx ELSE [minIdx EXCEPT ![e.r] = Max(@, Head(fq[e.r]).pos)]
       /\ UNCHANGED <<S, idx, oblig, alive, cq, sq, rlk, stopping, Q, sentQ, pos>>
    \/ /\ e.e = "frame" /\ e.kind = "event"
       /\ LET r == e.r IN
          IF ~open[r] THEN UNCHANGED idx
          ELSE /\ ~Has(e, "bad")
               /\ LET from == Max(idx[r], minIdx[r]) + 1
                      C == {j \in from..Len(S) : S[j] = e.v} IN
                  /\ C # {}                         \* an item that was pushed, later than the previous one:
                                                    \* in push order, never twice
                  /\ LET j == MinOf(C) IN
                     /\ \A x \in (idx[r] + 1)..(j - 1) : x \notin oblig[r]     \* nothing owed was skipped
                     /\ idx' = [idx EXCEPT ![r] = j]
       /\ UNCHANGED <<S, open, unl, minIdx, oblig, alive, hid, stopping, Q, sentQ, pos>>
    \/ /\ e.e = "frame" /\ e.kind = "synced"
       /\ sq' = [sq EXCEPT ![e.r] = IF @ # <<>> THEN Tail(@) ELSE @]     \* the oldest outstanding sync is answered
       /\ UNCHANGED <<S, open, unl, minIdx, idx, oblig, alive, cq, rlk, fq, stopping, Q, sentQ, pos>>
    \/ /\ e.e = "frame" /\ e.kind = "unlinked"
       /\ IF fq[e.r] # <<>>
            THEN /\ Head(fq[e.r]).k = "unlinked"              \* the answer to an unlink request
                 /\ fq' = [fq EXCEPT ![e.r] = Tail(@)]
                 /\ UNCHANGED <<cq, sq, rlk>>
            ELSE /\ stopping                                  \* the agent stops: every link is closed
                 /\ cq' = [cq EXCEPT ![e.r] = <<>>] /\ sq' = [sq EXCEPT ![e.r] = <<>>]
                 /\ rlk' = [rlk EXCEPT ![e.r] = FALSE] /\ UNCHANGED fq
       /\ open' = [open EXCEPT ![e.r] = FALSE]
       /\ oblig' = [oblig EXCEPT ![e.r] = {}]
       /\ UNCHANGED <<S, unl, minIdx, idx, alive, stopping, Q, sentQ, pos>>
    \/ /\ e.e = "stopping"
       /\ stopping' = TRUE
       /\ UNCHANGED <<S, open, unl, minIdx, idx, oblig, alive, hid, Q, sentQ, pos>>
    \/ /\ e.e = "csent"
       /\ Q' = [Q EXCEPT ![e.r] = Append(@, e.tag)]
       /\ UNCHANGED <<S, open, unl, minIdx, idx, oblig, alive, hid, stopping, sentQ, pos>>
    \/ /\ e.e = "chand"
       \* the handler runs once per command, in the order each remote sent them
       /\ \E r \in Remotes : /\ Q[r] # <<>> /\ Head(Q[r]) = e.tag
                             /\ Q' = [Q EXCEPT ![r] = Tail(@)]
       /\ UNCHANGED <<S, open, unl, minIdx, idx, oblig, alive, hid, stopping, sentQ, pos>>
    \/ /\ e.e = "asent"
       /\ sentQ' = [sentQ EXCEPT ![e.t] = Append(@, [v |-> e.v, ow |-> e.ow])]
       /\ UNCHANGED <<S, open, unl, minIdx, idx, oblig, alive, hid, stopping, Q, pos>>
    \/ /\ e.e = "aout"
       /\ LET t == e.t
              C == {j \in (pos[t] + 1)..Len(sentQ[t]) : sentQ[t][j].v = e.v} IN
          /\ C # {}                                  \* forwarded once each, in order per target lane
          /\ LET j == MinOf(C) IN
             /\ \A x \in (pos[t] + 1)..(j - 1) : sentQ[t][x].ow    \* only overwritable commands are superseded
             /\ pos' = [pos EXCEPT ![t] = j]
       /\ UNCHANGED <<S, open, unl, minIdx, idx, oblig, alive, hid, stopping, Q, sentQ>>
    \/ /\ e.e = "gone"
       /\ alive' = [alive EXCEPT ![e.r] = FALSE]
       /\ UNCHANGED <<S, open, unl, minIdx, idx, oblig, hid, stopping, Q, sentQ, pos>>
    \/ /\ e.e = "quiescent"
       /\ \A x \in 1..Len(e.drained) :
             LET r == e.drained[x] IN
             (alive[r] /\ open[r]) => \A o \in oblig[r] : o <= idx[r]          \* every owed item arrived
       /\ \A r \in Remotes : alive[r] => Q[r] = <<>>                           \* every command was handled
       /\ \A t \in Targets :                                                   \* only superseded commands are missing
             /\ \A x \in (pos[t] + 1)..Len(sentQ[t]) : sentQ[t][x].ow
             /\ (sentQ[t] # <<>> /\ e.targets_drained) => pos[t] = Len(sentQ[t])
       \* nothing is in flight: every request of a drained remote has been dealt with
       /\ LET D == {e.drained[x] : x \in 1..Len(e.drained)} IN
          /\ cq' = [r \in Remotes |-> IF r \in D THEN <<>> ELSE cq[r]]
          /\ sq' = [r \in Remotes |-> IF r \in D THEN <<>> ELSE sq[r]]
          /\ fq' = [r \in Remotes |-> IF r \in D THEN <<>> ELSE fq[r]]
          /\ rlk' = [r \in Remotes |-> IF r \in D THEN open[r] ELSE rlk[r]]
       /\ UNCHANGED <<S, open, unl, minIdx, idx, oblig, alive, stopping, Q, sentQ, pos>>

TraceNext ==
    /\ i <= Len(Rec)
    /\ LET e == Rec[i] IN
       \/ /\ e.e = "frame" /\ e.kind \in {"linked", "unlinked"} /\ fq[e.r] = <<>>
          /\ (HCoord(e.r) \/ HSync(e.r))
          /\ UNCHANGED <<i, S, open, unl, minIdx, idx, oblig, alive, stopping, Q, sentQ, pos>>
       \/ /\ Step(e)
          /\ i' = i + 1
          /\ TLCSet(1, Max(TLCGet(1), i + 1))

TraceSpec == TraceInit /\ [][TraceNext]_vars

TraceAccepted ==
    LET m == TLCGet(1) IN
    /\ PrintT(<<"TRACE_RESULT", ToJson([accepted |-> (m = Len(Rec) + 1), matched |-> m - 1, total |-> Len(Rec), kf |-> <<>>])>>)
    /\ m = Len(Rec) + 1
=============================================================================

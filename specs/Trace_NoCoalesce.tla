--------------------------- MODULE Trace_NoCoalesce ---------------------------
(***************************************************************************)
(* P for C14: supply lanes, command lanes and agent-sent commands are      *)
(* never coalesced.  Trace specification over the log of configuration E.  *)
(*   reset | restart                                                       *)
(*   push v                  the agent pushed v to the supply lane         *)
(*   req r op                link | sync | unlink on the supply lane       *)
(*   frame r kind [v]        supply lane frame received by r (bad = TRUE    *)
(*                           when an event body is not an integer)         *)
(*   csent r tag             r sent command number tag to the command lane *)
(*   chand tag               the command handler ran with that command     *)
(*   asent t v ow            the agent sent v to target lane t             *)
(*   aout t v                the target channel delivered v for lane t     *)
(*   gone r | quiescent drained                                            *)
(***************************************************************************)
EXTENDS Naturals, Integers, Sequences, FiniteSets, TLC, Json, IOUtils

CONSTANTS Remotes, Targets

Rec == ndJsonDeserialize(IOEnv.TRACE)

VARIABLES i,
          S,        \* Seq of supplied values
          open, pend, unl, minIdx, idx, oblig, alive,
          Q,        \* [remote -> Seq of command tags sent and not yet handled]
          sentQ,    \* [target -> Seq of [v, ow]]
          pos       \* [target -> index of the last command delivered]
vars == <<i, S, open, pend, unl, minIdx, idx, oblig, alive, Q, sentQ, pos>>

Has(e, f) == f \in DOMAIN e
Max(a, b) == IF a > b THEN a ELSE b
R(x) == [r \in Remotes |-> x]

Fresh == /\ S = <<>> /\ open = R(FALSE) /\ pend = R(FALSE) /\ unl = R(FALSE) /\ minIdx = R(0) /\ idx = R(0)
         /\ oblig = R({}) /\ alive = R(TRUE) /\ Q = R(<<>>)
         /\ sentQ = [t \in Targets |-> <<>>] /\ pos = [t \in Targets |-> 0]
FreshP == /\ S' = <<>> /\ open' = R(FALSE) /\ pend' = R(FALSE) /\ unl' = R(FALSE) /\ minIdx' = R(0) /\ idx' = R(0)
          /\ oblig' = R({}) /\ alive' = R(TRUE) /\ Q' = R(<<>>)
          /\ sentQ' = [t \in Targets |-> <<>>] /\ pos' = [t \in Targets |-> 0]

TraceInit == i = 1 /\ Fresh /\ TLCSet(1, 1)

MinOf(Set) == CHOOSE x \in Set : \A y \in Set : x <= y

Step(e) ==
    \/ /\ e.e \in {"reset", "restart"} /\ FreshP
    \/ /\ e.e = "push"
       /\ S' = Append(S, e.v)
       \* every remote that had received linked before the push (and has not asked to unlink) must get it
       /\ oblig' = [r \in Remotes |-> IF open[r] /\ ~unl[r] THEN oblig[r] \cup {Len(S) + 1} ELSE oblig[r]]
       /\ UNCHANGED <<open, pend, unl, minIdx, idx, alive, Q, sentQ, pos>>
    \/ /\ e.e = "req" /\ e.op \in {"link", "sync"}
       /\ LET r == e.r  fresh == ~open[r] /\ ~pend[r] IN
          /\ pend' = [pend EXCEPT ![r] = TRUE]
          /\ minIdx' = IF fresh THEN [minIdx EXCEPT ![r] = Max(@, Len(S))] ELSE minIdx
       /\ UNCHANGED <<S, open, unl, idx, oblig, alive, Q, sentQ, pos>>
    \/ /\ e.e = "req" /\ e.op = "unlink"
       /\ unl' = [unl EXCEPT ![e.r] = TRUE]
       /\ oblig' = [oblig EXCEPT ![e.r] = {}]
       /\ UNCHANGED <<S, open, pend, minIdx, idx, alive, Q, sentQ, pos>>
    \/ /\ e.e = "frame" /\ e.kind = "linked"
       /\ open' = [open EXCEPT ![e.r] = TRUE]
       /\ unl' = IF open[e.r] THEN unl ELSE [unl EXCEPT ![e.r] = FALSE]
       /\ UNCHANGED <<S, pend, minIdx, idx, oblig, alive, Q, sentQ, pos>>
    \/ /\ e.e = "frame" /\ e.kind = "event"
       /\ LET r == e.r IN
          IF ~open[r] THEN UNCHANGED idx
          ELSE /\ ~Has(e, "bad")
               /\ LET from == Max(idx[r], minIdx[r]) + 1
                      C == {j \in from..Len(S) : S[j] = e.v} IN
                  /\ C # {}                         \* an item that was pushed, later than the previous one:
                                                    \* in push order, never twice
                  /\ LET j == MinOf(C) IN
                     /\ \A x \in (idx[r] + 1)..(j - 1) : x \notin oblig[r]     \* nothing owed was skipped
                     /\ idx' = [idx EXCEPT ![r] = j]
       /\ UNCHANGED <<S, open, pend, unl, minIdx, oblig, alive, Q, sentQ, pos>>
    \/ /\ e.e = "frame" /\ e.kind = "synced"
       /\ UNCHANGED <<S, open, pend, unl, minIdx, idx, oblig, alive, Q, sentQ, pos>>
    \/ /\ e.e = "frame" /\ e.kind = "unlinked"
       /\ open' = [open EXCEPT ![e.r] = FALSE]
       /\ pend' = [pend EXCEPT ![e.r] = FALSE]
       /\ oblig' = [oblig EXCEPT ![e.r] = {}]
       /\ UNCHANGED <<S, unl, minIdx, idx, alive, Q, sentQ, pos>>
    \/ /\ e.e = "csent"
       /\ Q' = [Q EXCEPT ![e.r] = Append(@, e.tag)]
       /\ UNCHANGED <<S, open, pend, unl, minIdx, idx, oblig, alive, sentQ, pos>>
    \/ /\ e.e = "chand"
       \* the handler runs once per command, in the order each remote sent them
       /\ \E r \in Remotes : /\ Q[r] # <<>> /\ Head(Q[r]) = e.tag
                             /\ Q' = [Q EXCEPT ![r] = Tail(@)]
       /\ UNCHANGED <<S, open, pend, unl, minIdx, idx, oblig, alive, sentQ, pos>>
    \/ /\ e.e = "asent"
       /\ sentQ' = [sentQ EXCEPT ![e.t] = Append(@, [v |-> e.v, ow |-> e.ow])]
       /\ UNCHANGED <<S, open, pend, unl, minIdx, idx, oblig, alive, Q, pos>>
    \/ /\ e.e = "aout"
       /\ LET t == e.t
              C == {j \in (pos[t] + 1)..Len(sentQ[t]) : sentQ[t][j].v = e.v} IN
          /\ C # {}                                  \* forwarded once each, in order per target lane
          /\ LET j == MinOf(C) IN
             /\ \A x \in (pos[t] + 1)..(j - 1) : sentQ[t][x].ow    \* only overwritable commands are superseded
             /\ pos' = [pos EXCEPT ![t] = j]
       /\ UNCHANGED <<S, open, pend, unl, minIdx, idx, oblig, alive, Q, sentQ>>
    \/ /\ e.e = "gone"
       /\ alive' = [alive EXCEPT ![e.r] = FALSE]
       /\ UNCHANGED <<S, open, pend, unl, minIdx, idx, oblig, Q, sentQ, pos>>
    \/ /\ e.e = "quiescent"
       /\ \A x \in 1..Len(e.drained) :
             LET r == e.drained[x] IN
             (alive[r] /\ open[r]) => \A o \in oblig[r] : o <= idx[r]          \* every owed item arrived
       /\ \A r \in Remotes : alive[r] => Q[r] = <<>>                           \* every command was handled
       /\ \A t \in Targets :                                                   \* only superseded commands are missing
             /\ \A x \in (pos[t] + 1)..Len(sentQ[t]) : sentQ[t][x].ow
             /\ (sentQ[t] # <<>> /\ e.targets_drained) => pos[t] = Len(sentQ[t])
       /\ UNCHANGED <<S, open, pend, unl, minIdx, idx, oblig, alive, Q, sentQ, pos>>

TraceNext == /\ i <= Len(Rec)
             /\ Step(Rec[i])
             /\ i' = i + 1
             /\ TLCSet(1, Max(TLCGet(1), i + 1))

TraceSpec == TraceInit /\ [][TraceNext]_vars

TraceAccepted ==
    LET m == TLCGet(1) IN
    /\ PrintT(<<"TRACE_RESULT", ToJson([accepted |-> (m = Len(Rec) + 1), matched |-> m - 1, total |-> Len(Rec), kf |-> <<>>])>>)
    /\ m = Len(Rec) + 1
=============================================================================

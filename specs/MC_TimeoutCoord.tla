---------------------------- MODULE MC_TimeoutCoord ----------------------------
EXTENDS TimeoutCoord, Json
\* Prints every transition of the state graph once; lastAct is hidden by the VIEW.
EdgeDump == PrintT(<<"EDGE", ToJson([s |-> View, a |-> lastAct', t |-> View'])>>)
InitDump == (lastAct.k = "init") => PrintT(<<"INIT", ToJson(View)>>)
=============================================================================

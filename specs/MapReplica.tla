------------------------------ MODULE MapReplica ------------------------------
(***************************************************************************)
(* P for C02 ("every subscriber's replica converges to the lane's map"),   *)
(* as pure operators over one record `p`, so that the very same text is    *)
(* used                                                                    *)
(*   - inside MapQueue.tla (B3: the ghost consumers of the mechanism       *)
(*     model are stepped with these operators and TLC checks PAccepts /    *)
(*     Converged in every reachable state), and                            *)
(*   - inside Trace_MapQueue.tla (B1/B2: recorded push/pop streams of the  *)
(*     real queues are folded with them).                                  *)
(*                                                                         *)
(*   p.ref      the lane's map now (0 = no entry)                          *)
(*   p.anyClr   the lane has been cleared at least once                    *)
(*   p.cons[c]  a consumer:                                                *)
(*     active   it is a subscriber (linked)                                *)
(*     rep      its replica = fold of what it received                     *)
(*     adm[k]   the values key k held from the youngest value c can have   *)
(*              seen (the head) up to now, oldest first; 0 = no entry,     *)
(*              CLR = no entry because of a lane clear.  For a consumer    *)
(*              that is not a subscriber: just the current value.          *)
(*     pend     lane clears since c subscribed that c has not received     *)
(*     pre      the lane was cleared before c subscribed and c has not     *)
(*              been told of a clear yet (that report may arrive late)     *)
(*     ok       nothing rejected so far                                    *)
(*                                                                         *)
(* What P demands (and no more):                                           *)
(*  (ii)  per key, the values received are an in-order subsequence of the  *)
(*        values the key held while c was subscribed, starting with the    *)
(*        value at subscription (a received remove = the key having no     *)
(*        entry).  Any amount of coalescing - including none - is allowed, *)
(*        a repeated delivery of the same value is tolerated.              *)
(*  (iii) a received clear is one of the lane's clears, in order, and no   *)
(*        value older than that clear is received after it.  (A value      *)
(*        younger than a clear may arrive before the clear does.)          *)
(*  (i)   at quiescence every subscriber's replica equals the lane's map   *)
(*        (this is what catches a lost clear / remove / last update,       *)
(*        merged distinct keys, split Recon-equal keys).                   *)
(* Matching is greedy (earliest admissible value): every constraint is a   *)
(* lower bound on later matches, so the greedy choice accepts whenever any *)
(* choice does.  Received prefixes are forgotten, so the state is bounded  *)
(* by how far the slowest subscriber lags, not by the length of the run.   *)
(***************************************************************************)
EXTENDS Integers, Sequences, FiniteSets

CLR == -1
PZero(keys) == [k \in keys |-> 0]

PCons(keys, act, ref) ==
    [active |-> act, rep |-> PZero(keys), adm |-> [k \in keys |-> << ref[k] >>], pend |-> 0, pre |-> FALSE, ok |-> TRUE]

PInit(keys, consumers, active) ==
    [ref    |-> PZero(keys),
     anyClr |-> FALSE,
     cons   |-> [c \in consumers |-> PCons(keys, c \in active, PZero(keys))]]

PKeys(p) == DOMAIN p.ref

\* ---- the lane -----------------------------------------------------------
\* key k now holds v (v = 0: its entry was removed; a remove of an absent key is recorded too:
\* the consumer may legitimately be told about it)
\* (a value equal to the youngest one adds nothing that could be matched: not recorded twice)
PAbsent(x) == x = 0 \/ x = CLR
PAppend(a, v) == IF a[Len(a)] = v \/ (v = 0 /\ PAbsent(a[Len(a)])) THEN a ELSE Append(a, v)
PLaneUpd(p, k, v) ==
    [p EXCEPT !.ref[k] = v,
              !.cons = [c \in DOMAIN p.cons |->
                          IF p.cons[c].active THEN [p.cons[c] EXCEPT !.adm[k] = PAppend(@, v)]
                          ELSE [p.cons[c] EXCEPT !.adm[k] = << v >>]]]

PLaneRem(p, k) == PLaneUpd(p, k, 0)

PLaneClr(p) ==
    [p EXCEPT !.ref = PZero(PKeys(p)),
              !.anyClr = TRUE,
              !.cons = [c \in DOMAIN p.cons |->
                          IF p.cons[c].active
                          THEN [p.cons[c] EXCEPT !.adm = [k \in PKeys(p) |-> Append(p.cons[c].adm[k], CLR)],
                                                 !.pend = @ + 1]
                          ELSE [p.cons[c] EXCEPT !.adm = [k \in PKeys(p) |-> << 0 >>]]]]

RECURSIVE PLaneRemAll(_, _)
PLaneRemAll(p, ks) == IF ks = << >> THEN p ELSE PLaneRemAll(PLaneRem(p, Head(ks)), Tail(ks))

\* c subscribes with an empty replica: it is told everything from the current values on
\* (the report of a clear that happened just before may still be on its way to the subscribers: pre)
PLink(p, c) == [p EXCEPT !.cons[c].active = TRUE, !.cons[c].rep = PZero(PKeys(p)), !.cons[c].pend = 0,
                         !.cons[c].pre = p.anyClr]

\* ---- a consumer receives one operation ------------------------------------
PMinOf(S) == CHOOSE x \in S : \A y \in S : x <= y
PFrom(s, i) == SubSeq(s, i, Len(s))
PClrCount(s) == Cardinality({i \in DOMAIN s : s[i] = CLR})

PObsKeyed(p, c, k, v) ==
    LET a == p.cons[c].adm[k]
        want == IF v = 0 THEN {0, CLR} ELSE {v}
        cand == {i \in DOMAIN a : a[i] \in want}
    IN IF cand = {} THEN [p EXCEPT !.cons[c].ok = FALSE, !.cons[c].rep[k] = v]
       ELSE [p EXCEPT !.cons[c].adm[k] = PFrom(a, PMinOf(cand)), !.cons[c].rep[k] = v]

PObsClr(p, c) ==
    LET n == p.cons[c].pend IN
    IF p.cons[c].pre
    THEN \* the lane's last clear before c subscribed, reported late: older than everything c may see
         [p EXCEPT !.cons[c].pre = FALSE, !.cons[c].rep = PZero(PKeys(p))]
    ELSE IF n = 0
    THEN \* no clear outstanding: tolerated only as a repetition of an earlier lane clear
         [p EXCEPT !.cons[c].ok = @ /\ p.anyClr, !.cons[c].rep = PZero(PKeys(p))]
    ELSE \* the oldest outstanding clear: every key that has not already moved past it moves onto it
         [p EXCEPT !.cons[c].pend = n - 1,
                   !.cons[c].rep = PZero(PKeys(p)),
                   !.cons[c].adm = [k \in PKeys(p) |->
                        LET a == p.cons[c].adm[k] IN
                        IF PClrCount(Tail(a)) = n
                        THEN PFrom(a, PMinOf({i \in 2..Len(a) : a[i] = CLR}))
                        ELSE a]]

\* op = "upd" | "rem" | "clr"; k, v ignored where they do not apply.
\* A key outside the lane's key space / a value of 0 for an update is rejected.
PObs(p, c, op, k, v) ==
    IF ~p.cons[c].active THEN [p EXCEPT !.cons[c].ok = FALSE]
    ELSE IF op = "clr" THEN PObsClr(p, c)
    ELSE IF k \notin PKeys(p) THEN [p EXCEPT !.cons[c].ok = FALSE]
    ELSE IF op = "upd" THEN (IF v <= 0 THEN [p EXCEPT !.cons[c].ok = FALSE] ELSE PObsKeyed(p, c, k, v))
    ELSE IF op = "rem" THEN PObsKeyed(p, c, k, 0)
    ELSE [p EXCEPT !.cons[c].ok = FALSE]

\* how far the slowest subscriber lags: outstanding values summed over the keys
\* (state constraint for model checking)
RECURSIVE PSum(_, _)
PSum(f, S) == IF S = {} THEN 0 ELSE LET x == CHOOSE y \in S : TRUE IN f[x] + PSum(f, S \ {x})
PLagOf(p, c) == PSum([k \in PKeys(p) |-> Len(p.cons[c].adm[k]) - 1], PKeys(p))
PLag(p) == LET S == {PLagOf(p, c) : c \in DOMAIN p.cons} IN CHOOSE x \in S : \A y \in S : y <= x

\* ---- verdicts -----------------------------------------------------------------
PAllOk(p) == \A c \in DOMAIN p.cons : p.cons[c].ok
PConverged(p, c) == p.cons[c].active => p.cons[c].rep = p.ref
PQuiet(p) == \A c \in DOMAIN p.cons : PConverged(p, c)

-----------------------------------------------------------------------------
(* Take / drop: the documented result.  Keys are ranks in the documented     *)
(* key order (the order of their Recon model representations).               *)
PSorted(S) == [i \in 1..Cardinality(S) |-> CHOOSE x \in S : Cardinality({y \in S : y < x}) = i - 1]
PMin(a, b) == IF a < b THEN a ELSE b

\* the keys a drop(n) / take(n) command removes, in the order the lane removes them
TDRemoved(S, kind, n) ==
    LET s == PSorted(S)  m == PMin(n, Len(s)) IN
    IF kind = "drop" THEN SubSeq(s, 1, m) ELSE SubSeq(s, m + 1, Len(s))

\* P for take / drop: "drop(n) removes the first n keys, take(n) keeps the first n keys"
TDLaw(S, kind, n, removed) ==
    LET kept == S \ removed IN
    /\ removed \subseteq S
    /\ kind = "drop" => /\ Cardinality(removed) = PMin(n, Cardinality(S))
                        /\ \A r \in removed, k \in kept : r < k
    /\ kind = "take" => /\ Cardinality(kept) = PMin(n, Cardinality(S))
                        /\ \A r \in removed, k \in kept : k < r
=============================================================================

------------------------------ MODULE MapReplica ------------------------------
(***************************************************************************)
(* P for C02 ("every subscriber's replica converges to the lane's map"),   *)
(* as pure operators over one record `p`, so that the very same text is    *)
(* used                                                                    *)
(*   - inside MapQueue.tla (B3: the ghost consumers of the mechanism       *)
(*     model are stepped with these operators and TLC checks PAccepts /    *)
(*     Converged in every reachable state), and                            *)
(*   - inside Trace_MapQueue.tla (B1/B2: recorded push/pop streams of the  *)
(*     real queues are folded with them).                                  *)
(*                                                                         *)
(*   p.now      stamp of the last lane write                               *)
(*   p.hist[k]  the values key k held: <<[t |-> stamp, v |-> value]>>,     *)
(*              value 0 = absent; starts with [t |-> 0, v |-> 0]           *)
(*   p.clears   stamps of the lane's clear operations                      *)
(*   p.ref      the lane's map now (0 = absent)                            *)
(*   p.cons[c]  a consumer: active, rep (its replica = fold of what it     *)
(*              received), seen[k] (stamp of the youngest value of k it    *)
(*              can have seen), lastClr, ok (nothing rejected so far)      *)
(*                                                                         *)
(* What P demands (and no more):                                           *)
(*  (ii)  per key, the values received are an in-order subsequence of the  *)
(*        values the key held (a received remove = the key being absent).  *)
(*        Any amount of coalescing - including none - is allowed, a        *)
(*        repeated delivery of the same value is tolerated.                *)
(*  (iii) a received clear is one of the lane's clears, in order, and no   *)
(*        value older than that clear is received after it.                *)
(*  (i)   at quiescence every active consumer's replica equals the lane's  *)
(*        map (this is what catches a lost clear / remove / last update,   *)
(*        merged distinct keys, split Recon-equal keys).                   *)
(* Matching is greedy (earliest admissible write): every constraint is a   *)
(* lower bound on later matches, so the greedy choice accepts whenever any *)
(* choice does.                                                            *)
(***************************************************************************)
EXTENDS Naturals, Sequences, FiniteSets

PMax(a, b) == IF a > b THEN a ELSE b

PFreshCons(keys, act) ==
    [active |-> act, rep |-> [k \in keys |-> 0], seen |-> [k \in keys |-> 0], lastClr |-> 0, ok |-> TRUE]

PInit(keys, consumers, active) ==
    [now    |-> 0,
     hist   |-> [k \in keys |-> << [t |-> 0, v |-> 0] >>],
     clears |-> << >>,
     ref    |-> [k \in keys |-> 0],
     cons   |-> [c \in consumers |-> PFreshCons(keys, c \in active)]]

PKeys(p) == DOMAIN p.ref

\* ---- the lane -----------------------------------------------------------
PLaneUpd(p, k, v) ==
    [p EXCEPT !.now = @ + 1, !.hist[k] = Append(@, [t |-> p.now + 1, v |-> v]), !.ref[k] = v]

\* (a remove of an absent key is recorded too: the consumer may legitimately be told about it)
PLaneRem(p, k) == PLaneUpd(p, k, 0)

PLaneClr(p) ==
    [p EXCEPT !.now = @ + 1,
              !.hist = [k \in PKeys(p) |-> Append(p.hist[k], [t |-> p.now + 1, v |-> 0])],
              !.clears = Append(@, p.now + 1),
              !.ref = [k \in PKeys(p) |-> 0]]

RECURSIVE PLaneRemAll(_, _)
PLaneRemAll(p, ks) == IF ks = << >> THEN p ELSE PLaneRemAll(PLaneRem(p, Head(ks)), Tail(ks))

\* a consumer (re)starts with an empty replica: it is told everything from now on
PLink(p, c) == [p EXCEPT !.cons[c] = PFreshCons(PKeys(p), TRUE)]

\* ---- a consumer receives one operation ------------------------------------
PMatchIdx(p, c, k, v) == {i \in DOMAIN p.hist[k] : p.hist[k][i].t >= p.cons[c].seen[k] /\ p.hist[k][i].v = v}
PMinOf(S) == CHOOSE x \in S : \A y \in S : x <= y

PObsKeyed(p, c, k, v) ==
    LET cand == PMatchIdx(p, c, k, v) IN
    IF cand = {} THEN [p EXCEPT !.cons[c].ok = FALSE, !.cons[c].rep[k] = v]
    ELSE [p EXCEPT !.cons[c].seen[k] = p.hist[k][PMinOf(cand)].t, !.cons[c].rep[k] = v]

PObsClr(p, c) ==
    LET cand == {i \in DOMAIN p.clears : p.clears[i] >= p.cons[c].lastClr} IN
    IF cand = {} THEN [p EXCEPT !.cons[c].ok = FALSE, !.cons[c].rep = [k \in PKeys(p) |-> 0]]
    ELSE LET t == p.clears[PMinOf(cand)] IN
         [p EXCEPT !.cons[c].lastClr = t,
                   !.cons[c].seen = [k \in PKeys(p) |-> PMax(p.cons[c].seen[k], t)],
                   !.cons[c].rep = [k \in PKeys(p) |-> 0]]

\* op = "upd" | "rem" | "clr"; k, v ignored where they do not apply.
\* A key outside the lane's key space / a value of 0 for an update is rejected.
PObs(p, c, op, k, v) ==
    IF ~p.cons[c].active THEN [p EXCEPT !.cons[c].ok = FALSE]
    ELSE IF op = "clr" THEN PObsClr(p, c)
    ELSE IF k \notin PKeys(p) THEN [p EXCEPT !.cons[c].ok = FALSE]
    ELSE IF op = "upd" THEN (IF v = 0 THEN [p EXCEPT !.cons[c].ok = FALSE] ELSE PObsKeyed(p, c, k, v))
    ELSE IF op = "rem" THEN PObsKeyed(p, c, k, 0)
    ELSE [p EXCEPT !.cons[c].ok = FALSE]

\* ---- verdicts -----------------------------------------------------------------
PAllOk(p) == \A c \in DOMAIN p.cons : p.cons[c].ok
PConverged(p, c) == p.cons[c].active => p.cons[c].rep = p.ref
PQuiet(p) == \A c \in DOMAIN p.cons : PConverged(p, c)

-----------------------------------------------------------------------------
(* Take / drop: the documented result.  Keys are ranks in the documented     *)
(* key order (the order of their Recon model representations).               *)
PSorted(S) == [i \in 1..Cardinality(S) |-> CHOOSE x \in S : Cardinality({y \in S : y < x}) = i - 1]
PMin(a, b) == IF a < b THEN a ELSE b

\* the keys a drop(n) / take(n) command removes, in the order the lane removes them
TDRemoved(S, kind, n) ==
    LET s == PSorted(S)  m == PMin(n, Len(s)) IN
    IF kind = "drop" THEN SubSeq(s, 1, m) ELSE SubSeq(s, m + 1, Len(s))

\* P for take / drop: "drop(n) removes the first n keys, take(n) keeps the first n keys"
TDLaw(S, kind, n, removed) ==
    LET kept == S \ removed IN
    /\ removed \subseteq S
    /\ kind = "drop" => /\ Cardinality(removed) = PMin(n, Cardinality(S))
                        /\ \A r \in removed, k \in kept : r < k
    /\ kind = "take" => /\ Cardinality(kept) = PMin(n, Cardinality(S))
                        /\ \A r \in removed, k \in kept : k < r
=============================================================================

----------------------------- MODULE Trace_Demand -----------------------------
(***************************************************************************)
(* P for the stateless lanes of an agent - the demand lane "dem" and the   *)
(* demand-map lane "dmap" of the configuration E agent - as a trace        *)
(* specification over the log of configuration E (real agent + runtime).   *)
(* A demand lane holds no state: it computes a value when it is cued by    *)
(* the agent's handlers or asked to sync (on_cue / keys / on_cue_key run), *)
(* and sends what it computed.  Events (projected by checks/e_lanes2.py):  *)
(*   reset                    a new scenario / the agent was restarted     *)
(*   cue v                    on_cue of "dem" ran and computed v           *)
(*   cuei lane [k]            the handlers executed `cue dem` / `cuek dmap k` *)
(*   keys keys:[k...]         the keys handler of "dmap" ran                *)
(*   cuekey k v               on_cue_key(k) of "dmap" ran; v = -1: no value *)
(*   req r lane op            remote r sent link | sync | unlink            *)
(*   frame r lane kind ...    remote r received linked | event | synced |   *)
(*                            unlinked; dem: v; dmap: m = upd|rem, k, [v]   *)
(*   stopping | gone r | quiescent drained:[r...]                           *)
(* C is the sequence of values "dem" computed, K the sequence of (key,      *)
(* value) results "dmap" computed.  Every event a linked remote receives is *)
(* matched to a computation: dem - the earliest position not before the     *)
(* previous match (one computation may serve a sync and a cue); dmap - per  *)
(* key the earliest position after the previous match (every computation    *)
(* is sent at most once to a remote).  Greedy matching is complete for      *)
(* subsequences, so a trace is rejected exactly when what a remote received *)
(* is not an in-order selection of what the lane computed.                  *)
(* How far the runtime has got with a remote's requests (the start of a     *)
(* link episode) is hidden state inferred by TLC exactly as in              *)
(* Trace_ValueView.tla (cq, sq, rlk, fq, HCoord, HSync).                    *)
(***************************************************************************)
EXTENDS Naturals, Integers, Sequences, FiniteSets, TLC, Json, IOUtils

CONSTANTS Remotes, Keys,
          EnabledFindings   \* ids of the open known findings whose deviation actions are enabled

Rec == ndJsonDeserialize(IOEnv.TRACE)

DL == {"dem", "dmap"}

VARIABLES i,
          C,        \* values computed by on_cue of "dem"
          K,        \* [k, v] results computed by on_cue_key of "dmap" (v = -1: no value)
          KS,       \* results of the keys handler of "dmap": [ks |-> set of keys, pos |-> Len(K) when it ran, at |-> where in the trace]
          open,     \* [r][l] r has read linked (and not unlinked since)
          alive, stopping,
          owed,     \* [r][l] r asked to sync and has not read a synced since
          everUnl,  \* [r][l] r has asked to be unlinked at some time
          cut,      \* [r][l] r read unlinked while a sync of its own was outstanding: the answer to that sync is spread
                    \*         over two link episodes (the remote asked for it), no snapshot is owed at synced
          \* hidden request processing (see Trace_ValueView.tla)
          cq, sq, rlk, fq,
          \* dem
          dLast,    \* [r] position in C of the last event matched
          dHas,     \* [r] 0, or the position in the trace of the last event r received in the present episode
          dV,       \* [r] the last value received
          dDue,     \* [r] [p, at]: p = 0, or a cue instruction ran (at position `at` of the trace) while r was linked and r
                    \*     is owed an event computed at position >= p of C (which it can only read after `at`)
          nEv,      \* [r] events received on "dem"
          nCue,     \* [r] -1: r never asked to be linked; else the cue instructions executed since it first asked
          nSync,    \* [r] sync requests sent for "dem"
          \* dmap
          mLast,    \* [r][k] position in K of the last event matched for key k
          mFloor,   \* [r] nothing older than this position in the present episode
          mV,       \* [r][k] [v, at]: what r last received for k in the present episode (-1 removed, -2 nothing), and where
                    \*        in the trace
          mDue,     \* [r][k] as dDue, per key
          mFresh,   \* [r] the outstanding sync was requested while r was neither linked nor linking
          wcue,     \* [r] keys cued by an instruction while a sync of r was outstanding
          kf        \* known-finding deviations taken on this path
hid == <<cq, sq, rlk, fq>>
logv == <<C, K, KS>>
demv == <<dLast, dHas, dV, dDue, nEv, nCue, nSync>>
mapv == <<mLast, mFloor, mV, mDue, mFresh, wcue>>
vars == <<i, C, K, KS, open, alive, stopping, owed, everUnl, cut, cq, sq, rlk, fq,
          dLast, dHas, dV, dDue, nEv, nCue, nSync, mLast, mFloor, mV, mDue, mFresh, wcue, kf>>

Has(e, f) == f \in DOMAIN e
Max(a, b) == IF a > b THEN a ELSE b
MinOf(S) == CHOOSE p \in S : \A q \in S : p <= q
MaxOf(S) == CHOOSE p \in S : \A q \in S : p >= q
RL(x) == [r \in Remotes |-> [l \in DL |-> x]]
R(x) == [r \in Remotes |-> x]
RK(x) == [r \in Remotes |-> [k \in Keys |-> x]]
Pos(l) == IF l = "dem" THEN Len(C) ELSE Len(K)
NoDue == [p |-> 0, at |-> 0]
NoV == [v |-> -2, at |-> 0]

Fresh ==
    /\ C = <<>> /\ K = <<>> /\ KS = <<>>
    /\ open = RL(FALSE) /\ alive = R(TRUE) /\ stopping = FALSE /\ owed = RL(FALSE) /\ everUnl = RL(FALSE) /\ cut = RL(FALSE)
    /\ cq = RL(<<>>) /\ sq = RL(<<>>) /\ rlk = RL(FALSE) /\ fq = RL(<<>>)
    /\ dLast = R(0) /\ dHas = R(0) /\ dV = R(0) /\ dDue = R(NoDue) /\ nEv = R(0) /\ nCue = R(-1) /\ nSync = R(0)
    /\ mLast = RK(0) /\ mFloor = R(0) /\ mV = RK(NoV) /\ mDue = RK(NoDue) /\ mFresh = R(FALSE) /\ wcue = R({})
FreshP ==
    /\ C' = <<>> /\ K' = <<>> /\ KS' = <<>>
    /\ open' = RL(FALSE) /\ alive' = R(TRUE) /\ stopping' = FALSE /\ owed' = RL(FALSE) /\ everUnl' = RL(FALSE) /\ cut' = RL(FALSE)
    /\ cq' = RL(<<>>) /\ sq' = RL(<<>>) /\ rlk' = RL(FALSE) /\ fq' = RL(<<>>)
    /\ dLast' = R(0) /\ dHas' = R(0) /\ dV' = R(0) /\ dDue' = R(NoDue) /\ nEv' = R(0) /\ nCue' = R(-1) /\ nSync' = R(0)
    /\ mLast' = RK(0) /\ mFloor' = R(0) /\ mV' = RK(NoV) /\ mDue' = RK(NoDue) /\ mFresh' = R(FALSE) /\ wcue' = R({})

TraceInit == i = 1 /\ Fresh /\ kf = {}
             /\ TLCSet(1, 1) /\ TLCSet(2, {}) /\ TLCSet(3, 0) /\ TLCSet(4, {})

Deviate(id) == kf' = kf \cup {id} /\ TLCSet(4, TLCGet(4) \cup {id})

\* dem: earliest position p >= from holding v (0 if none); latest position holding v (0 if none)
MatchC(from, v) ==
    LET S == {p \in Max(from, 1)..Len(C) : C[p] = v} IN IF S = {} THEN 0 ELSE MinOf(S)
LatestC(v) ==
    LET S == {p \in 1..Len(C) : C[p] = v} IN IF S = {} THEN 0 ELSE MaxOf(S)
\* dmap: earliest position p > after, p >= floor holding (k, v); latest position holding (k, v)
MatchK(k, v, after, floor) ==
    LET S == {p \in 1..Len(K) : p > after /\ p >= floor /\ K[p].k = k /\ K[p].v = v} IN IF S = {} THEN 0 ELSE MinOf(S)
LatestK(k, v) ==
    LET S == {p \in 1..Len(K) : K[p].k = k /\ K[p].v = v} IN IF S = {} THEN 0 ELSE MaxOf(S)
\* the newest computation that what r holds for k can stem from
Got(r, k) == IF mV[r][k].v = -2 THEN 0 ELSE LatestK(k, mV[r][k].v)

(***************************************************************************)
(* Steps of the runtime that the log does not show.                        *)
(***************************************************************************)
\* the write task takes r's next link / unlink request: link always answers linked; unlink answers unlinked
\* only if r is linked
HCoord(r, l) ==
    /\ cq[r][l] # <<>>
    /\ LET h == Head(cq[r][l]) IN
       /\ cq' = [cq EXCEPT ![r][l] = Tail(@)]
       /\ IF h.op = "link"
            THEN /\ rlk' = [rlk EXCEPT ![r][l] = TRUE]
                 /\ fq' = [fq EXCEPT ![r][l] = Append(@, [k |-> "linked", pos |-> h.pos])]
            ELSE /\ rlk' = [rlk EXCEPT ![r][l] = FALSE]
                 /\ fq' = IF rlk[r][l] THEN [fq EXCEPT ![r][l] = Append(@, [k |-> "unlinked", pos |-> 0])] ELSE fq
    /\ UNCHANGED sq
\* the answer of the lane to a sync request of r reaches the write task while r is not linked: r is linked
\* (the oldest outstanding sync gives the weakest bound on where the lane was)
HSync(r, l) ==
    /\ sq[r][l] # <<>> /\ ~rlk[r][l]
    /\ rlk' = [rlk EXCEPT ![r][l] = TRUE]
    /\ fq' = [fq EXCEPT ![r][l] = Append(@, [k |-> "linked", pos |-> Head(sq[r][l]).pos])]
    /\ UNCHANGED <<cq, sq>>

(***************************************************************************)
(* dmap: what a remote must hold when it is told synced.  The sync was     *)
(* served by some run of the keys handler after the request (KS[j]); for   *)
(* every key of its result the lane computed the entry afterwards, and      *)
(* either there was no value (nothing is sent for the sync, a remove for a  *)
(* cue) or r received that computation or a later one for the key.          *)
(***************************************************************************)
Covered(r, k, pos, at) == \E p \in (pos + 1)..Len(K) : K[p].k = k /\ (K[p].v = -1 \/ (Got(r, k) >= p /\ mV[r][k].at > at))
Uncovered(r, j) == {k \in KS[j].ks \cap Keys : ~Covered(r, k, KS[j].pos, KS[j].at)}

Step(e) ==
    \/ /\ e.e = "reset" /\ FreshP /\ UNCHANGED kf
    \* ---------------------------------------------------------------- what the lanes computed, what the handlers asked for
    \/ /\ e.e = "cue"
       /\ C' = Append(C, e.v)
       /\ UNCHANGED <<K, KS, open, alive, stopping, owed, everUnl, cut, hid, demv, mapv, kf>>
    \/ /\ e.e = "cuei" /\ e.lane = "dem"
       /\ nCue' = [r \in Remotes |-> IF nCue[r] >= 0 THEN nCue[r] + 1 ELSE nCue[r]]
       \* every remote that has read linked is owed an event computed from now on
       /\ dDue' = [r \in Remotes |-> IF open[r]["dem"] THEN [p |-> Len(C) + 1, at |-> i] ELSE dDue[r]]
       /\ UNCHANGED <<logv, open, alive, stopping, owed, everUnl, cut, hid, dLast, dHas, dV, nEv, nSync, mapv, kf>>
    \/ /\ e.e = "cuei" /\ e.lane = "dmap" /\ e.k \in Keys
       /\ mDue' = [r \in Remotes |-> IF open[r]["dmap"] THEN [mDue[r] EXCEPT ![e.k] = [p |-> Len(K) + 1, at |-> i]] ELSE mDue[r]]
       /\ wcue' = [r \in Remotes |-> IF sq[r]["dmap"] # <<>> THEN wcue[r] \cup {e.k} ELSE wcue[r]]
       /\ UNCHANGED <<logv, open, alive, stopping, owed, everUnl, cut, hid, demv, mLast, mFloor, mV, mFresh, kf>>
    \/ /\ e.e = "keys"
       /\ KS' = Append(KS, [ks |-> {e.keys[x] : x \in 1..Len(e.keys)}, pos |-> Len(K), at |-> i])
       /\ UNCHANGED <<C, K, open, alive, stopping, owed, everUnl, cut, hid, demv, mapv, kf>>
    \/ /\ e.e = "cuekey"
       /\ K' = Append(K, [k |-> e.k, v |-> e.v])
       /\ UNCHANGED <<C, KS, open, alive, stopping, owed, everUnl, cut, hid, demv, mapv, kf>>
    \* ---------------------------------------------------------------- requests
    \/ /\ e.e = "req" /\ e.lane \in DL /\ e.op = "link"
       /\ cq' = [cq EXCEPT ![e.r][e.lane] = Append(@, [op |-> "link", pos |-> Pos(e.lane)])]
       /\ nCue' = IF e.lane = "dem" /\ nCue[e.r] < 0 THEN [nCue EXCEPT ![e.r] = 0] ELSE nCue
       /\ UNCHANGED <<logv, open, alive, stopping, owed, everUnl, cut, sq, rlk, fq, dLast, dHas, dV, dDue, nEv, nSync, mapv, kf>>
    \/ /\ e.e = "req" /\ e.lane \in DL /\ e.op = "sync"
       /\ LET r == e.r  l == e.lane
              \* r will not be linked when the runtime has dealt with its earlier requests (it never asked to be, or
              \* asked to be unlinked since) and no earlier sync of its own is outstanding
              willBeLinked == IF cq[r][l] # <<>> THEN cq[r][l][Len(cq[r][l])].op = "link"
                                                 ELSE (rlk[r][l] \/ open[r][l])
              first == sq[r][l] = <<>> IN
          /\ sq' = [sq EXCEPT ![r][l] = Append(@, [pos |-> Pos(l), kpos |-> Len(KS), at |-> i])]
          /\ owed' = [owed EXCEPT ![r][l] = TRUE]
          /\ cut' = IF first THEN [cut EXCEPT ![r][l] = FALSE] ELSE cut
          /\ nSync' = IF l = "dem" THEN [nSync EXCEPT ![r] = @ + 1] ELSE nSync
          /\ nCue' = IF l = "dem" /\ nCue[r] < 0 THEN [nCue EXCEPT ![r] = 0] ELSE nCue
          /\ mFresh' = IF l = "dmap" /\ first THEN [mFresh EXCEPT ![r] = ~willBeLinked] ELSE mFresh
          /\ wcue' = IF l = "dmap" /\ first THEN [wcue EXCEPT ![r] = {}] ELSE wcue
       /\ UNCHANGED <<logv, open, alive, stopping, everUnl, cq, rlk, fq, dLast, dHas, dV, dDue, nEv, mLast, mFloor, mV, mDue, kf>>
    \/ /\ e.e = "req" /\ e.lane \in DL /\ e.op = "unlink"
       /\ cq' = [cq EXCEPT ![e.r][e.lane] = Append(@, [op |-> "unlink", pos |-> 0])]
       /\ everUnl' = [everUnl EXCEPT ![e.r][e.lane] = TRUE]
       /\ UNCHANGED <<logv, open, alive, stopping, owed, cut, sq, rlk, fq, demv, mapv, kf>>
    \* ---------------------------------------------------------------- frames
    \/ /\ e.e = "frame" /\ e.lane \in DL /\ e.kind = "linked"
       /\ LET r == e.r  l == e.lane IN
          /\ fq[r][l] # <<>> /\ Head(fq[r][l]).k = "linked"
          /\ fq' = [fq EXCEPT ![r][l] = Tail(@)]
          /\ open' = [open EXCEPT ![r][l] = TRUE]
          /\ IF open[r][l] \/ l # "dem" THEN UNCHANGED <<dLast, dHas, dDue>>
             ELSE \* a new episode: nothing older than what the lane had computed when the request that opened it was sent
                  /\ dLast' = [dLast EXCEPT ![r] = Max(@, Head(fq[r][l]).pos)]
                  /\ dHas' = [dHas EXCEPT ![r] = 0]
                  /\ dDue' = [dDue EXCEPT ![r] = NoDue]
          /\ IF open[r][l] \/ l # "dmap" THEN UNCHANGED <<mFloor, mV, mDue>>
             ELSE /\ mFloor' = [mFloor EXCEPT ![r] = Max(@, Head(fq[r][l]).pos)]
                  /\ mV' = [mV EXCEPT ![r] = [k \in Keys |-> NoV]]
                  /\ mDue' = [mDue EXCEPT ![r] = [k \in Keys |-> NoDue]]
       /\ UNCHANGED <<logv, alive, stopping, owed, everUnl, cut, cq, sq, rlk, dV, nEv, nCue, nSync, mLast, mFresh, wcue, kf>>
    \/ /\ e.e = "frame" /\ e.lane = "dem" /\ e.kind = "event"
       /\ LET r == e.r IN
          IF ~open[r]["dem"]
            THEN UNCHANGED <<dLast, dHas, dV, nEv>>         \* outside a link: the link state machine's business (C04)
            ELSE /\ ~Has(e, "bad")                          \* never invented: a value on_cue computed ...
                 /\ LET p == MatchC(dLast[r], e.v) IN
                    /\ p > 0                                \* ... at or after the previous one (never reordered, never older than the link)
                    /\ dLast' = [dLast EXCEPT ![r] = p]
                 /\ nEv[r] < Max(nCue[r], 0) + nSync[r]    \* no state: at most one event per cue (since r first asked), one per sync of r's own
                 /\ nEv' = [nEv EXCEPT ![r] = @ + 1]
                 /\ dV' = [dV EXCEPT ![r] = e.v]
                 /\ dHas' = [dHas EXCEPT ![r] = i]
       /\ UNCHANGED <<logv, open, alive, stopping, owed, everUnl, cut, hid, dDue, nCue, nSync, mapv, kf>>
    \/ /\ e.e = "frame" /\ e.lane = "dmap" /\ e.kind = "event"
       /\ LET r == e.r IN
          IF ~open[r]["dmap"]
            THEN UNCHANGED <<mLast, mV>>
            ELSE /\ ~Has(e, "bad") /\ e.m \in {"upd", "rem"} /\ e.k \in Keys
                 /\ (e.m = "upd" => e.v >= 0)
                 /\ LET v == IF e.m = "upd" THEN e.v ELSE -1
                        p == MatchK(e.k, v, mLast[r][e.k], mFloor[r]) IN
                    /\ p > 0             \* a result on_cue_key computed for this key, newer than what was already received
                    /\ mLast' = [mLast EXCEPT ![r][e.k] = p]
                    /\ mV' = [mV EXCEPT ![r][e.k] = [v |-> v, at |-> i]]
       /\ UNCHANGED <<logv, open, alive, stopping, owed, everUnl, cut, hid, demv, mFloor, mDue, mFresh, wcue, kf>>
    \/ /\ e.e = "frame" /\ e.lane \in DL /\ e.kind = "synced"
       /\ LET r == e.r  l == e.lane IN
          /\ IF open[r][l] /\ sq[r][l] # <<>> /\ ~cut[r][l]
               THEN LET h == Head(sq[r][l]) IN
                    IF l = "dem"
                      THEN \* the remote holds a value computed after it asked (which it can only have read after it asked)
                           /\ dHas[r] > h.at /\ LatestC(dV[r]) > h.pos
                           /\ UNCHANGED kf
                      ELSE LET Js == (h.kpos + 1)..Len(KS) IN
                           IF \E j \in Js : Uncovered(r, j) = {}
                             THEN UNCHANGED kf
                             ELSE \* Known finding F5 (deviation, only while listed as open): r asked to sync without being
                                  \* linked; a key cued meanwhile is computed and broadcast before r is linked in the runtime,
                                  \* and WriteQueues::update_sync_queues removes it from r's sync.  Only a cued key is excused.
                                  /\ "F5" \in EnabledFindings /\ mFresh[r]
                                  /\ \E j \in Js : Uncovered(r, j) \subseteq wcue[r]
                                  /\ Deviate("F5")
               ELSE UNCHANGED kf
          /\ owed' = [owed EXCEPT ![r][l] = FALSE]
          /\ sq' = [sq EXCEPT ![r][l] = IF @ # <<>> THEN Tail(@) ELSE @]     \* the oldest outstanding sync is answered
       /\ UNCHANGED <<logv, open, alive, stopping, everUnl, cut, cq, rlk, fq, demv, mapv>>
    \/ /\ e.e = "frame" /\ e.lane \in DL /\ e.kind = "unlinked"
       \* the episode is over: its obligations end with it (positions stay monotone across episodes)
       /\ LET r == e.r  l == e.lane IN
          /\ IF fq[r][l] # <<>>
               THEN /\ Head(fq[r][l]).k = "unlinked"              \* the answer to an unlink request
                    /\ fq' = [fq EXCEPT ![r][l] = Tail(@)]
                    /\ UNCHANGED <<cq, sq, rlk>>
               ELSE /\ stopping                                   \* the agent stops: every link is closed
                    /\ cq' = [cq EXCEPT ![r][l] = <<>>] /\ sq' = [sq EXCEPT ![r][l] = <<>>]
                    /\ rlk' = [rlk EXCEPT ![r][l] = FALSE] /\ UNCHANGED fq
          /\ open' = [open EXCEPT ![r][l] = FALSE]
          /\ cut' = IF sq[r][l] # <<>> THEN [cut EXCEPT ![r][l] = TRUE] ELSE cut
          /\ IF l = "dem" THEN /\ dHas' = [dHas EXCEPT ![r] = 0] /\ dDue' = [dDue EXCEPT ![r] = NoDue]
                               /\ UNCHANGED <<mV, mDue>>
                          ELSE /\ mV' = [mV EXCEPT ![r] = [k \in Keys |-> NoV]]
                               /\ mDue' = [mDue EXCEPT ![r] = [k \in Keys |-> NoDue]]
                               /\ UNCHANGED <<dHas, dDue>>
       /\ UNCHANGED <<logv, alive, stopping, owed, everUnl, dLast, dV, nEv, nCue, nSync, mLast, mFloor, mFresh, wcue, kf>>
    \* ---------------------------------------------------------------- environment
    \/ /\ e.e = "stopping"
       /\ stopping' = TRUE
       /\ UNCHANGED <<logv, open, alive, owed, everUnl, cut, hid, demv, mapv, kf>>
    \/ /\ e.e = "gone"
       /\ alive' = [alive EXCEPT ![e.r] = FALSE]
       /\ UNCHANGED <<logv, open, stopping, owed, everUnl, cut, hid, demv, mapv, kf>>
    \/ /\ e.e = "quiescent"
       /\ LET D == {e.drained[x] : x \in 1..Len(e.drained)}
              A == {r \in D : alive[r]}
              \* never stale: a cue instruction ran while r was linked - r holds something computed since
              \* (an event read after the instruction ran, carrying a value computed after it ran)
              demStale == {r \in A : open[r]["dem"] /\ dDue[r].p > 0 /\ ~(dHas[r] > dDue[r].at /\ LatestC(dV[r]) >= dDue[r].p)}
              mapStale == {r \in A : open[r]["dmap"] /\ \E k \in Keys : mDue[r][k].p > 0 /\ ~(mV[r][k].at > mDue[r][k].at /\ Got(r, k) >= mDue[r][k].p)}
              \* every sync is answered (as in Trace_LinkProtocol: unless the remote also asked to be unlinked)
              demOwed == {r \in A : owed[r]["dem"] /\ ~everUnl[r]["dem"]}
              mapOwed == {r \in A : owed[r]["dmap"] /\ ~everUnl[r]["dmap"]} IN
          /\ stopping \/ (demStale = {} /\ demOwed = {} /\ mapStale = {} /\ mapOwed = {})
          \* nothing is in flight: every request of a drained remote has been dealt with
          /\ cq' = [r \in Remotes |-> IF r \in D THEN [l \in DL |-> <<>>] ELSE cq[r]]
          /\ sq' = [r \in Remotes |-> IF r \in D THEN [l \in DL |-> <<>>] ELSE sq[r]]
          /\ fq' = [r \in Remotes |-> IF r \in D THEN [l \in DL |-> <<>>] ELSE fq[r]]
          /\ rlk' = [r \in Remotes |-> IF r \in D THEN open[r] ELSE rlk[r]]
       /\ UNCHANGED <<logv, open, alive, stopping, owed, everUnl, cut, demv, mapv, kf>>

\* the known findings of an accepting path (the smallest set over the accepting paths)
RecordKf(s) ==
    IF TLCGet(3) = 0 THEN TLCSet(2, s) /\ TLCSet(3, 1)
    ELSE IF Cardinality(s) < Cardinality(TLCGet(2)) THEN TLCSet(2, s) ELSE TRUE

TraceNext ==
    /\ i <= Len(Rec)
    /\ LET e == Rec[i] IN
       \/ \* a linked / unlinked frame that the runtime has yet to produce: it takes r's next request(s)
          /\ e.e = "frame" /\ e.lane \in DL /\ e.kind \in {"linked", "unlinked"} /\ fq[e.r][e.lane] = <<>>
          /\ (HCoord(e.r, e.lane) \/ HSync(e.r, e.lane))
          /\ UNCHANGED <<i, logv, open, alive, stopping, owed, everUnl, cut, demv, mapv, kf>>
       \/ /\ Step(e)
          /\ i' = i + 1
          /\ TLCSet(1, Max(TLCGet(1), i + 1))
          /\ (i + 1 = Len(Rec) + 1) => RecordKf(kf')

TraceSpec == TraceInit /\ [][TraceNext]_vars

TraceAccepted ==
    LET m == TLCGet(1) IN
    /\ PrintT(<<"TRACE_RESULT", ToJson([accepted |-> (m = Len(Rec) + 1), matched |-> m - 1, total |-> Len(Rec),
                                        kf |-> IF m = Len(Rec) + 1 THEN TLCGet(2) ELSE TLCGet(4)])>>)
    /\ m = Len(Rec) + 1
=============================================================================

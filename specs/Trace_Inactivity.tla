--------------------------- MODULE Trace_Inactivity ---------------------------
(***************************************************************************)
(* P for the USE of the inactivity coordinator by the agent runtime (C17): *)
(* the agent stops for inactivity only when all of its tasks have been     *)
(* idle for the configured timeout, and it does stop once they have.       *)
(* Trace specification over the log of configuration E run with a short    *)
(* inactive_timeout under an explicitly advanced paused clock.             *)
(*   reset | act (an envelope / attachment was delivered) | adv ms         *)
(*   stopped timedout   the agent task ended (timedout: the remotes were   *)
(*                      closed with reason AgentTimedOut)                  *)
(*   end                end of the recorded run                            *)
(***************************************************************************)
EXTENDS Naturals, Integers, Sequences, TLC, Json, IOUtils

CONSTANTS Timeout,   \* inactive_timeout in ms
          Slack      \* ms after which an idle agent must have stopped (>= the largest single advance)

Rec == ndJsonDeserialize(IOEnv.TRACE)
VARIABLES i, now, last, running, due
vars == <<i, now, last, running, due>>
Max(a, b) == IF a > b THEN a ELSE b

TraceInit == i = 1 /\ now = 0 /\ last = 0 /\ running = TRUE /\ due = FALSE /\ TLCSet(1, 1)

Step(e) ==
    \/ /\ e.e = "reset" /\ now' = 0 /\ last' = 0 /\ running' = TRUE /\ due' = FALSE
    \/ /\ e.e = "act"
       /\ ~due                  \* an agent that had to stop for inactivity has stopped before anything else happens
       /\ last' = now /\ UNCHANGED <<now, running, due>>
    \/ /\ e.e = "adv"
       /\ ~due
       /\ now' = now + e.ms
       \* everybody has been idle for the timeout (plus slack): the agent must stop now
       /\ due' = (running /\ now + e.ms - last >= Timeout + Slack)
       /\ UNCHANGED <<last, running>>
    \/ /\ e.e = "stopped"
       \* only when every task has been idle for the whole timeout
       /\ e.timedout => now - last >= Timeout
       /\ running' = FALSE /\ due' = FALSE /\ UNCHANGED <<now, last>>
    \/ /\ e.e = "end" /\ ~due /\ UNCHANGED <<now, last, running, due>>

TraceNext == /\ i <= Len(Rec) /\ Step(Rec[i]) /\ i' = i + 1 /\ TLCSet(1, Max(TLCGet(1), i + 1))
TraceSpec == TraceInit /\ [][TraceNext]_vars
TraceAccepted ==
    LET m == TLCGet(1) IN
    /\ PrintT(<<"TRACE_RESULT", ToJson([accepted |-> (m = Len(Rec) + 1), matched |-> m - 1, total |-> Len(Rec), kf |-> <<>>])>>)
    /\ m = Len(Rec) + 1
=============================================================================
